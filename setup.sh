#!/bin/sh
# Builds the whole Coq development (full .vo build, never -vos).  Offline.
cd "$(dirname "$0")" || exit 2
/venv/bin/python - <<'PY' || exit 1
from harness import core
ok, log = core.ensure_build(timeout=7000)
print(log[-3000:])
raise SystemExit(0 if ok else 1)
PY
