#!/bin/sh
# Builds the whole Coq development (full .vo build, never -vos).  Offline.
# Uses make -k: a file that does not compile is reported here and makes the checks that depend
# on it fail (each check rebuilds its own dependency closure), without blocking the others.
cd "$(dirname "$0")" || exit 2
/venv/bin/python - <<'PY' || exit 1
import subprocess, sys
from harness import core
core.WORK.mkdir(exist_ok=True)
core.gen_coqproject()
r = subprocess.run(["coq_makefile", "-f", "_CoqProject", "-o", "Makefile"], cwd=core.COQ, capture_output=True, text=True)
if r.returncode != 0:
    print(r.stdout, r.stderr); sys.exit(1)
r = subprocess.run(["timeout", "7000", "make", "-k", "-j%d" % core.NPROC], cwd=core.COQ, capture_output=True, text=True)
print(r.stdout[-1500:])
if r.returncode != 0:
    print("SETUP WARNING: some files did not compile:\n" + r.stderr[-3000:])
vo = len(list(core.COQ.rglob("*.vo"))); v = len(list(core.COQ.rglob("*.v")))
print("compiled %d of %d files" % (vo, v))
sys.exit(0 if vo > 0 else 1)
PY
