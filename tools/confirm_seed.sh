#!/bin/sh
# tools/confirm_seed.sh <Cxx> <k> : confirms a seeded change produced in /tmp/seed/<Cxx>/_seed/<k>
# (applies in that scratch worktree, suite must pass, demo must fail; reverted: demo must pass),
# runs ./check against a scratch copy with the patch, and stores it under /verif/seeded/<Cxx>_<k>/.
ID="$1"; K="$2"; ROOT="${SEEDROOT:-/tmp/seed}"; TAG="${SEEDTAG:-}"; WT=$ROOT/$ID; S=$WT/_seed/$K; N=${ID}_${TAG}$K
cd "$WT" || exit 2
git checkout -q --detach $(git -C /repo rev-parse HEAD) 2>/dev/null; git checkout -q -- . ; git apply "$S/patch.diff" || { echo "APPLY FAILED"; exit 3; }
PYTHONPATH=$WT /venv/bin/python -m pytest -q -p no:cacheprovider --timeout=900 test 2>&1 | tail -1 > $S/_suite.txt
PYTHONPATH=$WT timeout 600 /venv/bin/python $S/demo.py > $S/_demo_with.txt 2>&1; W=$?
git checkout -q -- .
PYTHONPATH=$WT timeout 600 /venv/bin/python $S/demo.py > $S/_demo_without.txt 2>&1; WO=$?
echo "suite: $(cat $S/_suite.txt) | demo with change exit=$W | without exit=$WO"
cd /verif
/verif/tools/try_patch.sh $S/patch.diff ${3:-$ID} quick > $S/_check.txt 2>&1; C=$?
grep -E "VIOLATION|KNOWN|exit=" $S/_check.txt
mkdir -p /verif/seeded/$N
cp $S/patch.diff $S/demo.py /verif/seeded/$N/
/venv/bin/python - "$S" "$ID" "$N" "$W" "$WO" "$C" <<'PY'
import json,sys
S,ID,N,W,WO,C=sys.argv[1:7]
try: meta=json.load(open(S+'/meta.json'))
except Exception: meta={}
try:
    old=json.load(open('/verif/seeded/%s/meta.json'%N))
    for k in ('strengthened','first_check_result'):
        if k in old: meta[k]=old[k]
    if 'first_check_result' not in meta and 'check_result' in old: meta['first_check_result']=old['check_result']
except Exception: pass
meta.update({"property":ID,"confirmed":{"suite":open(S+'/_suite.txt').read().strip(),"demo_exit_with_change":int(W),"demo_exit_without_change":int(WO),
 "how":"tools/confirm_seed.sh: patch applied in a scratch git worktree of /repo, full pytest suite, demo.py with and without the change; then tools/try_patch.sh (./check against a scratch copy with the patch via PERSIM_REPO)"},
 "check_result":{"exit":int(C),"lines":[l.strip() for l in open(S+'/_check.txt') if 'VIOLATION' in l or 'KNOWN' in l][:5]}})
json.dump(meta,open('/verif/seeded/%s/meta.json'%N,'w'),indent=1)
PY
