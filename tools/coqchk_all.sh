#!/bin/sh
# tools/coqchk_all.sh : re-checks every compiled property file (and everything it depends on) with the
# independent checker coqchk and records the axioms it reports (-o).  Slow (minutes per file, GBs of RAM).
cd "$(dirname "$0")/../coq" || exit 2
mkdir -p ../.work/coqchk
for f in Properties/C*.vo; do
  id=$(basename $f .vo)
  timeout 3600 coqchk -o -silent -R . Persim Persim.Properties.$id > ../.work/coqchk/$id.log 2>&1
  echo "$id exit=$? $(grep -c . ../.work/coqchk/$id.log) lines"
done
