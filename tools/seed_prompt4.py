#!/usr/bin/env python3
"""Prompt for a batch-4 'seeded change' sub-agent for property Cxx: only the property text, a scratch
worktree, and one-line summaries of the ideas earlier batches already used (so that it must find a
different mechanism).  Nothing about /verif's checks."""
import glob, json, sys
pid, wt = sys.argv[1], sys.argv[2]
rec = [json.loads(l) for l in open('/verif/properties.jsonl') if l.strip() and json.loads(l)['id'] == pid][0]
used = []
for m in sorted(glob.glob('/verif/seeded/%s_*/meta.json' % pid)):
    try:
        s = json.load(open(m)).get('summary', '')
    except Exception:
        continue
    used.append('- ' + ' '.join(s.split())[:230])
print(f"""You are helping to evaluate a verification effort for the open-source Python library scikit-tda/persim. You have your own scratch git worktree of the library at {wt} (work ONLY there; never touch /repo or /verif, and do not read anything under /verif). Python: /venv/bin/python; run things as `cd {wt} && PYTHONPATH={wt} /venv/bin/python ...` so that `import persim` resolves to YOUR worktree (verify with `python -c "import persim; print(persim.__file__)"`). No network.

Here is a semantic property that the library is supposed to satisfy:

{json.dumps(rec, indent=1)}

YOUR TASK: produce TWO independent, realistic changes to the library source (each a small patch to files under {wt}/persim, like a plausible maintainer slip or well-meant refactor/optimisation) such that, for each change separately:
 1. the library still imports and the EXISTING test-suite still passes completely: `cd {wt} && PYTHONPATH={wt} /venv/bin/python -m pytest -q -p no:cacheprovider --timeout=900 test` (108 tests pass on the unchanged tree; do not edit tests);
 2. the property above is BROKEN by the change;
 3. the breakage needs something SPECIFIC to manifest, and NOT something ordinary use or a casual smoke test would expose at once. Aim for one of these kinds (and say which): (a) a multi-step SEQUENCE of operations or calls in one process (state carried between calls, an object reused after a particular earlier call, call order); (b) an UNUSUAL INPUT: a particular size threshold, a tie, a boundary value, a particular magnitude or sign pattern, a particular dtype / container / memory layout, a non-default parameter or flag combination; (c) TWO COOPERATING SITES that each look fine alone (e.g. a helper whose contract is changed slightly plus a caller that relied on the old contract); (d) a fault at a particular point (an exception raised and caught half-way, a warning turned into an error by a filter, an interrupted loop) after which a later call misbehaves; (e) dependence on a per-process configuration (hash seed, RNG state, environment, number of workers). Prefer subtle semantic slips over crude breakage;
 4. you provide a small demonstration program demo.py (plain Python, exits non-zero / raises AssertionError when the property is violated, exits 0 when it holds) that FAILS with the change applied and PASSES on the unchanged worktree; it must check the property itself (e.g. compare with a brute-force / independent computation of what the property demands), not merely compare against outputs recorded from the old code.
The two changes must use different mechanisms, and BOTH must differ from the ideas that were already used in earlier rounds (do not repeat or lightly vary these):
{chr(10).join(used) if used else '- (none yet)'}

Procedure for each change k in (1, 2): start from a clean worktree (`git -C {wt} checkout -- .`), edit, run the full test-suite (must pass), run your demo (must fail), then `mkdir -p {wt}/_seed/k && git -C {wt} diff > {wt}/_seed/k/patch.diff`, copy demo.py to {wt}/_seed/k/demo.py, then `git -C {wt} checkout -- .` and run the demo again (must pass on the unchanged tree). Write {wt}/_seed/k/meta.json with keys: property, summary (what was changed), needs (what specific condition is needed to manifest), kind (one of a-e above), demo_cmd, suite_result (e.g. "108 passed"), demo_with_change (exit code + one line), demo_without_change. Leave the worktree clean (only the untracked _seed/ directory) when you finish. The demo must run in under 5 minutes.

Final message: for each change, a 3-line description (what, why the suite misses it, what it needs to manifest) and the paths of the files you wrote.""")
