#!/usr/bin/env python3
"""Regenerates MANIFEST.json from tools/manifest_src.json (claimed checks) + properties.jsonl."""
import json, pathlib
root = pathlib.Path(__file__).resolve().parent.parent
src = json.loads((root / "tools" / "manifest_src.json").read_text())
props = [json.loads(l) for l in (root / "properties.jsonl").read_text().splitlines() if l.strip()]
checks, na = [], []
for p in props:
    pid = p["id"]
    c = src["checks"].get(pid)
    if c is None:
        na.append({"property_id": pid, "reason": src["not_claimed"].get(pid, "not yet claimed: model, theorems and correspondence check under construction (see DESIGN.md section 5)")})
        continue
    checks.append({
        "property_id": pid,
        "quick_cmd": "./check %s quick" % pid,
        "thorough_cmd": "./check %s thorough" % pid,
        "evidence_file": "/verif/evidence/%s.json" % pid,
        "replay_cmd_template": "./check %s --replay {path}" % pid,
        "engine": "coq-proof+correspondence",
        "level_claimed": {"category": "proof", "text": c["text"], "design_ref": c.get("design_ref", "DESIGN.md section 5, " + pid)},
        "level_note": c["note"],
        "technique": c.get("technique", "machine-checked proof in Coq 8.16 about a hand-written model + behavioural correspondence check against /repo"),
    })
m = {
    "version": 1,
    "setup_cmd": "./setup.sh",
    "hooks": src["hooks"],
    "engines": [{"name": "coq-proof+correspondence", "path": "/verif/check", "serves_properties": [c["property_id"] for c in checks],
                 "kind_free_text": "Coq 8.16.1 development under /verif/coq (Spec/Model/Proofs/Properties), rebuilt by make; per-run generated case files evaluate the model in coqc (vm_compute / Interval) against the implementation imported from /repo's working tree"}],
    "checks": checks,
    "notes": src.get("notes", ""),
    "not_applicable": na,
}
(root / "MANIFEST.json").write_text(json.dumps(m, indent=1) + "\n")
print("claimed:", [c["property_id"] for c in checks])
