#!/bin/sh
# tools/try_patch.sh <patch-file> <Cxx> [tier]   -- runs ./check against a scratch copy of /repo's
# working tree with the patch applied (PERSIM_REPO), never touching /repo; removes the copy.
set -e
P="$1"; ID="$2"; TIER="${3:-quick}"
D=$(mktemp -d /tmp/try.XXXXXX)
cp -r /repo/persim "$D/persim"
( cd "$D" && patch -p1 -s < "$P" ) || { echo "patch does not apply"; rm -rf "$D"; exit 3; }
cd /verif
set +e
PERSIM_REPO="$D" VERIF_KEEP_EVIDENCE=1 VERIF_REPLAY_DIR=/verif/.work/replay_try ./check "$ID" "$TIER"; rc=$?
rm -rf "$D"
echo "check exit=$rc"
exit $rc
