#!/bin/sh
# tools/confirm_batch4.sh <Cxx>... : confirms both batch-4 seeded changes of each property (sequentially per property,
# properties in parallel), log in .work/seed4_<Cxx>.log
cd "$(dirname "$0")/.." || exit 2
mkdir -p .work
for id in "$@"; do
  ( for k in 1 2; do
      [ -f /tmp/seed4/$id/_seed/$k/patch.diff ] || { echo "$id $k: no patch"; continue; }
      echo "== $id $k"; SEEDROOT=/tmp/seed4 SEEDTAG=b4_ tools/confirm_seed.sh $id $k
    done > .work/seed4_$id.log 2>&1 ) &
done
wait
for id in "$@"; do echo "--- $id"; grep -E "^==|suite:|VIOLATION|KNOWN|exit=|APPLY" .work/seed4_$id.log; done
