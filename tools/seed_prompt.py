#!/usr/bin/env python3
"""Prints the prompt for a fresh 'seeded change' sub-agent for property Cxx (it gets only the
property text and a scratch worktree, nothing from /verif)."""
import json, sys
pid, wt = sys.argv[1], sys.argv[2]
rec = [json.loads(l) for l in open('/verif/properties.jsonl') if l.strip() and json.loads(l)['id'] == pid][0]
print(f"""You are helping to evaluate a verification effort for the open-source Python library scikit-tda/persim. You have your own scratch git worktree of the library at {wt} (work ONLY there; never touch /repo or /verif, and do not read anything under /verif). Python: /venv/bin/python; run things as `cd {wt} && PYTHONPATH={wt} /venv/bin/python ...` so that `import persim` resolves to YOUR worktree (verify with `python -c "import persim; print(persim.__file__)"`). No network.

Here is a semantic property that the library is supposed to satisfy:

{json.dumps(rec, indent=1)}

YOUR TASK: produce TWO independent, realistic changes to the library source (each a small patch to files under {wt}/persim, like a plausible maintainer slip or well-meant refactor/optimisation) such that, for each change separately:
 1. the library still imports and the EXISTING test-suite still passes completely: `cd {wt} && PYTHONPATH={wt} /venv/bin/python -m pytest -q -p no:cacheprovider --timeout=900 test` (108 tests pass on the unchanged tree; do not edit tests);
 2. the property above is BROKEN by the change;
 3. the breakage needs something SPECIFIC to manifest — a particular kind of input (ties, repeated points, a size threshold, negative coordinates, a particular flag combination, a non-default parameter, a particular array dtype / container type), a multi-step sequence of operations, a particular hash seed / RNG draw, or two cooperating sites that each look fine alone — NOT something ordinary use or a casual smoke test would expose at once. Prefer subtle semantic slips (an off-by-one in a boundary, `<` for `<=`, a wrong constant in a rarely-taken branch, a dropped defensive copy, a cache keyed too coarsely, an early exit that is slightly too eager) over crude breakage;
 4. you provide a small demonstration program demo.py (plain Python, exits non-zero / raises AssertionError when the property is violated, exits 0 when it holds) that FAILS with the change applied and PASSES on the unchanged worktree; it must check the property itself (e.g. compare with a brute-force / independent computation of what the property demands), not merely compare against outputs recorded from the old code.
The two changes should touch different mechanisms of the property where possible.

Procedure for each change k in (1, 2): start from a clean worktree (`git -C {wt} checkout -- .`), edit, run the full test-suite (must pass), run your demo (must fail), then `git -C {wt} diff > {wt}/_seed/k/patch.diff`, copy demo.py to {wt}/_seed/k/demo.py, then `git -C {wt} checkout -- .` and run the demo again (must pass on the unchanged tree). Write {wt}/_seed/k/meta.json with keys: property, summary (what was changed), needs (what specific condition is needed to manifest), demo_cmd, suite_result (e.g. "108 passed"), demo_with_change (exit code + one line), demo_without_change. Leave the worktree clean (only the untracked _seed/ directory) when you finish.

Final message: for each change, a 3-line description (what, why the suite misses it, what it needs to manifest) and the paths of the files you wrote.""")
