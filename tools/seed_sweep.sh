#!/bin/sh
# tools/seed_sweep.sh "<seeds>" [ids...] : runs the quick checks under several VERIF_SEED values
# (evidence files are not rewritten); prints one line per run.  For shaking out false alarms.
cd "$(dirname "$0")/.." || exit 2
SEEDS="$1"; shift
IDS="$*"
[ -z "$IDS" ] && IDS=$(/venv/bin/python -c "import json;print(' '.join(c['property_id'] for c in json.load(open('MANIFEST.json'))['checks']))")
mkdir -p .work/sweep
for sd in $SEEDS; do for id in $IDS; do
  s=$(date +%s)
  VERIF_SEED=$sd VERIF_KEEP_EVIDENCE=1 ./check $id quick > .work/sweep/$id.$sd.out 2> .work/sweep/$id.$sd.err; rc=$?
  e=$(date +%s)
  echo "seed=$sd $id exit=$rc $((e-s))s | $(grep -h 'evaluations' .work/sweep/$id.$sd.err | tail -1 | cut -c1-140)"
done; done
