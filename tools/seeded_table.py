#!/usr/bin/env python3
"""Prints seeded/README.md: a markdown table of the seeded changes under /verif/seeded and what the checks said."""
import json, glob, os

def verdict_of(cr):
    if not cr:
        return 'not run'
    lines = cr.get('lines', [])
    if cr.get('exit') == 1:
        v = [l for l in lines if l.startswith('VIOLATION')]
        return 'no-failing-input-found' if v and all('no-failing-input-found' in l for l in v) else 'failing input'
    if cr.get('exit') == 0:
        return 'missed (exit 0)'
    return 'not run (exit %s)' % cr.get('exit')

rows = []
for d in sorted(glob.glob('/verif/seeded/*/')):
    try:
        m = json.load(open(d + 'meta.json'))
    except Exception:
        continue
    name = os.path.basename(d.rstrip('/'))
    now = verdict_of(m.get('check_result'))
    by = m.get('property', '')
    if m.get('caught_by'):
        other = verdict_of(m.get('check_result_' + m['caught_by']))
        if other != 'not run':
            now, by = other, m['caught_by']
    st = (m.get('strengthened') or '').lower()
    if st.startswith('missed at first') or 'missed at first' in st[:60]:
        first = 'missed (exit 0)'
    elif 'no-failing-input-found at first' in st:
        first = 'no-failing-input-found'
    elif m.get('first_check_result'):
        first = verdict_of(m.get('first_check_result'))
    else:
        first = now
    summ = m.get('summary') or ''
    if isinstance(summ, dict):
        summ = json.dumps(summ)
    summ = ' '.join(str(summ).split())[:300]
    needs = ' '.join(str(m.get('needs', '')).split())[:220]
    note = m.get('strengthened', '') or ''
    if m.get('rebased'):
        note = (note + ' ' if note else '') + '(patch re-based onto the current tree)'
    rows.append((name, summ, needs, by, now, first, note))

print(open('/verif/seeded/README.head.md').read() if os.path.exists('/verif/seeded/README.head.md') else '# Seeded changes\n')
n = len(rows)
caught = sum(1 for r in rows if r[4] in ('failing input', 'no-failing-input-found'))
nofail = sum(1 for r in rows if r[4] == 'no-failing-input-found')
firstc = sum(1 for r in rows if r[5] in ('failing input', 'no-failing-input-found'))
print('%d seeded changes; reported by the quick tier now: %d (%d of them as no-failing-input-found); reported on first contact: %d.\n' % (n, caught, nofail, firstc))
print('| Seeded change | What was changed (abridged) | Needs, to manifest (abridged) | Caught by | Verdict now | First contact | Needed strengthening |')
print('|---|---|---|---|---|---|---|')
for r in rows:
    print('| %s | %s | %s | %s | %s | %s | %s |' % (r[0], r[1].replace('|', '/'), r[2].replace('|', '/'), r[3], r[4], r[5], r[6].replace('|', '/')))
