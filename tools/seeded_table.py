#!/usr/bin/env python3
"""Prints a markdown table of the seeded changes under /verif/seeded and what the checks said."""
import json, glob, os
rows = []
for d in sorted(glob.glob('/verif/seeded/*/')):
    try:
        m = json.load(open(d + 'meta.json'))
    except Exception:
        continue
    name = os.path.basename(d.rstrip('/'))
    cr = m.get('check_result', {})
    lines = cr.get('lines', [])
    verdict = 'missed (exit 0)'
    if cr.get('exit') == 1:
        verdict = 'caught: no-failing-input-found' if any('no-failing-input-found' in l for l in lines) else 'caught with a failing input'
    elif cr.get('exit') not in (0, 1):
        verdict = 'not run (exit %s)' % cr.get('exit')
    summ = (m.get('summary') or '')
    if isinstance(summ, dict): summ = json.dumps(summ)
    summ = ' '.join(str(summ).split())[:230]
    needs = ' '.join(str(m.get('needs', '')).split())[:200]
    rows.append((name, m.get('property', ''), summ, needs, verdict, m.get('strengthened', '')))
print('| Seeded change | What was changed | Needs, to manifest | Check verdict | Note |')
print('|---|---|---|---|---|')
for r in rows:
    print('| %s | %s | %s | %s | %s |' % (r[0], r[2].replace('|', '/'), r[3].replace('|', '/'), r[4], r[5]))
