#!/venv/bin/python
"""Records the docstring-free AST fingerprint of every persim source file of /repo's working tree in
harness/source_baseline.json.  Run after every commit to /repo (fix: commits, hooks)."""
import json, pathlib, sys
sys.path.insert(0, str(pathlib.Path(__file__).resolve().parent.parent))
from harness import core
fp = core.source_fingerprints("/repo")
(pathlib.Path(core.VERIF) / "harness" / "source_baseline.json").write_text(json.dumps(fp, indent=1, sort_keys=True) + "\n")
print(len(fp), "files")
