#!/bin/bash
# tools/run_thorough_par.sh [PAR] [ids...] : thorough tier of every claimed check, PAR at a time (default 3); evidence is NOT
# rewritten (VERIF_KEEP_EVIDENCE=1); one summary line per check in .work/thorough_all.txt
cd "$(dirname "$0")/.." || exit 2
PAR="${1:-3}"; shift
IDS="$*"
[ -z "$IDS" ] && IDS=$(/venv/bin/python -c "import json;print(' '.join(c['property_id'] for c in json.load(open('MANIFEST.json'))['checks']))")
mkdir -p .work/thorough
: > .work/thorough_all.txt
for id in $IDS; do
  while [ "$(jobs -r | wc -l)" -ge "$PAR" ]; do sleep 5; done
  ( s=$(date +%s); VERIF_KEEP_EVIDENCE=1 timeout 7200 ./check $id thorough > .work/thorough/$id.out 2> .work/thorough/$id.err; rc=$?; e=$(date +%s)
    echo "$id thorough exit=$rc $((e-s))s $(grep -c '^VIOLATION' .work/thorough/$id.out) violation(s) $(grep -c '^KNOWN-FINDING' .work/thorough/$id.out) known | $(grep 'evaluations' .work/thorough/$id.err | tail -1 | cut -c1-110)" >> .work/thorough_all.txt ) &
done
wait
cat .work/thorough_all.txt
