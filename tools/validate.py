#!/usr/bin/env python3-vt
import json, jsonschema, glob, sys
m=json.load(open('/verif/MANIFEST.json')); s=json.load(open('/root/.vp/MANIFEST.schema.json'))
jsonschema.validate(m,s); print('manifest ok', len(m['checks']), 'checks;', len(m.get('not_applicable',[])), 'not claimed')
s=json.load(open('/root/.vp/EVIDENCE.schema.json'))
for f in sorted(glob.glob('/verif/evidence/*.json')):
    jsonschema.validate(json.load(open(f)),s); print('evidence ok', f)
