#!/bin/sh
# tools/run_all.sh [tier] [ids...] : runs every claimed check once, prints a summary.
cd "$(dirname "$0")/.." || exit 2
TIER="${1:-quick}"; shift
IDS="$*"
[ -z "$IDS" ] && IDS=$(/venv/bin/python -c "import json;print(' '.join(c['property_id'] for c in json.load(open('MANIFEST.json'))['checks']))")
mkdir -p .work/runall
for id in $IDS; do
  s=$(date +%s)
  ./check $id $TIER > .work/runall/$id.out 2> .work/runall/$id.err; rc=$?
  e=$(date +%s)
  echo "$id exit=$rc $((e-s))s $(grep -c '^VIOLATION' .work/runall/$id.out) violation(s) $(grep -c '^KNOWN-FINDING' .work/runall/$id.out) known | $(tail -1 .work/runall/$id.err | cut -c1-100)"
done
