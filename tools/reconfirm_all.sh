#!/bin/bash
# tools/reconfirm_all.sh [pattern] : re-runs the quick check of every stored seeded change (seeded/<name>/patch.diff) against
# a scratch copy of /repo with the patch (tools/try_patch.sh); properties in parallel (VERIF_PAR, default 5), the changes of
# one property one after the other.  Writes the verdict into seeded/<name>/meta.json (check_result) and prints one line each.
cd "$(dirname "$0")/.." || exit 2
PAT="${1:-*}"; PAR="${VERIF_PAR:-5}"
mkdir -p .work/reconfirm
ls -d seeded/$PAT/ 2>/dev/null | sed 's#seeded/##; s#/##' | sed 's/_.*//' | sort -u > .work/reconfirm/props.txt ; for s in $VERIF_SKIP; do sed -i "/^$s$/d" .work/reconfirm/props.txt; done
one_prop() {
  id="$1"
  for d in seeded/${id}_*/ seeded/${id}/; do
    [ -f "$d/patch.diff" ] || continue
    n=$(basename "$d")
    case "$n" in $PAT) ;; *) continue;; esac
    tools/try_patch.sh "/verif/$d/patch.diff" "$id" quick > .work/reconfirm/$n.txt 2>&1; rc=$?
    /venv/bin/python - "$d" "$rc" ".work/reconfirm/$n.txt" <<'PY'
import json,sys
d,rc,log=sys.argv[1],int(sys.argv[2]),sys.argv[3]
p=d+'/meta.json'
try: m=json.load(open(p))
except Exception: m={}
lines=[l.strip() for l in open(log) if 'VIOLATION' in l or 'KNOWN' in l][:5]
if 'first_check_result' not in m and 'check_result' in m: m['first_check_result']=m['check_result']
m['check_result']={"exit":rc,"lines":lines}
json.dump(m,open(p,'w'),indent=1)
PY
    echo "$n exit=$rc $(grep -c '^VIOLATION' .work/reconfirm/$n.txt) violation line(s) $(grep -c 'no-failing-input-found' .work/reconfirm/$n.txt) nofail"
  done
}
export -f one_prop 2>/dev/null
for id in $(cat .work/reconfirm/props.txt); do
  while [ "$(jobs -r | wc -l)" -ge "$PAR" ]; do sleep 2; done
  one_prop "$id" &
done
wait
