#!/bin/bash
cd /verif
mkdir -p .work/reconfirm
one_prop() {
  id="$1"
  for d in seeded/${id}_*/ ; do
    [ -f "$d/patch.diff" ] || continue
    n=$(basename "$d")
    tools/try_patch.sh "/verif/$d/patch.diff" "$id" quick > .work/reconfirm/$n.txt 2>&1; rc=$?
    /venv/bin/python - "$d" "$rc" ".work/reconfirm/$n.txt" <<'PY'
import json,sys
d,rc,log=sys.argv[1],int(sys.argv[2]),sys.argv[3]
p=d+'/meta.json'
try: m=json.load(open(p))
except Exception: m={}
lines=[l.strip() for l in open(log) if 'VIOLATION' in l or 'KNOWN' in l][:5]
if 'first_check_result' not in m and 'check_result' in m: m['first_check_result']=m['check_result']
m['check_result']={"exit":rc,"lines":lines}
json.dump(m,open(p,'w'),indent=1)
PY
    echo "$n exit=$rc $(grep -c '^VIOLATION' .work/reconfirm/$n.txt) violation line(s) $(grep -c 'no-failing-input-found' .work/reconfirm/$n.txt) nofail"
  done
}
for id in "$@"; do one_prop "$id" & done
wait
