#!/bin/sh
# tools/confirm_batch4.sh <Cxx>... : confirms both batch-4 seeded changes of each property (sequentially per property,
# properties in parallel), log in .work/seedb_<Cxx>.log
cd "$(dirname "$0")/.." || exit 2
mkdir -p .work
for id in "$@"; do
  ( for k in 1 2; do
      [ -f ${SEEDROOT:-/tmp/seed5}/$id/_seed/$k/patch.diff ] || { echo "$id $k: no patch"; continue; }
      echo "== $id $k"; SEEDROOT=${SEEDROOT:-/tmp/seed5} SEEDTAG=${SEEDTAG:-b5_} tools/confirm_seed.sh $id $k
    done > .work/seedb_$id.log 2>&1 ) &
done
wait
for id in "$@"; do echo "--- $id"; grep -E "^==|suite:|VIOLATION|KNOWN|exit=|APPLY" .work/seedb_$id.log; done
