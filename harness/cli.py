import argparse
import importlib
import os
import sys

from . import core


def main():
    ap = argparse.ArgumentParser()
    ap.add_argument("pid")
    ap.add_argument("tier", nargs="?", default=os.environ.get("VERIF_TIER", "quick"))
    ap.add_argument("--replay")
    a = ap.parse_args()
    seed = int(os.environ.get("VERIF_SEED", "0") or 0)
    mod = importlib.import_module("harness.props." + a.pid.lower())
    sys.exit(core.run_check(mod, a.tier, seed, a.replay))


if __name__ == "__main__":
    main()
