"""Fail-closed translator from a small Python subset to Gallina, used to REGENERATE parts of the Coq
model from persim's current source on every run (DESIGN.md section 12.7).

Two front ends:

  imager_regen(repo)   persim/images.py, class PersistenceImager: `_num_pixels`, the tail of `__init__`, the three
                       setters, `_create_mesh`, and the tail / running-extreme updates of `fit` are symbolically
                       executed over the abstract numeric record `Num` of Model/ImagerM.v; the resulting terms are
                       emitted as definitions `src_*`, each with the obligation `src_* = <hand-written model>`
                       proved by conversion (`reflexivity`), i.e. for EVERY numeric instance (exact rationals and
                       binary64) and every state.
  scalar_regen(repo)   persim/images_kernels.py (`uniform`, `sbvn_cdf`, `norm_cdf`'s use, `gauss_legendre_quad`,
                       the dispatch of `gaussian`) and persim/images_weights.py (`linear_ramp`, `persistence`) as
                       real-valued functions of one evaluation point, with obligations against Model/KernelM.v and
                       Model/ImageM.v.

Anything outside the subset raises Unsupported (the obligation then counts as not discharged): the
translator never guesses.  Trusted: this file (the meaning it gives to the Python subset and to the few NumPy
calls in its tables).
"""
from __future__ import annotations

import ast
import os
from fractions import Fraction


class Unsupported(Exception):
    pass


def _fail(node, why):
    raise Unsupported("line %s: %s" % (getattr(node, "lineno", "?"), why))


def _parse(repo, rel):
    path = os.path.join(repo, rel)
    with open(path) as f:
        src = f.read()
    return ast.parse(src, filename=path)


def _find_class(tree, name):
    for n in tree.body:
        if isinstance(n, ast.ClassDef) and n.name == name:
            return n
    raise Unsupported("class %s not found" % name)


def _find_func(body, name, decorator=None):
    """Function `name` in a list of statements; with `decorator` = 'setter' the @name.setter one, with
    decorator = 'property' the @property one, with None the undecorated one."""
    for n in body:
        if isinstance(n, ast.FunctionDef) and n.name == name:
            decs = [ast.unparse(d) for d in n.decorator_list]
            if decorator is None and not decs:
                return n
            if decorator == "setter" and ("%s.setter" % name) in decs:
                return n
            if decorator == "property" and "property" in decs:
                return n
    raise Unsupported("function %s (%s) not found" % (name, decorator))


# ===================================================================================== imager
# Values of the symbolic execution
class V:
    """ty: 'num' | 'int' | 'mesh' | 'bool' | 'opaque'; term: Gallina text (atomic or parenthesised)."""
    __slots__ = ("ty", "term")

    def __init__(self, ty, term):
        self.ty, self.term = ty, term

    def __repr__(self):
        return "V(%s,%s)" % (self.ty, self.term)


GEOM_ATTRS = ("_pixel_size", "_birth_range", "_pers_range", "_width", "_height", "_resolution", "_bpnts", "_ppnts")


class ImagerExec:
    """Symbolic execution of straight-line method bodies of PersistenceImager over `Num`."""

    def __init__(self, cls):
        self.cls = cls
        self.depth = 0

    # ---- state
    def initial_attrs(self, s="s"):
        return {
            "_pixel_size": V("num", "(psz %s)" % s),
            "_birth_range": (V("num", "(blo %s)" % s), V("num", "(bhi %s)" % s)),
            "_pers_range": (V("num", "(plo %s)" % s), V("num", "(phi %s)" % s)),
            "_width": V("num", "(width %s)" % s),
            "_height": V("num", "(height %s)" % s),
            "_resolution": (V("int", "(resw %s)" % s), V("int", "(resh %s)" % s)),
            "_bpnts": V("mesh", "(bpnts %s)" % s),
            "_ppnts": V("mesh", "(ppnts %s)" % s),
        }

    @staticmethod
    def state_term(attrs):
        def num(v):
            if not isinstance(v, V) or v.ty != "num":
                raise Unsupported("attribute is not a float-valued scalar: %r" % (v,))
            return v.term

        def pair(v, ty):
            if not (isinstance(v, tuple) and len(v) == 2 and all(isinstance(x, V) and x.ty == ty for x in v)):
                raise Unsupported("attribute is not a pair of %s: %r" % (ty, v))
            return v[0].term, v[1].term
        b0, b1 = pair(attrs["_birth_range"], "num")
        p0, p1 = pair(attrs["_pers_range"], "num")
        r0, r1 = pair(attrs["_resolution"], "int")
        for k in ("_bpnts", "_ppnts"):
            if not (isinstance(attrs[k], V) and attrs[k].ty == "mesh"):
                raise Unsupported("%s is not a mesh" % k)
        return "(mkS %s %s %s %s %s %s %s %s %s %s %s)" % (
            num(attrs["_pixel_size"]), b0, b1, p0, p1, num(attrs["_width"]), num(attrs["_height"]), r0, r1,
            attrs["_bpnts"].term, attrs["_ppnts"].term)

    # ---- expressions
    def ev(self, e, env, attrs):
        if isinstance(e, ast.Name):
            if e.id in env:
                return env[e.id]
            _fail(e, "unknown name %s" % e.id)
        if isinstance(e, ast.Constant):
            if isinstance(e.value, bool) or e.value is None:
                return V("opaque", "tt")
            if isinstance(e.value, int):
                return V("int", "(%d)%%Z" % e.value)
            _fail(e, "float literal in geometry code: %r" % (e.value,))
        if isinstance(e, ast.Tuple):
            return tuple(self.ev(x, env, attrs) for x in e.elts)
        if isinstance(e, ast.Attribute) and isinstance(e.value, ast.Name) and e.value.id == "self":
            if e.attr in attrs:
                return attrs[e.attr]
            # a property: evaluate its getter
            try:
                g = _find_func(self.cls.body, e.attr, "property")
            except Unsupported:
                _fail(e, "unknown attribute self.%s" % e.attr)
            return self.call_body(g, {}, attrs, e)
        if isinstance(e, ast.Subscript):
            base = self.ev(e.value, env, attrs)
            idx = e.slice
            if isinstance(base, tuple) and isinstance(idx, ast.Constant) and isinstance(idx.value, int) \
                    and 0 <= idx.value < len(base):
                return base[idx.value]
            _fail(e, "subscript that is not a constant index into a pair")
        if isinstance(e, ast.BinOp):
            a, b = self.ev(e.left, env, attrs), self.ev(e.right, env, attrs)
            if not (isinstance(a, V) and isinstance(b, V)):
                _fail(e, "arithmetic on a non-scalar")
            return self.binop(e, a, b)
        if isinstance(e, ast.UnaryOp) and isinstance(e.op, ast.USub):
            a = self.ev(e.operand, env, attrs)
            if isinstance(a, V) and a.ty == "int":
                return V("int", "(- %s)%%Z" % a.term)
            _fail(e, "unary minus on a float")
        if isinstance(e, ast.Compare) and len(e.ops) == 1:
            a, b = self.ev(e.left, env, attrs), self.ev(e.comparators[0], env, attrs)
            if isinstance(a, V) and isinstance(b, V) and a.ty == "num" and b.ty == "num":
                if isinstance(e.ops[0], ast.Lt):
                    return V("bool", "(ltb N %s %s)" % (a.term, b.term))
                if isinstance(e.ops[0], ast.Gt):
                    return V("bool", "(ltb N %s %s)" % (b.term, a.term))
                if isinstance(e.ops[0], ast.LtE):
                    return V("bool", "(leb N %s %s)" % (a.term, b.term))
                if isinstance(e.ops[0], ast.GtE):
                    return V("bool", "(leb N %s %s)" % (b.term, a.term))
            _fail(e, "comparison outside the subset")
        if isinstance(e, ast.Call):
            return self.call(e, env, attrs)
        _fail(e, "expression outside the subset: %s" % type(e).__name__)

    def binop(self, e, a, b):
        op = e.op
        if a.ty == "int" and b.ty == "int":
            sym = {ast.Add: "+", ast.Sub: "-", ast.Mult: "*"}.get(type(op))
            if sym is None:
                _fail(e, "integer operator outside the subset")
            return V("int", "(%s %s %s)%%Z" % (a.term, sym, b.term))
        name = {ast.Add: "add", ast.Sub: "sub", ast.Mult: "mul", ast.Div: "div"}.get(type(op))
        if name is None:
            _fail(e, "operator outside the subset")
        if a.ty == "num" and b.ty == "int" and name == "div" and b.term == "(2)%Z":
            return V("num", "(half N %s)" % a.term)
        def lift(v):
            if v.ty == "num":
                return v.term
            if v.ty == "int":
                return "(of_int N %s)" % v.term
            _fail(e, "arithmetic on %s" % v.ty)
        return V("num", "(%s N %s %s)" % (name, lift(a), lift(b)))

    def call(self, e, env, attrs):
        f = ast.unparse(e.func)
        if f == "int" and len(e.args) == 1 and not e.keywords:
            inner = e.args[0]
            if isinstance(inner, ast.Call) and ast.unparse(inner.func) in ("np.ceil", "numpy.ceil", "math.ceil") \
                    and len(inner.args) == 1 and not inner.keywords:
                a = self.ev(inner.args[0], env, attrs)
                if isinstance(a, V) and a.ty == "num":
                    return V("int", "(ceil_int N %s)" % a.term)
            a = self.ev(inner, env, attrs)
            if isinstance(a, V) and a.ty == "num":
                return V("int", "(trunc_int N %s)" % a.term)
            if isinstance(a, V) and a.ty == "int":
                return a
            _fail(e, "int() of a non-scalar")
        if f in ("np.linspace", "numpy.linspace"):
            kw = {k.arg: k.value for k in e.keywords}
            if len(e.args) != 3 or set(kw) - {"endpoint", "dtype"} or "endpoint" not in kw:
                _fail(e, "np.linspace call outside the modelled form (lo, hi, n, endpoint=False, dtype=np.float64)")
            if not (isinstance(kw["endpoint"], ast.Constant) and kw["endpoint"].value is False):
                _fail(e, "np.linspace with endpoint != False")
            if "dtype" in kw and ast.unparse(kw["dtype"]) not in ("np.float64", "float", "numpy.float64"):
                _fail(e, "np.linspace with dtype %s" % ast.unparse(kw["dtype"]))
            lo, hi, n = (self.ev(x, env, attrs) for x in e.args)
            if not (isinstance(lo, V) and lo.ty == "num" and isinstance(hi, V) and hi.ty == "num"
                    and isinstance(n, V) and n.ty == "int"):
                _fail(e, "np.linspace arguments of unexpected types")
            return V("mesh", "(linspace_open N %s %s %s)" % (lo.term, hi.term, n.term))
        if isinstance(e.func, ast.Attribute) and isinstance(e.func.value, ast.Name) and e.func.value.id == "self":
            g = _find_func(self.cls.body, e.func.attr)
            params = [a.arg for a in g.args.args][1:]
            if e.keywords or len(e.args) != len(params):
                _fail(e, "call of self.%s with keywords / wrong arity" % e.func.attr)
            local = {p: self.ev(a, env, attrs) for p, a in zip(params, e.args)}
            return self.call_body(g, local, attrs, e)
        _fail(e, "call of %s is outside the subset" % f)

    def call_body(self, g, local, attrs, at):
        self.depth += 1
        if self.depth > 8:
            _fail(at, "call depth")
        try:
            r = self.run(g.body, local, attrs)
        finally:
            self.depth -= 1
        return r if r is not None else V("opaque", "tt")

    # ---- statements; returns the value of a `return`, else None
    def run(self, body, env, attrs, skip=lambda st: False):
        for st in body:
            if skip(st):
                continue
            if isinstance(st, ast.Expr) and isinstance(st.value, ast.Constant):
                continue                                    # docstring
            if isinstance(st, ast.Return):
                return self.ev(st.value, env, attrs) if st.value is not None else V("opaque", "tt")
            if isinstance(st, ast.Assign) and len(st.targets) == 1:
                self.assign(st.targets[0], self.ev(st.value, env, attrs), env, attrs, st)
                continue
            if isinstance(st, ast.Expr) and isinstance(st.value, ast.Call):
                self.ev(st.value, env, attrs)
                continue
            if isinstance(st, ast.If) and not st.orelse:
                # `if c: x = e` : conditional update of locals only
                c = self.ev(st.test, env, attrs)
                if not (isinstance(c, V) and c.ty == "bool"):
                    _fail(st, "if-test outside the subset")
                env2 = dict(env)
                for s2 in st.body:
                    if not (isinstance(s2, ast.Assign) and len(s2.targets) == 1 and isinstance(s2.targets[0], ast.Name)):
                        _fail(s2, "conditional statement that is not a plain local assignment")
                    self.assign(s2.targets[0], self.ev(s2.value, env2, attrs), env2, attrs, s2)
                for k, v in env2.items():
                    old = env.get(k)
                    if old is v:
                        continue
                    if not (isinstance(old, V) and isinstance(v, V) and old.ty == v.ty == "num"):
                        _fail(st, "conditional update of %s is not float-valued on both branches" % k)
                    env[k] = V("num", "(if %s then %s else %s)" % (c.term, v.term, old.term))
                continue
            _fail(st, "statement outside the subset: %s" % ast.unparse(st).split("\n")[0][:80])
        return None

    def assign(self, target, val, env, attrs, st):
        if isinstance(target, ast.Name):
            env[target.id] = val
        elif isinstance(target, ast.Attribute) and isinstance(target.value, ast.Name) and target.value.id == "self":
            if target.attr in GEOM_ATTRS:
                attrs[target.attr] = val
            elif target.attr.lstrip("_") + "" in ("birth_range", "pers_range", "pixel_size") and not target.attr.startswith("_"):
                # assignment through a property setter: run the setter
                g = _find_func(self.cls.body, target.attr, "setter")
                p = [a.arg for a in g.args.args][1]
                self.call_body(g, {p: val}, attrs, st)
            else:
                attrs["?" + target.attr] = val            # non-geometric attribute (weight, kernel, params): not modelled
        elif isinstance(target, ast.Tuple) and isinstance(val, tuple) and len(val) == len(target.elts):
            for t, v in zip(target.elts, val):
                self.assign(t, v, env, attrs, st)
        else:
            _fail(st, "assignment target outside the subset")


IMAGER_HEADER = """(* GENERATED by harness/src2coq.py from persim/images.py of the current tree - do not edit *)
From Coq Require Import ZArith List.
From Persim Require Import Model.ImagerM.
Import ListNotations.
"""


def imager_regen(repo):
    """Returns (coq_text, obligations) where obligations is a list of (lemma_name, python_unit, line)."""
    tree = _parse(repo, "persim/images.py")
    cls = _find_class(tree, "PersistenceImager")
    X = ImagerExec(cls)
    defs, obls = [], []

    def opaque_call(st):
        # statements of __init__ that do not touch the geometry: defaults, validation, weight / kernel
        if isinstance(st, ast.If):
            t = ast.unparse(st.test)
            return t.endswith(" is None")
        if isinstance(st, ast.Expr) and isinstance(st.value, ast.Call):
            return ast.unparse(st.value.func) in ("self._validate_parameters",)
        if isinstance(st, ast.Assign):
            # assignments whose targets are all NON-geometric attributes of self (weight, kernel, params)
            tgs = st.targets[0].elts if isinstance(st.targets[0], ast.Tuple) else [st.targets[0]]
            return all(isinstance(t, ast.Attribute) and isinstance(t.value, ast.Name) and t.value.id == "self"
                       and t.attr not in GEOM_ATTRS and t.attr not in ("birth_range", "pers_range", "pixel_size")
                       for t in tgs)
        return False

    # _num_pixels(ps; lo, hi)
    g = _find_func(cls.body, "_num_pixels")
    attrs = X.initial_attrs()
    attrs["_pixel_size"] = V("num", "ps")
    pname = [a.arg for a in g.args.args][1]
    r = X.call_body(g, {pname: (V("num", "lo"), V("num", "hi"))}, attrs, g)
    if not (isinstance(r, V) and r.ty == "int"):
        raise Unsupported("_num_pixels does not return an integer")
    defs.append("Definition src_num_pixels (N : Num) (ps lo hi : T N) : Z := %s." % r.term)
    obls.append(("regen_num_pixels", "forall N ps lo hi, src_num_pixels N ps lo hi = num_pixels N ps lo hi",
                 "PersistenceImager._num_pixels", g.lineno))

    # _create_mesh
    g = _find_func(cls.body, "_create_mesh")
    attrs = X.initial_attrs()
    X.call_body(g, {}, attrs, g)
    defs.append("Definition src_create_mesh (N : Num) (s : state N) : state N := %s." % X.state_term(attrs))
    obls.append(("regen_create_mesh", "forall N s, src_create_mesh N s = create_mesh N s",
                 "PersistenceImager._create_mesh", g.lineno))

    # setters
    for attr, model, two in (("birth_range", "set_birth", True), ("pers_range", "set_pers", True),
                             ("pixel_size", "set_pixel", False)):
        g = _find_func(cls.body, attr, "setter")
        p = [a.arg for a in g.args.args][1]
        attrs = X.initial_attrs()
        val = (V("num", "lo"), V("num", "hi")) if two else V("num", "p")
        X.call_body(g, {p: val}, attrs, g)
        if two:
            defs.append("Definition src_%s (N : Num) (s : state N) (lo hi : T N) : state N := %s." % (model, X.state_term(attrs)))
            obls.append(("regen_" + model, "forall N s lo hi, src_%s N s lo hi = %s N s lo hi" % (model, model),
                         "PersistenceImager.%s (setter)" % attr, g.lineno))
        else:
            defs.append("Definition src_%s (N : Num) (s : state N) (p : T N) : state N := %s." % (model, X.state_term(attrs)))
            obls.append(("regen_" + model, "forall N s p, src_%s N s p = %s N s p" % (model, model),
                         "PersistenceImager.%s (setter)" % attr, g.lineno))

    # constructor: the statements after validation, on explicit arguments
    g = _find_func(cls.body, "__init__")
    env = {"birth_range": (V("num", "bl"), V("num", "bh")), "pers_range": (V("num", "pl"), V("num", "ph")),
           "pixel_size": V("num", "ps")}
    for a in g.args.args[1:]:
        env.setdefault(a.arg, V("opaque", "tt"))
    attrs = {"_bpnts": V("mesh", "[]"), "_ppnts": V("mesh", "[]")}
    X.run(g.body, env, attrs, skip=opaque_call)
    for k in GEOM_ATTRS:
        if k not in attrs:
            raise Unsupported("__init__ does not set self.%s" % k)
    defs.append("Definition src_ctor (N : Num) (bl bh pl ph ps : T N) : state N := %s." % X.state_term(attrs))
    obls.append(("regen_ctor", "forall N bl bh pl ph ps, src_ctor N bl bh pl ph ps = ctor N bl bh pl ph ps",
                 "PersistenceImager.__init__", g.lineno))

    # fit: (1) the four running-extreme updates of the loop, (2) the two final range assignments
    g = _find_func(cls.body, "fit")
    loop = [st for st in g.body if isinstance(st, ast.For)]
    if len(loop) != 1:
        raise Unsupported("fit: expected exactly one loop over the diagrams")
    ifs = [st for st in loop[0].body if isinstance(st, ast.If)]
    # the statements of the loop body that are not running-extreme updates are pinned as text: a private copy is taken
    # BEFORE the in-place skew (so the caller's diagram is never written), then column minima / maxima
    rest = [st for st in loop[0].body if not (isinstance(st, ast.If) and ast.unparse(st.test).strip() != "skew")]
    def is_private_copy(st):
        # pers_dgm = <an expression that is known to COPY pers_dgm>  (np.asarray / np.asanyarray / a bare name do not)
        if not (isinstance(st, ast.Assign) and len(st.targets) == 1 and ast.unparse(st.targets[0]) == "pers_dgm"
                and isinstance(st.value, ast.Call)):
            return False
        f = ast.unparse(st.value.func).replace("numpy.", "np.")
        args = [ast.unparse(a) for a in st.value.args]
        kws = {k.arg: ast.unparse(k.value) for k in st.value.keywords}
        if f in ("np.copy", "copy.deepcopy", "copy.copy", "deepcopy") and args[:1] == ["pers_dgm"]:
            return f != "copy.copy" or True
        if f == "np.array" and args[:1] == ["pers_dgm"] and kws.get("copy", "True") == "True":
            return set(kws) <= {"copy", "dtype"}
        if f == "pers_dgm.copy" and not args:
            return True
        if f == "pers_dgm.astype" and kws.get("copy", "True") == "True":
            return True
        return False
    skew_if = ast.parse("if skew:\n    pers_dgm[:, 1] = pers_dgm[:, 1] - pers_dgm[:, 0]").body[0]
    mins = {ast.dump(ast.parse(w).body[0]) for w in ("min_b, min_p = pers_dgm.min(axis=0)", "max_b, max_p = pers_dgm.max(axis=0)")}
    ok = (ast.unparse(loop[0].target) == "pers_dgm" and ast.unparse(loop[0].iter) == "pers_dgms" and len(rest) == 4
          and is_private_copy(rest[0]) and ast.dump(rest[1]) == ast.dump(skew_if)
          and {ast.dump(rest[2]), ast.dump(rest[3])} == mins)
    if not ok:
        raise Unsupported("line %d: fit: the loop over the diagrams is no longer [private copy; skew the copy in place; column min / max; "
                          "four running-extreme updates]: %s" % (loop[0].lineno, " / ".join(ast.unparse(a).split("\n")[0] for a in rest)[:300]))
    names = ("min_birth", "max_birth", "min_pers", "max_pers")
    env = {"min_birth": V("num", "mnb"), "max_birth": V("num", "mxb"), "min_pers": V("num", "mnp"), "max_pers": V("num", "mxp"),
           "min_b": V("num", "a"), "max_b": V("num", "b"), "min_p": V("num", "c"), "max_p": V("num", "d")}
    # the skew branch (`if skew:`) writes the diagram copy, not the running extremes: it is covered by the tie
    upd = [st for st in ifs if not ast.unparse(st.test).strip() == "skew"]
    X.run(upd, env, {})
    defs.append("Definition src_fit_update (N : Num) (mnb mxb mnp mxp a b c d : T N) : T N * T N * T N * T N := (%s, %s, %s, %s)."
                % tuple(env[n].term for n in names))
    obls.append(("regen_fit_update",
                 "forall N mnb mxb mnp mxp a b c d, src_fit_update N mnb mxb mnp mxp a b c d = "
                 "(nmin N mnb a, nmax N mxb b, nmin N mnp c, nmax N mxp d)", "PersistenceImager.fit (loop body)", loop[0].lineno))
    tail = [st for st in g.body[g.body.index(loop[0]) + 1:]]
    env = {"min_birth": V("num", "mnb"), "max_birth": V("num", "mxb"), "min_pers": V("num", "mnp"), "max_pers": V("num", "mxp")}
    attrs = X.initial_attrs()
    X.run(tail, env, attrs)
    defs.append("Definition src_fit_tail (N : Num) (s : state N) (mnb mxb mnp mxp : T N) : state N := %s." % X.state_term(attrs))
    obls.append(("regen_fit_tail", "forall N s mnb mxb mnp mxp, src_fit_tail N s mnb mxb mnp mxp = "
                 "set_pers N (set_birth N s mnb mxb) mnp mxp", "PersistenceImager.fit (range assignments)", g.lineno))
    # initial values of the running extremes: +-inf, so that the first diagram always replaces them
    init = {}
    for st in g.body:
        if isinstance(st, ast.Assign) and isinstance(st.targets[0], ast.Name) and st.targets[0].id in names:
            init[st.targets[0].id] = ast.unparse(st.value).replace("numpy", "np")
    want = {"min_birth": "np.inf", "max_birth": "-np.inf", "min_pers": "np.inf", "max_pers": "-np.inf"}
    if init != want:
        raise Unsupported("fit: running extremes are not initialised to +-inf: %r" % (init,))

    text = IMAGER_HEADER + "\n".join(defs) + "\n\n"
    for name, stmt, unit, line in obls:
        text += "Lemma %s : %s.\nProof. intros. reflexivity. Qed.\n" % (name, stmt)
    return text, [(n, u, l) for n, _, u, l in obls]


# ===================================================================================== driver
def check_regen(pid, tag, producer, repo):
    """Runs a front end on the current tree, compiles the generated file, and returns the dict that
    core.run_check expects from a module's `extra_obligations` (one obligation per regenerated unit).
    When the whole file does not compile each lemma is compiled on its own to name the units that broke."""
    from . import core
    try:
        text, obls = producer(repo)
    except Unsupported as e:
        return {"obligations": 1, "discharged": 0, "units": [], "failed_units": ["translator"],
                "problems": ["regenerated model (%s): the source left the translator's subset: %s" % (tag, e)]}
    except Exception as e:  # translator crash: fail closed
        return {"obligations": 1, "discharged": 0, "units": [], "failed_units": ["translator"],
                "problems": ["regenerated model (%s): translator failed: %r" % (tag, e)]}
    res = core.run_coq_jobs(pid + "_regen_" + tag, [(tag, text)], timeout=3600)
    units = ["%s (line %d)" % (u, l) for _, u, l in obls]
    if res[tag].ok:
        return {"obligations": len(obls), "discharged": len(obls), "units": units, "failed_units": [], "problems": [],
                "coq_wall_s": round(res[tag].wall, 1)}
    # split: definitions + one lemma per file
    head = text[:text.index("Lemma ")] if "Lemma " in text else text
    lemmas = ["Lemma " + part for part in text.split("Lemma ")[1:]]
    jobs = [("%s_%d" % (tag, i), head + lem) for i, lem in enumerate(lemmas)]
    r2 = core.run_coq_jobs(pid + "_regen_" + tag + "_split", jobs, timeout=3600)
    failed, problems = [], []
    for i, (name, unit, line) in enumerate(obls):
        r = r2.get("%s_%d" % (tag, i))
        if r is None or not r.ok:
            failed.append("%s (line %d)" % (unit, line))
            msg = " ".join(((r.err or r.out) if r else "not compiled").split())[-300:]
            problems.append("regenerated model: %s of the current source (line %d) is no longer convertible / provably equal to "
                            "the hand-written model (obligation %s): %s" % (unit, line, name, msg))
    if not failed:      # definitions broke
        failed.append("definitions")
        problems.append("regenerated model (%s) does not compile: %s" % (tag, " ".join((res[tag].err or res[tag].out).split())[-400:]))
    return {"obligations": len(obls), "discharged": len(obls) - len(failed), "units": units, "failed_units": failed,
            "problems": problems}


# ===================================================================================== scalar (R-valued) front end
class RV:
    """A value of the per-evaluation-point reading of vectorised NumPy code.
    shape: 'S' scalar of the evaluation point; 'Q' one entry per quadrature node (a term in the free variable `wx`);
           'B' / 'BQ' booleans (a {a < b} + {~ a < b} decision term) of those shapes; 'D1' the all-ones vector over
           evaluation points; 'D2' the all-ones vector over quadrature nodes; 'N' a Python int that is not a value."""
    __slots__ = ("shape", "term")

    def __init__(self, shape, term):
        self.shape, self.term = shape, term


def _lit(node, src):
    """Real literal, with the digits of the source text (so that it is syntactically the model's literal)."""
    v = node.value
    if isinstance(v, bool):
        _fail(node, "boolean literal")
    if isinstance(v, int):
        return "%d" % v if v >= 0 else "(%d)" % v
    seg = ast.get_source_segment(src, node) or repr(v)
    seg = seg.strip().lower().replace("_", "")
    if "e" in seg or "inf" in seg or "nan" in seg:
        _fail(node, "float literal %s" % seg)
    if seg.startswith("."):
        seg = "0" + seg
    if "." in seg:
        a, b = seg.split(".")
        if b.strip("0") == "":
            return a or "0"
        return "%s.%s" % (a or "0", b)
    return seg


class ScalarExec:
    FUN1 = {"np.sqrt": "sqrt", "np.exp": "exp", "np.sin": "sin", "np.arcsin": "asin", "np.abs": "Rabs", "abs": "Rabs",
            "np.cos": "cos", "np.log": "ln"}
    FUN2 = {"np.maximum": "Rmax", "np.minimum": "Rmin", "max": "Rmax", "min": "Rmin"}

    def __init__(self, src, module_funcs, phi="Phi", qname="q", binder="fun wx : R * R", sumname="sum_list"):
        self.src, self.funcs, self.phi, self.qname = src, module_funcs, phi, qname
        self.binder, self.sumname = binder, sumname
        self.quad_r = None          # the argument of gauss_legendre_quad, once called
        self.first = {}             # name -> term of its FIRST scalar binding (used to abstract shared subterms in proofs)

    def ev(self, e, env):
        if isinstance(e, ast.Name):
            if e.id in env:
                return env[e.id]
            _fail(e, "unknown name %s" % e.id)
        if isinstance(e, ast.Constant):
            return RV("S", _lit(e, self.src))
        if isinstance(e, ast.Attribute) and ast.unparse(e) in ("np.pi", "numpy.pi", "math.pi"):
            return RV("S", "PI")
        if isinstance(e, ast.UnaryOp) and isinstance(e.op, ast.USub):
            a = self.ev(e.operand, env)
            if isinstance(e.operand, ast.Constant) and a.shape == "S":
                return RV("S", "(-%s)" % a.term if not a.term.startswith("(") else "(- %s)" % a.term)
            if isinstance(a, tuple):
                return tuple(RV("S", "(- %s)" % x.term) for x in a)
            return RV(self.val_shape(e, a), "(- %s)" % a.term)
        if isinstance(e, ast.BinOp):
            a, b = self.ev(e.left, env), self.ev(e.right, env)
            if isinstance(e.op, ast.Pow):
                if isinstance(e.right, ast.Constant) and e.right.value == 2:
                    if isinstance(a, tuple):
                        return tuple(RV("S", "(%s * %s)" % (x.term, x.term)) for x in a)
                    return RV(self.val_shape(e, a), "(%s * %s)" % (a.term, a.term))
                _fail(e, "power other than ** 2")
            sym = {ast.Add: "+", ast.Sub: "-", ast.Mult: "*", ast.Div: "/"}.get(type(e.op))
            if sym is None:
                _fail(e, "operator outside the subset")
            if isinstance(a, tuple) and isinstance(b, tuple) and len(a) == len(b) == 2 and sym in "+-":
                return tuple(self.arith(e, sym, x, y) for x, y in zip(a, b))
            return self.arith(e, sym, a, b)
        if isinstance(e, ast.Compare) and len(e.ops) == 1:
            a, b = self.ev(e.left, env), self.ev(e.comparators[0], env)
            sh = "BQ" if "Q" in (self.val_shape(e, a), self.val_shape(e, b)) else "B"
            op = e.ops[0]
            if isinstance(op, ast.Lt):
                return RV(sh, "(Rlt_dec %s %s)" % (a.term, b.term))
            if isinstance(op, ast.Gt):
                return RV(sh, "(Rlt_dec %s %s)" % (b.term, a.term))
            if isinstance(op, ast.LtE):
                return RV(sh, "(Rle_dec %s %s)" % (a.term, b.term))
            if isinstance(op, ast.GtE):
                return RV(sh, "(Rle_dec %s %s)" % (b.term, a.term))
            if isinstance(op, ast.Eq):
                return RV(sh, "(Req_EM_T %s %s)" % (a.term, b.term))
            _fail(e, "comparison outside the subset")
        if isinstance(e, ast.Subscript):
            base = self.ev(e.value, env)
            if isinstance(base, tuple):
                if isinstance(e.slice, ast.Constant) and isinstance(e.slice.value, int) and 0 <= e.slice.value < len(base):
                    return base[e.slice.value]
                _fail(e, "index into a tuple that is not a constant")
            idx = self.ev(e.slice, env) if not isinstance(e.slice, ast.Constant) else None
            if idx is not None and idx.shape in ("B", "I") and base.shape == "S":
                return base                     # a[mask] / a[i]: the entry of this evaluation point
            _fail(e, "subscript outside the subset")
        if isinstance(e, ast.Tuple):
            return tuple(self.ev(x, env) for x in e.elts)
        if isinstance(e, ast.Call):
            return self.call(e, env)
        _fail(e, "expression outside the subset: %s" % type(e).__name__)

    def whole_var(self):
        return self.binder.split()[1]

    def val_shape(self, e, a):
        if isinstance(a, tuple) or a.shape not in ("S", "Q"):
            _fail(e, "a real value was expected here, got shape %s" % (getattr(a, "shape", "tuple"),))
        return a.shape

    def arith(self, e, sym, a, b):
        # real * mask  (np.multiply(asr1, ind1)): the mask counts as 1 / 0
        if sym == "*" and not isinstance(a, tuple) and not isinstance(b, tuple) and {a.shape, b.shape} & {"B", "BQ"}:
            m, v = (a, b) if a.shape in ("B", "BQ") else (b, a)
            sh = "Q" if "Q" in (m.shape, v.shape) or m.shape == "BQ" else "S"
            return RV(sh, "(%s * (if %s then 1 else 0))" % (v.term, m.term))
        sa, sb = self.val_shape(e, a), self.val_shape(e, b)
        return RV("Q" if "Q" in (sa, sb) else "S", "(%s %s %s)" % (a.term, sym, b.term))

    def call(self, e, env):
        f = ast.unparse(e.func).replace("numpy.", "np.")
        args = e.args
        if f in self.FUN1 and len(args) == 1 and not e.keywords:
            a = self.ev(args[0], env)
            return RV(self.val_shape(e, a), "(%s %s)" % (self.FUN1[f], a.term))
        if f in self.FUN2 and len(args) == 2 and not e.keywords:
            a, b = self.ev(args[0], env), self.ev(args[1], env)
            sh = "Q" if "Q" in (self.val_shape(e, a), self.val_shape(e, b)) else "S"
            return RV(sh, "(%s %s %s)" % (self.FUN2[f], a.term, b.term))
        if f in ("np.multiply", "np.divide", "np.add", "np.subtract") and len(args) == 2 and not e.keywords:
            sym = {"np.multiply": "*", "np.divide": "/", "np.add": "+", "np.subtract": "-"}[f]
            return self.arith(e, sym, self.ev(args[0], env), self.ev(args[1], env))
        if f == "norm_cdf" and len(args) == 1 and not e.keywords:
            a = self.ev(args[0], env)
            return RV(self.val_shape(e, a), "(%s %s)" % (self.phi, a.term))
        if f == "np.outer" and len(args) == 2 and not e.keywords:
            a, b = self.ev(args[0], env), self.ev(args[1], env)
            if a.shape == "D1" and b.shape == "Q":
                return b                        # one row per evaluation point: the node vector itself
            if a.shape == "S" and b.shape == "D2":
                return a                        # the point's scalar, repeated over the nodes
            _fail(e, "np.outer of shapes %s x %s" % (a.shape, b.shape))
        if f == "np.ones" and not e.keywords or f == "np.ones" and [k.arg for k in e.keywords] == ["dtype"]:
            t = ast.unparse(args[0]).replace(" ", "")
            if t.startswith("(len("):
                return RV("D1", "?")
            if t in ("(lg,)", "lg"):
                return RV("D2", "?")
            _fail(e, "np.ones of shape %s" % t)
        if f == "np.zeros" and ast.unparse(args[0]).replace(" ", "").startswith("(len("):
            return RV("S", "0")
        if f == "np.sum" and len(args) == 1 and [k.arg for k in e.keywords] == ["axis"] \
                and isinstance(e.keywords[0].value, ast.Constant) and e.keywords[0].value.value == 1:
            a = self.ev(args[0], env)
            if a.shape != "Q":
                _fail(e, "np.sum(axis=1) of something that does not range over the quadrature nodes")
            return RV("S", "(%s (map (%s => %s) %s))" % (self.sumname, self.binder, a.term, self.qname))
        if f == "np.sum" and len(args) == 1 and not e.keywords:
            a = self.ev(args[0], env)
            if isinstance(a, tuple) and len(a) == 2 and all(x.shape == "S" for x in a):
                return RV("S", "(%s + %s)" % (a[0].term, a[1].term))          # sum of a 2-vector
            if not isinstance(a, tuple) and a.shape == "Q":
                if a.term == self.whole_var():
                    return RV("S", "(%s %s)" % (self.sumname, self.qname))      # np.sum(l)
                return RV("S", "(%s (map (%s => %s) %s))" % (self.sumname, self.binder, a.term, self.qname))
            _fail(e, "np.sum outside the subset")
        if f == "np.where" and len(args) == 3 and not e.keywords:
            c, a, b = (self.ev(x, env) for x in args)
            if c.shape not in ("B", "BQ"):
                _fail(e, "np.where on a non-mask")
            sh = "Q" if c.shape == "BQ" or "Q" in (a.shape, b.shape) else "S"
            return RV(sh, "(if %s then %s else %s)" % (c.term, a.term, b.term))
        if f == "gauss_legendre_quad" and len(args) == 1 and not e.keywords:
            r = self.ev(args[0], env)
            self.quad_r = r.term
            return (RV("N", "lg"), RV("Q", "(fst wx)"), RV("Q", "(snd wx)"))
        if f == "len":
            return RV("N", "len")
        _fail(e, "call of %s is outside the subset" % f)

    # ---- statements.  Returns ('ret', RV) when every path returned, else None (env updated in place)
    def run(self, body, env):
        for k, st in enumerate(body):
            if isinstance(st, ast.Expr) and isinstance(st.value, ast.Constant):
                continue
            if isinstance(st, ast.Return):
                return ("ret", self.ev(st.value, env))
            if isinstance(st, ast.Assign) and len(st.targets) == 1:
                self.assign(st.targets[0], st.value, env, st)
                continue
            if isinstance(st, ast.If):
                r = self.run_if(st, env)
                if r is not None:
                    return r
                continue
            if isinstance(st, ast.For) and isinstance(st.iter, (ast.List, ast.Tuple)) and isinstance(st.target, ast.Name) \
                    and not st.orelse:
                for item in st.iter.elts:          # a loop over a literal list is unrolled
                    env[st.target.id] = self.ev(item, env)
                    if self.run(st.body, env) is not None:
                        _fail(st, "return inside a loop")
                continue
            _fail(st, "statement outside the subset: %s" % ast.unparse(st).split("\n")[0][:80])
        return None

    def run_if(self, st, env):
        c = self.ev(st.test, env)
        if isinstance(c, tuple) or c.shape != "B":
            _fail(st, "if-test is not a scalar comparison")
        e1, e2 = dict(env), dict(env)
        r1 = self.run(st.body, e1)
        r2 = self.run(st.orelse, e2) if st.orelse else None
        if r1 is not None and r2 is not None:
            a, b = r1[1], r2[1]
            if isinstance(a, tuple) or isinstance(b, tuple):
                _fail(st, "branches return tuples")
            return ("ret", RV("S", "(if %s then %s else %s)" % (c.term, a.term, b.term)))
        if r1 is not None or r2 is not None:
            # `if c: return a` followed by more code: the rest is the else branch -- handled by the caller only when
            # the If is the last statement; otherwise outside the subset
            _fail(st, "only one branch returns")
        for k in set(e1) | set(e2):
            v1, v2 = e1.get(k), e2.get(k)
            if v1 is v2:
                env[k] = v1
                continue
            if v1 is None or v2 is None or isinstance(v1, tuple) or isinstance(v2, tuple) or \
                    v1.shape != v2.shape or v1.shape not in ("S", "Q"):
                # a name bound on one branch only and never merged: keep it out of scope
                env.pop(k, None)
                continue
            env[k] = RV(v1.shape, "(if %s then %s else %s)" % (c.term, v1.term, v2.term))
        return None

    def assign(self, target, value, env, st):
        if isinstance(target, ast.Name):
            env[target.id] = self.ev(value, env)
            v = env[target.id]
            if not isinstance(v, tuple) and v.shape == "S" and target.id not in self.first:
                self.first[target.id] = v.term
            return
        if isinstance(target, ast.Tuple):
            v = self.ev(value, env)
            if not (isinstance(v, tuple) and len(v) == len(target.elts) and all(isinstance(t, ast.Name) for t in target.elts)):
                _fail(st, "tuple assignment outside the subset")
            for t, x in zip(target.elts, v):
                env[t.id] = x
            return
        if isinstance(target, ast.Subscript) and isinstance(target.value, ast.Name):
            # a[mask] = v : masked update of this evaluation point's entry;  a[i] = v: elementwise store
            base = env.get(target.value.id)
            idx = self.ev(target.slice, env)
            v = self.ev(value, env)
            if base is not None and not isinstance(base, tuple) and base.shape == "S" and not isinstance(v, tuple) and v.shape == "S":
                if idx.shape == "B":
                    env[target.value.id] = RV("S", "(if %s then %s else %s)" % (idx.term, v.term, base.term))
                    return
                if idx.shape == "I":
                    env[target.value.id] = v
                    return
        _fail(st, "assignment target outside the subset")


SCALAR_HEADER = """(* GENERATED by harness/src2coq.py from persim/images_kernels.py and persim/images_weights.py of the current tree *)
From Coq Require Import Reals List Lra.
From Persim Require Import Model.KernelM Model.ImageM Corr.RegenTac.
Import ListNotations.
Open Scope R_scope.
"""


def _module(repo, rel):
    path = os.path.join(repo, rel)
    with open(path) as f:
        src = f.read()
    tree = ast.parse(src, filename=path)
    funcs = {n.name: n for n in tree.body if isinstance(n, ast.FunctionDef)}
    return src, tree, funcs


def _params(g):
    return [a.arg for a in g.args.args]


def kernel_regen(repo):
    """persim/images_kernels.py: uniform, sbvn_cdf, gauss_legendre_quad, bvn_cdf (+ the text of norm_cdf and of gaussian's dispatch)."""
    defs, obls = [], []
    src, tree, F = _module(repo, "persim/images_kernels.py")

    def S(t):
        return RV("S", t)

    # ---- norm_cdf is erfc(-x / sqrt 2) / 2: SciPy's erfc is external, so only the text is pinned
    g = F["norm_cdf"]
    body = [st for st in g.body if not (isinstance(st, ast.Expr) and isinstance(st.value, ast.Constant))]
    if len(body) != 1 or not isinstance(body[0], ast.Return) or \
            ast.dump(body[0].value) != ast.dump(ast.parse("erfc(-x / np.sqrt(2.0)) / 2.0", mode="eval").body):
        raise Unsupported("line %d: norm_cdf is no longer erfc(-x / np.sqrt(2.0)) / 2.0" % g.lineno)

    # ---- uniform
    g = F["uniform"]
    X = ScalarExec(src, F)
    env = {"x": S("x"), "y": S("y"), "mu": (S("(fst mu)"), S("(snd mu)")), "width": S("width"), "height": S("height")}
    if _params(g) != ["x", "y", "mu", "width", "height"]:
        raise Unsupported("line %d: signature of uniform changed: %s" % (g.lineno, _params(g)))
    r = X.run(g.body, env)
    if r is None:
        raise Unsupported("uniform does not return")
    defs.append("Definition src_uniform (mu : R * R) (width height x y : R) : R := %s." % r[1].term)
    obls.append(("regen_uniform", "forall mu width height x y, src_uniform mu width height x y = uniform_cdf mu width height x y",
                 "images_kernels.uniform", g.lineno))

    # ---- sbvn_cdf
    g = F["sbvn_cdf"]
    if _params(g) != ["x", "y", "mu_x", "mu_y", "sigma_x", "sigma_y"]:
        raise Unsupported("line %d: signature of sbvn_cdf changed" % g.lineno)
    X = ScalarExec(src, F)
    env = {k: S(k) for k in _params(g)}
    r = X.run(g.body, env)
    defs.append("Definition src_sbvn_cdf (Phi : R -> R) (x y mu_x mu_y sigma_x sigma_y : R) : R := %s." % r[1].term)
    obls.append(("regen_sbvn_cdf", "forall Phi x y mu_x mu_y sigma_x sigma_y, src_sbvn_cdf Phi x y mu_x mu_y sigma_x sigma_y = "
                 "sbvn_cdf Phi x y mu_x mu_y sigma_x sigma_y", "images_kernels.sbvn_cdf", g.lineno))

    # ---- gauss_legendre_quad: thresholds and tables
    g = F["gauss_legendre_quad"]
    X = ScalarExec(src, F)

    def table(env2, node):
        lg, w, x = env2.get("lg"), env2.get("w"), env2.get("x")
        if not (isinstance(lg, list) and isinstance(w, list) and isinstance(x, list) and len(lg) == 1
                and int(lg[0]) == len(w) == len(x)):
            _fail(node, "quadrature rule: lg / w / x do not have matching lengths")
        return "[" + "; ".join("(%s, %s)" % (a, b) for a, b in zip(w, x)) + "]"

    def glq(stmts):
        # if |r| < t: <assign lg, w, x> elif ... else ... ; return lg, w, x
        st = [s for s in stmts if not (isinstance(s, ast.Expr) and isinstance(s.value, ast.Constant))]
        if len(st) >= 1 and isinstance(st[0], ast.If):
            c = X.ev(st[0].test, {"r": S("r")})
            a = glq(st[0].body)
            b = glq(st[0].orelse)
            return "(if %s then %s else %s)" % (c.term, a, b)
        env2 = {}
        for s in st:
            if not (isinstance(s, ast.Assign) and isinstance(s.targets[0], ast.Name)):
                _fail(s, "gauss_legendre_quad: statement outside the subset")
            v = s.value
            if isinstance(v, ast.Constant):
                env2[s.targets[0].id] = [v.value]
            elif isinstance(v, ast.Call) and ast.unparse(v.func) in ("np.array", "numpy.array") and isinstance(v.args[0], ast.List):
                env2[s.targets[0].id] = [_lit(c, src) for c in v.args[0].elts]
            else:
                _fail(s, "gauss_legendre_quad: value outside the subset")
        return table(env2, st[0] if st else g)
    body = [s for s in g.body if not isinstance(s, ast.Return)]
    rets = [s for s in g.body if isinstance(s, ast.Return)]
    if len(rets) != 1 or ast.unparse(rets[0].value).replace(" ", "") not in ("(lg,w,x)", "lg,w,x"):
        raise Unsupported("line %d: gauss_legendre_quad no longer returns (lg, w, x)" % g.lineno)
    defs.append("Definition src_gauss_legendre_quad (r : R) : list (R * R) := %s." % glq(body))
    obls.append(("regen_gauss_legendre_quad", "forall r, src_gauss_legendre_quad r = gauss_legendre_quad r",
                 "images_kernels.gauss_legendre_quad", g.lineno))

    # ---- gaussian: the dispatch
    g = F["gaussian"]
    if _params(g) != ["birth", "pers", "mu", "sigma"]:
        raise Unsupported("line %d: signature of gaussian changed" % g.lineno)
    disp = [st for st in g.body if isinstance(st, ast.If) and "is None" not in ast.unparse(st.test)]
    if len(disp) != 1:
        raise Unsupported("line %d: gaussian: expected one dispatching if" % g.lineno)
    want = ast.parse(
        "if sigma[0][1] == 0.0:\n"
        "    return sbvn_cdf(birth, pers, mu_x=mu[0], mu_y=mu[1], sigma_x=sigma[0][0], sigma_y=sigma[1][1])\n"
        "else:\n"
        "    return bvn_cdf(birth, pers, mu_x=mu[0], mu_y=mu[1], sigma_xx=sigma[0][0], sigma_yy=sigma[1][1], sigma_xy=sigma[0][1])\n").body[0]
    if ast.dump(disp[0]) != ast.dump(want):
        raise Unsupported("line %d: the dispatch of gaussian() is no longer the modelled one (Model/KernelM.v gaussian_cdf_gen)" % disp[0].lineno)

    # ---- bvn_cdf
    g = F["bvn_cdf"]
    if _params(g) != ["x", "y", "mu_x", "mu_y", "sigma_xx", "sigma_yy", "sigma_xy"]:
        raise Unsupported("line %d: signature of bvn_cdf changed" % g.lineno)
    X = ScalarExec(src, F, qname="(gauss_legendre_quad r)")
    env = {k: S(k) for k in _params(g)}
    r = X.run(g.body, env)
    if r is None or X.quad_r is None:
        raise Unsupported("bvn_cdf does not return / does not call gauss_legendre_quad")
    term = r[1].term.replace("(gauss_legendre_quad r)", "(gauss_legendre_quad %s)" % X.quad_r)
    defs.append("Definition src_bvn_cdf (Phi : R -> R) (x y mu_x mu_y sigma_xx sigma_yy sigma_xy : R) : R := %s." % term)
    # the standardised coordinates and the correlation occur hundreds of times: they are abstracted (`set`) before the
    # generic tactic runs, which only makes the goal smaller (the obligation is unchanged)
    sets = " ".join("set (v_%s := %s)." % (n, X.first[n]) for n in ("dh", "dk", "r") if n in X.first)
    obls.append(("regen_bvn_cdf", "forall Phi x y mu_x mu_y sigma_xx sigma_yy sigma_xy, "
                 "src_bvn_cdf Phi x y mu_x mu_y sigma_xx sigma_yy sigma_xy = bvn_cdf Phi x y mu_x mu_y sigma_xx sigma_yy sigma_xy",
                 "images_kernels.bvn_cdf", g.lineno, "intros. autounfold with regen. cbv beta zeta. %s regen_node 40%%nat." % sets))

    return _scalar_text(defs, obls, "src_uniform src_sbvn_cdf src_bvn_cdf")


def weight_regen(repo):
    """persim/images_weights.py: linear_ramp (loop body), persistence (text)."""
    defs, obls = [], []

    def S(t):
        return RV("S", t)
    srcw, treew, W = _module(repo, "persim/images_weights.py")
    g = W["linear_ramp"]
    if _params(g) != ["birth", "pers", "low", "high", "start", "end"]:
        raise Unsupported("line %d: signature of linear_ramp changed" % g.lineno)
    loops = [st for st in g.body if isinstance(st, ast.For)]
    if len(loops) != 1 or ast.unparse(loops[0].iter) != "range(n)" or not isinstance(loops[0].target, ast.Name):
        raise Unsupported("line %d: linear_ramp: expected one loop `for i in range(n)`" % g.lineno)
    X = ScalarExec(srcw, W)
    i = loops[0].target.id
    env = {"pers": S("p"), "birth": S("b"), "low": S("low"), "high": S("high"), "start": S("start"), "end": S("stop"),
           i: RV("I", "i"), "w": S("0")}
    if X.run(loops[0].body, env) is not None:
        raise Unsupported("linear_ramp: return inside the loop")
    rets = [st for st in g.body if isinstance(st, ast.Return)]
    if len(rets) != 1 or ast.unparse(rets[0].value) != "w":
        raise Unsupported("linear_ramp no longer returns w")
    defs.append("Definition src_linear_ramp (low high start stop b p : R) : R := %s." % env["w"].term)
    obls.append(("regen_linear_ramp", "forall low high start stop b p, src_linear_ramp low high start stop b p = "
                 "linear_ramp low high start stop b p", "images_weights.linear_ramp", g.lineno))
    g = W["persistence"]
    body = [st for st in g.body if not (isinstance(st, ast.Expr) and isinstance(st.value, ast.Constant))]
    if _params(g) != ["birth", "pers", "n"] or len(body) != 1 or not isinstance(body[0], ast.Return) or \
            ast.dump(body[0].value) != ast.dump(ast.parse("pers ** n", mode="eval").body):
        raise Unsupported("line %d: persistence is no longer `pers ** n`" % g.lineno)

    return _scalar_text(defs, obls, "src_linear_ramp")


def _scalar_text(defs, obls, unfold):
    text = SCALAR_HEADER + "\n".join(defs) + "\n\n"
    text += "#[local] Hint Unfold %s : regen.\n" % unfold
    for ob in obls:
        name, stmt = ob[0], ob[1]
        script = ob[4] if len(ob) > 4 else "regen_solve."
        text += "Lemma %s : %s.\nProof. %s Qed.\n" % (name, stmt, script)
    return text, [(ob[0], ob[2], ob[3]) for ob in obls]


def scalar_regen(repo):
    t1, o1 = kernel_regen(repo)
    t2, o2 = weight_regen(repo)
    return t1 + t2[len(SCALAR_HEADER):], o1 + o2


# ===================================================================================== heat.py (C14)
HEAT_HEADER = """(* GENERATED by harness/src2coq.py from persim/heat.py of the current tree *)
From Coq Require Import Reals List Lra.
From Persim Require Import Model.HeatM Model.KernelM Model.ImageM Corr.RegenTac.
Import ListNotations.
Open Scope R_scope.
"""


def _same(node, text, what):
    if ast.dump(node) != ast.dump(ast.parse(text).body[0] if "\n" in text or "=" in text or text.startswith(("for", "return"))
                                   else ast.parse(text, mode="eval").body):
        _fail(node, "%s is no longer `%s`: %s" % (what, text, ast.unparse(node).split("\n")[0][:80]))


def heat_regen(repo):
    """persim/heat.py: the summand of the double loop as a function of two points, the loop nest, the normalisation,
    and how heat() combines the three kernel values."""
    src, tree, F = _module(repo, "persim/heat.py")
    defs, obls = [], []

    def S(t):
        return RV("S", t)
    g = F["evalHeatKernel"]
    if _params(g) != ["dgm1", "dgm2", "sigma"]:
        raise Unsupported("line %d: signature of evalHeatKernel changed" % g.lineno)
    body = [st for st in g.body if not (isinstance(st, ast.Expr) and isinstance(st.value, ast.Constant))]
    # kSigma = 0; I1 = np.array(dgm1); I2 = np.array(dgm2); for i ...: p = ...; for j ...: <inner>; return ...
    if len(body) != 5:
        raise Unsupported("line %d: evalHeatKernel: expected initialisation, two conversions, one loop nest, one return" % g.lineno)
    _same(body[0], "kSigma = 0", "the accumulator initialisation")
    for st, nm, arg in ((body[1], "I1", "dgm1"), (body[2], "I2", "dgm2")):
        # a float64 array of the argument (np.array(x, dtype=float); the pinned tree had np.array(x): narrow integer input wrapped)
        ok = ast.dump(st) in (ast.dump(ast.parse("%s = np.array(%s, dtype=float)" % (nm, arg)).body[0]),
                              ast.dump(ast.parse("%s = np.array(%s, dtype=np.float64)" % (nm, arg)).body[0]),
                              ast.dump(ast.parse("%s = np.asarray(%s, dtype=float)" % (nm, arg)).body[0]),
                              ast.dump(ast.parse("%s = np.asarray(%s, dtype=np.float64)" % (nm, arg)).body[0]))
        if not ok:
            _fail(st, "the conversion of %s is no longer a float64 array of the argument: %s" % (arg, ast.unparse(st)[:80]))
    outer = body[3]
    if not (isinstance(outer, ast.For) and ast.unparse(outer.iter) == "range(I1.shape[0])" and ast.unparse(outer.target) == "i"
            and not outer.orelse and len(outer.body) == 2):
        raise Unsupported("line %d: evalHeatKernel: outer loop is no longer `for i in range(I1.shape[0])` over [p = ...; inner loop]" % outer.lineno)
    _same(outer.body[0], "p = I1[i, 0:2]", "the point of the outer loop")
    inner = outer.body[1]
    if not (isinstance(inner, ast.For) and ast.unparse(inner.iter) == "range(I2.shape[0])" and ast.unparse(inner.target) == "j"
            and not inner.orelse):
        raise Unsupported("line %d: evalHeatKernel: inner loop is no longer `for j in range(I2.shape[0])`" % inner.lineno)
    # the inner body: q, qc, kSigma += <term>
    X = ScalarExec(src, F)
    env = {"p": (S("(fst p)"), S("(snd p)")), "sigma": S("sigma")}
    term = None
    for st in inner.body:
        if isinstance(st, ast.Assign) and ast.unparse(st.targets[0]) == "q":
            _same(st, "q = I2[j, 0:2]", "the point of the inner loop")
            env["q"] = (S("(fst q)"), S("(snd q)"))
        elif isinstance(st, ast.Assign) and ast.unparse(st.targets[0]) == "qc":
            _same(st, "qc = I2[j, 1::-1]", "the mirrored point")
            env["qc"] = (S("(snd q)"), S("(fst q)"))
        elif isinstance(st, ast.AugAssign) and isinstance(st.op, ast.Add) and ast.unparse(st.target) == "kSigma" and term is None:
            term = X.ev(st.value, env)
        else:
            _fail(st, "evalHeatKernel: statement of the inner loop outside the subset")
    if term is None or isinstance(term, tuple):
        raise Unsupported("evalHeatKernel: no `kSigma += ...` in the inner loop")
    defs.append("Definition src_kterm (sigma : R) (p q : R * R) : R := %s." % term.term)
    obls.append(("regen_kterm", "forall sigma p q, src_kterm sigma p q = kterm sigma p q", "heat.evalHeatKernel (summand)", inner.lineno))
    ret = body[4]
    if not isinstance(ret, ast.Return):
        raise Unsupported("evalHeatKernel does not end with a return")
    r = X.ev(ret.value, {"kSigma": S("ks"), "sigma": S("sigma")})
    defs.append("Definition src_knorm (sigma ks : R) : R := %s." % r.term)
    obls.append(("regen_knorm", "forall sigma F G, src_knorm sigma (kloop sigma F G) = evalHeatKernel sigma F G",
                 "heat.evalHeatKernel (normalisation)", ret.lineno))
    g = F["heat"]
    if _params(g) != ["dgm1", "dgm2", "sigma"]:
        raise Unsupported("line %d: signature of heat changed" % g.lineno)
    body = [st for st in g.body if not (isinstance(st, ast.Expr) and isinstance(st.value, ast.Constant))]
    Xh = ScalarExec(src, F)
    kcalls = {"evalHeatKernel(dgm1, dgm1, sigma)": "k11", "evalHeatKernel(dgm2, dgm2, sigma)": "k22",
              "evalHeatKernel(dgm1, dgm2, sigma)": "k12", "evalHeatKernel(dgm2, dgm1, sigma)": "k21"}
    orig_call = Xh.call

    def call(e, env):
        t = ast.unparse(e)
        if t in kcalls:
            return S(kcalls[t])
        return orig_call(e, env)
    Xh.call = call
    r = Xh.run(body, {"sigma": S("sigma")})
    if r is None or isinstance(r[1], tuple):
        raise Unsupported("heat does not return a scalar")
    defs.append("Definition src_heat_combine (k11 k22 k12 k21 : R) : R := %s." % r[1].term)
    obls.append(("regen_heat", "forall sigma F G, src_heat_combine (evalHeatKernel sigma F F) (evalHeatKernel sigma G G) "
                 "(evalHeatKernel sigma F G) (evalHeatKernel sigma G F) = heat sigma F G", "heat.heat", g.lineno))
    text = HEAT_HEADER + "\n".join(defs) + "\n\n#[local] Hint Unfold src_kterm src_knorm src_heat_combine kterm sqdist mirror evalHeatKernel heat radicand : regen.\n"
    for name, stmt, unit, line in obls:
        text += "Lemma %s : %s.\nProof. regen_solve. Qed.\n" % (name, stmt)
    return text, [(n, u, l) for n, _, u, l in obls]


# ===================================================================================== persistent_entropy.py (C16)
ENTROPY_HEADER = """(* GENERATED by harness/src2coq.py from persim/persistent_entropy.py of the current tree *)
From Coq Require Import Reals List Lra.
From Persim Require Import Model.EntropyM Model.KernelM Model.ImageM Corr.RegenTac.
Import ListNotations.
Open Scope R_scope.
"""


def entropy_regen(repo):
    """persim/persistent_entropy.py: Step 2 (lengths, positivity test, Shannon entropy, normalisation) as functions of the
    list of bar lengths; Step 1 (infinite bars) is pinned as text."""
    src, tree, F = _module(repo, "persim/persistent_entropy.py")
    g = F["persistent_entropy"]
    if _params(g) != ["dgms", "keep_inf", "val_inf", "normalize"]:
        raise Unsupported("line %d: signature of persistent_entropy changed" % g.lineno)
    body = [st for st in g.body if not (isinstance(st, ast.Expr) and isinstance(st.value, ast.Constant))]
    want_head = [
        "if isinstance(dgms, list) == False:\n    dgms = [dgms]",
        "if keep_inf == False:\n    dgms = [(dgm[dgm[:, 1] != np.inf]) for dgm in dgms]",
        "if keep_inf == True:\n    if val_inf != None:\n        dgms = [np.where(dgm == np.inf, val_inf, dgm) for dgm in dgms]\n    else:\n"
        "        raise Exception('Remember: You need to provide a value to infinity bars if you want to keep them.')",
        "ps = []",
    ]
    if len(body) != 6:
        raise Unsupported("line %d: persistent_entropy: expected 6 top-level statements, found %d" % (g.lineno, len(body)))
    for st, w in zip(body[:4], want_head):
        if ast.dump(st) != ast.dump(ast.parse(w).body[0]):
            _fail(st, "Step 1 of persistent_entropy is no longer the modelled text: %s" % ast.unparse(st).split("\n")[0][:80])
    loop = body[4]
    if not (isinstance(loop, ast.For) and ast.unparse(loop.target) == "dgm" and ast.unparse(loop.iter) == "dgms" and len(loop.body) == 2):
        _fail(loop, "Step 2 is no longer a loop over the diagrams with [l = ...; if all(l > 0): ... else: raise]")
    _same(loop.body[0], "l = dgm[:, 1] - dgm[:, 0]", "the bar lengths")
    cond = loop.body[1]
    if not (isinstance(cond, ast.If) and ast.unparse(cond.test) == "all(l > 0)" and len(cond.orelse) == 1
            and isinstance(cond.orelse[0], ast.Raise)):
        _fail(cond, "the positivity test is no longer `if all(l > 0): ... else: raise`")
    _same(body[5], "return np.array(ps)", "the result")
    # the success branch: L, p, E, optional normalisation, ps.append(E)
    X = ScalarExec(src, F, qname="l", binder="fun x : R", sumname="sumR")
    env = {"l": RV("Q", "x")}
    stmts = list(cond.body)
    if not (isinstance(stmts[-1], ast.Expr) and ast.unparse(stmts[-1]) == "ps.append(E)"):
        _fail(stmts[-1], "the entropy is no longer appended with ps.append(E)")
    norm = None
    for st in stmts[:-1]:
        if isinstance(st, ast.If):
            if ast.unparse(st.test) not in ("normalize == True", "normalize"):
                _fail(st, "unexpected condition in Step 2")
            norm = st
            continue
        if norm is not None:
            _fail(st, "statement after the normalisation")
        if not (isinstance(st, ast.Assign) and isinstance(st.targets[0], ast.Name)):
            _fail(st, "Step 2: statement outside the subset")
        X.assign(st.targets[0], st.value, env, st)
    E = env.get("E")
    if E is None or isinstance(E, tuple) or E.shape != "S":
        raise Unsupported("Step 2 does not compute a scalar E")
    defs = ["Definition src_shannon (l : list R) : R := %s." % E.term]
    obls = [("regen_shannon", "forall l, src_shannon l = shannon l", "persistent_entropy (Shannon entropy of the lengths)", cond.lineno)]
    if norm is None or len(norm.body) != 1 or norm.orelse:
        raise Unsupported("Step 2: the normalisation branch is missing")
    orig_call = X.call

    def call(e, env2):
        if ast.unparse(e) == "len(l)":
            return RV("S", "(INR (length l))")
        return orig_call(e, env2)
    X.call = call
    env2 = {"E": RV("S", "e"), "l": RV("Q", "x")}
    X.assign(norm.body[0].targets[0], norm.body[0].value, env2, norm.body[0])
    defs.append("Definition src_normalised (l : list R) (e : R) : R := %s." % env2["E"].term)
    obls.append(("regen_normalised", "forall l, src_normalised l (shannon l) = entropy_val true l",
                 "persistent_entropy (normalisation)", norm.lineno))
    text = ENTROPY_HEADER + "\n".join(defs) + "\n\n#[local] Hint Unfold src_shannon src_normalised shannon entropy_val : regen.\n"
    for name, stmt, unit, line in obls:
        text += "Lemma %s : %s.\nProof. regen_solve. Qed.\n" % (name, stmt)
    return text, [(n, u, l) for n, _, u, l in obls]
