"""Fail-closed translator from a small Python subset to Gallina, used to REGENERATE parts of the Coq
model from persim's current source on every run (DESIGN.md section 12.8).

Two front ends:

  imager_regen(repo)   persim/images.py, class PersistenceImager: `_num_pixels`, the tail of `__init__`, the three
                       setters, `_create_mesh`, and the tail / running-extreme updates of `fit` are symbolically
                       executed over the abstract numeric record `Num` of Model/ImagerM.v; the resulting terms are
                       emitted as definitions `src_*`, each with the obligation `src_* = <hand-written model>`
                       proved by conversion (`reflexivity`), i.e. for EVERY numeric instance (exact rationals and
                       binary64) and every state.
  scalar_regen(repo)   persim/images_kernels.py (`uniform`, `sbvn_cdf`, `norm_cdf`'s use, `gauss_legendre_quad`,
                       the dispatch of `gaussian`) and persim/images_weights.py (`linear_ramp`, `persistence`) as
                       real-valued functions of one evaluation point, with obligations against Model/KernelM.v and
                       Model/ImageM.v.

Anything outside the subset raises Unsupported (the obligation then counts as not discharged): the
translator never guesses.  Trusted: this file (the meaning it gives to the Python subset and to the few NumPy
calls in its tables).
"""
from __future__ import annotations

import ast
import os
from fractions import Fraction


class Unsupported(Exception):
    pass


def _fail(node, why):
    raise Unsupported("line %s: %s" % (getattr(node, "lineno", "?"), why))


def _parse(repo, rel):
    path = os.path.join(repo, rel)
    with open(path) as f:
        src = f.read()
    return ast.parse(src, filename=path)


def _find_class(tree, name):
    for n in tree.body:
        if isinstance(n, ast.ClassDef) and n.name == name:
            return n
    raise Unsupported("class %s not found" % name)


def _find_func(body, name, decorator=None):
    """Function `name` in a list of statements; with `decorator` = 'setter' the @name.setter one, with
    decorator = 'property' the @property one, with None the undecorated one."""
    for n in body:
        if isinstance(n, ast.FunctionDef) and n.name == name:
            decs = [ast.unparse(d) for d in n.decorator_list]
            if decorator is None and not decs:
                return n
            if decorator == "setter" and ("%s.setter" % name) in decs:
                return n
            if decorator == "property" and "property" in decs:
                return n
    raise Unsupported("function %s (%s) not found" % (name, decorator))


# ===================================================================================== imager
# Values of the symbolic execution
class V:
    """ty: 'num' | 'int' | 'mesh' | 'bool' | 'opaque'; term: Gallina text (atomic or parenthesised)."""
    __slots__ = ("ty", "term")

    def __init__(self, ty, term):
        self.ty, self.term = ty, term

    def __repr__(self):
        return "V(%s,%s)" % (self.ty, self.term)


GEOM_ATTRS = ("_pixel_size", "_birth_range", "_pers_range", "_width", "_height", "_resolution", "_bpnts", "_ppnts")


class ImagerExec:
    """Symbolic execution of straight-line method bodies of PersistenceImager over `Num`."""

    def __init__(self, cls):
        self.cls = cls
        self.depth = 0

    # ---- state
    def initial_attrs(self, s="s"):
        return {
            "_pixel_size": V("num", "(psz %s)" % s),
            "_birth_range": (V("num", "(blo %s)" % s), V("num", "(bhi %s)" % s)),
            "_pers_range": (V("num", "(plo %s)" % s), V("num", "(phi %s)" % s)),
            "_width": V("num", "(width %s)" % s),
            "_height": V("num", "(height %s)" % s),
            "_resolution": (V("int", "(resw %s)" % s), V("int", "(resh %s)" % s)),
            "_bpnts": V("mesh", "(bpnts %s)" % s),
            "_ppnts": V("mesh", "(ppnts %s)" % s),
        }

    @staticmethod
    def state_term(attrs):
        def num(v):
            if not isinstance(v, V) or v.ty != "num":
                raise Unsupported("attribute is not a float-valued scalar: %r" % (v,))
            return v.term

        def pair(v, ty):
            if not (isinstance(v, tuple) and len(v) == 2 and all(isinstance(x, V) and x.ty == ty for x in v)):
                raise Unsupported("attribute is not a pair of %s: %r" % (ty, v))
            return v[0].term, v[1].term
        b0, b1 = pair(attrs["_birth_range"], "num")
        p0, p1 = pair(attrs["_pers_range"], "num")
        r0, r1 = pair(attrs["_resolution"], "int")
        for k in ("_bpnts", "_ppnts"):
            if not (isinstance(attrs[k], V) and attrs[k].ty == "mesh"):
                raise Unsupported("%s is not a mesh" % k)
        return "(mkS %s %s %s %s %s %s %s %s %s %s %s)" % (
            num(attrs["_pixel_size"]), b0, b1, p0, p1, num(attrs["_width"]), num(attrs["_height"]), r0, r1,
            attrs["_bpnts"].term, attrs["_ppnts"].term)

    # ---- expressions
    def ev(self, e, env, attrs):
        if isinstance(e, ast.Name):
            if e.id in env:
                return env[e.id]
            _fail(e, "unknown name %s" % e.id)
        if isinstance(e, ast.Constant):
            if isinstance(e.value, bool) or e.value is None:
                return V("opaque", "tt")
            if isinstance(e.value, int):
                return V("int", "(%d)%%Z" % e.value)
            _fail(e, "float literal in geometry code: %r" % (e.value,))
        if isinstance(e, ast.Tuple):
            return tuple(self.ev(x, env, attrs) for x in e.elts)
        if isinstance(e, ast.Attribute) and isinstance(e.value, ast.Name) and e.value.id == "self":
            if e.attr in attrs:
                return attrs[e.attr]
            # a property: evaluate its getter
            try:
                g = _find_func(self.cls.body, e.attr, "property")
            except Unsupported:
                _fail(e, "unknown attribute self.%s" % e.attr)
            return self.call_body(g, {}, attrs, e)
        if isinstance(e, ast.Subscript):
            base = self.ev(e.value, env, attrs)
            idx = e.slice
            if isinstance(base, tuple) and isinstance(idx, ast.Constant) and isinstance(idx.value, int) \
                    and 0 <= idx.value < len(base):
                return base[idx.value]
            _fail(e, "subscript that is not a constant index into a pair")
        if isinstance(e, ast.BinOp):
            a, b = self.ev(e.left, env, attrs), self.ev(e.right, env, attrs)
            if not (isinstance(a, V) and isinstance(b, V)):
                _fail(e, "arithmetic on a non-scalar")
            return self.binop(e, a, b)
        if isinstance(e, ast.UnaryOp) and isinstance(e.op, ast.USub):
            a = self.ev(e.operand, env, attrs)
            if isinstance(a, V) and a.ty == "int":
                return V("int", "(- %s)%%Z" % a.term)
            _fail(e, "unary minus on a float")
        if isinstance(e, ast.Compare) and len(e.ops) == 1:
            a, b = self.ev(e.left, env, attrs), self.ev(e.comparators[0], env, attrs)
            if isinstance(a, V) and isinstance(b, V) and a.ty == "num" and b.ty == "num":
                if isinstance(e.ops[0], ast.Lt):
                    return V("bool", "(ltb N %s %s)" % (a.term, b.term))
                if isinstance(e.ops[0], ast.Gt):
                    return V("bool", "(ltb N %s %s)" % (b.term, a.term))
                if isinstance(e.ops[0], ast.LtE):
                    return V("bool", "(leb N %s %s)" % (a.term, b.term))
                if isinstance(e.ops[0], ast.GtE):
                    return V("bool", "(leb N %s %s)" % (b.term, a.term))
            _fail(e, "comparison outside the subset")
        if isinstance(e, ast.Call):
            return self.call(e, env, attrs)
        _fail(e, "expression outside the subset: %s" % type(e).__name__)

    def binop(self, e, a, b):
        op = e.op
        if a.ty == "int" and b.ty == "int":
            sym = {ast.Add: "+", ast.Sub: "-", ast.Mult: "*"}.get(type(op))
            if sym is None:
                _fail(e, "integer operator outside the subset")
            return V("int", "(%s %s %s)%%Z" % (a.term, sym, b.term))
        name = {ast.Add: "add", ast.Sub: "sub", ast.Mult: "mul", ast.Div: "div"}.get(type(op))
        if name is None:
            _fail(e, "operator outside the subset")
        if a.ty == "num" and b.ty == "int" and name == "div" and b.term == "(2)%Z":
            return V("num", "(half N %s)" % a.term)
        def lift(v):
            if v.ty == "num":
                return v.term
            if v.ty == "int":
                return "(of_int N %s)" % v.term
            _fail(e, "arithmetic on %s" % v.ty)
        return V("num", "(%s N %s %s)" % (name, lift(a), lift(b)))

    def call(self, e, env, attrs):
        f = ast.unparse(e.func)
        if f == "int" and len(e.args) == 1 and not e.keywords:
            inner = e.args[0]
            if isinstance(inner, ast.Call) and ast.unparse(inner.func) in ("np.ceil", "numpy.ceil", "math.ceil") \
                    and len(inner.args) == 1 and not inner.keywords:
                a = self.ev(inner.args[0], env, attrs)
                if isinstance(a, V) and a.ty == "num":
                    return V("int", "(ceil_int N %s)" % a.term)
            a = self.ev(inner, env, attrs)
            if isinstance(a, V) and a.ty == "num":
                return V("int", "(trunc_int N %s)" % a.term)
            if isinstance(a, V) and a.ty == "int":
                return a
            _fail(e, "int() of a non-scalar")
        if f in ("np.linspace", "numpy.linspace"):
            kw = {k.arg: k.value for k in e.keywords}
            if len(e.args) != 3 or set(kw) - {"endpoint", "dtype"} or "endpoint" not in kw:
                _fail(e, "np.linspace call outside the modelled form (lo, hi, n, endpoint=False, dtype=np.float64)")
            if not (isinstance(kw["endpoint"], ast.Constant) and kw["endpoint"].value is False):
                _fail(e, "np.linspace with endpoint != False")
            if "dtype" in kw and ast.unparse(kw["dtype"]) not in ("np.float64", "float", "numpy.float64"):
                _fail(e, "np.linspace with dtype %s" % ast.unparse(kw["dtype"]))
            lo, hi, n = (self.ev(x, env, attrs) for x in e.args)
            if not (isinstance(lo, V) and lo.ty == "num" and isinstance(hi, V) and hi.ty == "num"
                    and isinstance(n, V) and n.ty == "int"):
                _fail(e, "np.linspace arguments of unexpected types")
            return V("mesh", "(linspace_open N %s %s %s)" % (lo.term, hi.term, n.term))
        if isinstance(e.func, ast.Attribute) and isinstance(e.func.value, ast.Name) and e.func.value.id == "self":
            g = _find_func(self.cls.body, e.func.attr)
            params = [a.arg for a in g.args.args][1:]
            if e.keywords or len(e.args) != len(params):
                _fail(e, "call of self.%s with keywords / wrong arity" % e.func.attr)
            local = {p: self.ev(a, env, attrs) for p, a in zip(params, e.args)}
            return self.call_body(g, local, attrs, e)
        _fail(e, "call of %s is outside the subset" % f)

    def call_body(self, g, local, attrs, at):
        self.depth += 1
        if self.depth > 8:
            _fail(at, "call depth")
        try:
            r = self.run(g.body, local, attrs)
        finally:
            self.depth -= 1
        return r if r is not None else V("opaque", "tt")

    # ---- statements; returns the value of a `return`, else None
    def run(self, body, env, attrs, skip=lambda st: False):
        for st in body:
            if skip(st):
                continue
            if isinstance(st, ast.Expr) and isinstance(st.value, ast.Constant):
                continue                                    # docstring
            if isinstance(st, ast.Return):
                return self.ev(st.value, env, attrs) if st.value is not None else V("opaque", "tt")
            if isinstance(st, ast.Assign) and len(st.targets) == 1:
                self.assign(st.targets[0], self.ev(st.value, env, attrs), env, attrs, st)
                continue
            if isinstance(st, ast.Expr) and isinstance(st.value, ast.Call):
                self.ev(st.value, env, attrs)
                continue
            if isinstance(st, ast.If) and not st.orelse:
                # `if c: x = e` : conditional update of locals only
                c = self.ev(st.test, env, attrs)
                if not (isinstance(c, V) and c.ty == "bool"):
                    _fail(st, "if-test outside the subset")
                env2 = dict(env)
                for s2 in st.body:
                    if not (isinstance(s2, ast.Assign) and len(s2.targets) == 1 and isinstance(s2.targets[0], ast.Name)):
                        _fail(s2, "conditional statement that is not a plain local assignment")
                    self.assign(s2.targets[0], self.ev(s2.value, env2, attrs), env2, attrs, s2)
                for k, v in env2.items():
                    old = env.get(k)
                    if old is v:
                        continue
                    if not (isinstance(old, V) and isinstance(v, V) and old.ty == v.ty == "num"):
                        _fail(st, "conditional update of %s is not float-valued on both branches" % k)
                    env[k] = V("num", "(if %s then %s else %s)" % (c.term, v.term, old.term))
                continue
            _fail(st, "statement outside the subset: %s" % ast.unparse(st).split("\n")[0][:80])
        return None

    def assign(self, target, val, env, attrs, st):
        if isinstance(target, ast.Name):
            env[target.id] = val
        elif isinstance(target, ast.Attribute) and isinstance(target.value, ast.Name) and target.value.id == "self":
            if target.attr in GEOM_ATTRS:
                attrs[target.attr] = val
            elif target.attr.lstrip("_") + "" in ("birth_range", "pers_range", "pixel_size") and not target.attr.startswith("_"):
                # assignment through a property setter: run the setter
                g = _find_func(self.cls.body, target.attr, "setter")
                p = [a.arg for a in g.args.args][1]
                self.call_body(g, {p: val}, attrs, st)
            else:
                attrs["?" + target.attr] = val            # non-geometric attribute (weight, kernel, params): not modelled
        elif isinstance(target, ast.Tuple) and isinstance(val, tuple) and len(val) == len(target.elts):
            for t, v in zip(target.elts, val):
                self.assign(t, v, env, attrs, st)
        else:
            _fail(st, "assignment target outside the subset")


IMAGER_HEADER = """(* GENERATED by harness/src2coq.py from persim/images.py of the current tree - do not edit *)
From Coq Require Import ZArith List.
From Persim Require Import Model.ImagerM.
Import ListNotations.
"""


def imager_regen(repo):
    """Returns (coq_text, obligations) where obligations is a list of (lemma_name, python_unit, line)."""
    tree = _parse(repo, "persim/images.py")
    cls = _find_class(tree, "PersistenceImager")
    X = ImagerExec(cls)
    defs, obls = [], []

    def opaque_call(st):
        # statements of __init__ that do not touch the geometry: defaults, validation, weight / kernel
        if isinstance(st, ast.If):
            t = ast.unparse(st.test)
            return t.endswith(" is None")
        if isinstance(st, ast.Expr) and isinstance(st.value, ast.Call):
            return ast.unparse(st.value.func) in ("self._validate_parameters",)
        if isinstance(st, ast.Assign):
            # assignments whose targets are all NON-geometric attributes of self (weight, kernel, params)
            tgs = st.targets[0].elts if isinstance(st.targets[0], ast.Tuple) else [st.targets[0]]
            return all(isinstance(t, ast.Attribute) and isinstance(t.value, ast.Name) and t.value.id == "self"
                       and t.attr not in GEOM_ATTRS and t.attr not in ("birth_range", "pers_range", "pixel_size")
                       for t in tgs)
        return False

    # _num_pixels(ps; lo, hi)
    g = _find_func(cls.body, "_num_pixels")
    attrs = X.initial_attrs()
    attrs["_pixel_size"] = V("num", "ps")
    pname = [a.arg for a in g.args.args][1]
    r = X.call_body(g, {pname: (V("num", "lo"), V("num", "hi"))}, attrs, g)
    if not (isinstance(r, V) and r.ty == "int"):
        raise Unsupported("_num_pixels does not return an integer")
    defs.append("Definition src_num_pixels (N : Num) (ps lo hi : T N) : Z := %s." % r.term)
    obls.append(("regen_num_pixels", "forall N ps lo hi, src_num_pixels N ps lo hi = num_pixels N ps lo hi",
                 "PersistenceImager._num_pixels", g.lineno))

    # _create_mesh
    g = _find_func(cls.body, "_create_mesh")
    attrs = X.initial_attrs()
    X.call_body(g, {}, attrs, g)
    defs.append("Definition src_create_mesh (N : Num) (s : state N) : state N := %s." % X.state_term(attrs))
    obls.append(("regen_create_mesh", "forall N s, src_create_mesh N s = create_mesh N s",
                 "PersistenceImager._create_mesh", g.lineno))

    # setters
    for attr, model, two in (("birth_range", "set_birth", True), ("pers_range", "set_pers", True),
                             ("pixel_size", "set_pixel", False)):
        g = _find_func(cls.body, attr, "setter")
        p = [a.arg for a in g.args.args][1]
        attrs = X.initial_attrs()
        val = (V("num", "lo"), V("num", "hi")) if two else V("num", "p")
        X.call_body(g, {p: val}, attrs, g)
        if two:
            defs.append("Definition src_%s (N : Num) (s : state N) (lo hi : T N) : state N := %s." % (model, X.state_term(attrs)))
            obls.append(("regen_" + model, "forall N s lo hi, src_%s N s lo hi = %s N s lo hi" % (model, model),
                         "PersistenceImager.%s (setter)" % attr, g.lineno))
        else:
            defs.append("Definition src_%s (N : Num) (s : state N) (p : T N) : state N := %s." % (model, X.state_term(attrs)))
            obls.append(("regen_" + model, "forall N s p, src_%s N s p = %s N s p" % (model, model),
                         "PersistenceImager.%s (setter)" % attr, g.lineno))

    # constructor: the statements after validation, on explicit arguments
    g = _find_func(cls.body, "__init__")
    env = {"birth_range": (V("num", "bl"), V("num", "bh")), "pers_range": (V("num", "pl"), V("num", "ph")),
           "pixel_size": V("num", "ps")}
    for a in g.args.args[1:]:
        env.setdefault(a.arg, V("opaque", "tt"))
    attrs = {"_bpnts": V("mesh", "[]"), "_ppnts": V("mesh", "[]")}
    X.run(g.body, env, attrs, skip=opaque_call)
    for k in GEOM_ATTRS:
        if k not in attrs:
            raise Unsupported("__init__ does not set self.%s" % k)
    defs.append("Definition src_ctor (N : Num) (bl bh pl ph ps : T N) : state N := %s." % X.state_term(attrs))
    obls.append(("regen_ctor", "forall N bl bh pl ph ps, src_ctor N bl bh pl ph ps = ctor N bl bh pl ph ps",
                 "PersistenceImager.__init__", g.lineno))

    # fit: (1) the four running-extreme updates of the loop, (2) the two final range assignments
    g = _find_func(cls.body, "fit")
    loop = [st for st in g.body if isinstance(st, ast.For)]
    if len(loop) != 1:
        raise Unsupported("fit: expected exactly one loop over the diagrams")
    ifs = [st for st in loop[0].body if isinstance(st, ast.If)]
    names = ("min_birth", "max_birth", "min_pers", "max_pers")
    env = {"min_birth": V("num", "mnb"), "max_birth": V("num", "mxb"), "min_pers": V("num", "mnp"), "max_pers": V("num", "mxp"),
           "min_b": V("num", "a"), "max_b": V("num", "b"), "min_p": V("num", "c"), "max_p": V("num", "d")}
    # the skew branch (`if skew:`) writes the diagram copy, not the running extremes: it is covered by the tie
    upd = [st for st in ifs if not ast.unparse(st.test).strip() == "skew"]
    X.run(upd, env, {})
    defs.append("Definition src_fit_update (N : Num) (mnb mxb mnp mxp a b c d : T N) : T N * T N * T N * T N := (%s, %s, %s, %s)."
                % tuple(env[n].term for n in names))
    obls.append(("regen_fit_update",
                 "forall N mnb mxb mnp mxp a b c d, src_fit_update N mnb mxb mnp mxp a b c d = "
                 "(nmin N mnb a, nmax N mxb b, nmin N mnp c, nmax N mxp d)", "PersistenceImager.fit (loop body)", loop[0].lineno))
    tail = [st for st in g.body[g.body.index(loop[0]) + 1:]]
    env = {"min_birth": V("num", "mnb"), "max_birth": V("num", "mxb"), "min_pers": V("num", "mnp"), "max_pers": V("num", "mxp")}
    attrs = X.initial_attrs()
    X.run(tail, env, attrs)
    defs.append("Definition src_fit_tail (N : Num) (s : state N) (mnb mxb mnp mxp : T N) : state N := %s." % X.state_term(attrs))
    obls.append(("regen_fit_tail", "forall N s mnb mxb mnp mxp, src_fit_tail N s mnb mxb mnp mxp = "
                 "set_pers N (set_birth N s mnb mxb) mnp mxp", "PersistenceImager.fit (range assignments)", g.lineno))
    # initial values of the running extremes: +-inf, so that the first diagram always replaces them
    init = {}
    for st in g.body:
        if isinstance(st, ast.Assign) and isinstance(st.targets[0], ast.Name) and st.targets[0].id in names:
            init[st.targets[0].id] = ast.unparse(st.value).replace("numpy", "np")
    want = {"min_birth": "np.inf", "max_birth": "-np.inf", "min_pers": "np.inf", "max_pers": "-np.inf"}
    if init != want:
        raise Unsupported("fit: running extremes are not initialised to +-inf: %r" % (init,))

    text = IMAGER_HEADER + "\n".join(defs) + "\n\n"
    for name, stmt, unit, line in obls:
        text += "Lemma %s : %s.\nProof. intros. reflexivity. Qed.\n" % (name, stmt)
    return text, [(n, u, l) for n, _, u, l in obls]


# ===================================================================================== driver
def check_regen(pid, tag, producer, repo):
    """Runs a front end on the current tree, compiles the generated file, and returns the dict that
    core.run_check expects from a module's `extra_obligations` (one obligation per regenerated unit).
    When the whole file does not compile each lemma is compiled on its own to name the units that broke."""
    from . import core
    try:
        text, obls = producer(repo)
    except Unsupported as e:
        return {"obligations": 1, "discharged": 0, "units": [], "failed_units": ["translator"],
                "problems": ["regenerated model (%s): the source left the translator's subset: %s" % (tag, e)]}
    except Exception as e:  # translator crash: fail closed
        return {"obligations": 1, "discharged": 0, "units": [], "failed_units": ["translator"],
                "problems": ["regenerated model (%s): translator failed: %r" % (tag, e)]}
    res = core.run_coq_jobs(pid + "_regen_" + tag, [(tag, text)], timeout=600)
    units = ["%s (line %d)" % (u, l) for _, u, l in obls]
    if res[tag].ok:
        return {"obligations": len(obls), "discharged": len(obls), "units": units, "failed_units": [], "problems": [],
                "coq_wall_s": round(res[tag].wall, 1)}
    # split: definitions + one lemma per file
    head = text[:text.index("Lemma ")] if "Lemma " in text else text
    lemmas = ["Lemma " + part for part in text.split("Lemma ")[1:]]
    jobs = [("%s_%d" % (tag, i), head + lem) for i, lem in enumerate(lemmas)]
    r2 = core.run_coq_jobs(pid + "_regen_" + tag + "_split", jobs, timeout=600)
    failed, problems = [], []
    for i, (name, unit, line) in enumerate(obls):
        r = r2.get("%s_%d" % (tag, i))
        if r is None or not r.ok:
            failed.append("%s (line %d)" % (unit, line))
            msg = " ".join(((r.err or r.out) if r else "not compiled").split())[-300:]
            problems.append("regenerated model: %s of the current source (line %d) is no longer convertible / provably equal to "
                            "the hand-written model (obligation %s): %s" % (unit, line, name, msg))
    if not failed:      # definitions broke
        failed.append("definitions")
        problems.append("regenerated model (%s) does not compile: %s" % (tag, " ".join((res[tag].err or res[tag].out).split())[-400:]))
    return {"obligations": len(obls), "discharged": len(obls) - len(failed), "units": units, "failed_units": failed,
            "problems": problems}
