"""C14 - heat-kernel distance (persim/heat.py).  Model: coq/Model/HeatM.v over R; the tie is one
kernel-checked `interval` certificate per case.

Tolerance rule (stated once, used by the certificate and by the predicate).  heat = sqrt(r) with
r = k(F,F) + k(G,G) - 2 k(F,G) a difference of sums of differences of exponentials; a square root
amplifies the rounding of r without bound when r is near 0 (reordered / nearly equal diagrams), so
values are compared through their SQUARES:
      | v*v - max(r,0) |  <=  TOL2(F,G,sigma) := 3e-14 * K2 + 1e-300,
K2 = k+(F,F) + k+(G,G) + 2 k+(F,G), where k+ ADDS the two exponentials of every term instead of
subtracting them: the total size of the numbers the code's binary64 sums are made of (it does not shrink
when the two exponentials of a term nearly cancel, as for tiny bars or huge sigma).  A priori the
code's error is below (N+3) * 1.1e-16 * K2 for N = number of exponentials (<= 200 here), i.e. <= 2.3e-14 K2;
measured on 640 generated cases of all classes: <= 2.7e-16 K2.  Away from cancellation (r ~ K2) this is
a 1.5e-14 relative bound on v; at r = 0 it allows v <= 1.8e-7 sqrt(K2).  Relations between several
runs use E(F,G) := sqrt(TOL2(F,G)) as the uncertainty of one value.

Large diagrams (size ladder, > 15 points).  A binary64 sum of P terms carries, in ANY order of summation, an
error of at most (P - 1) * 1.1e-16 * (sum of magnitudes), so beyond the original design the coefficient follows
that a-priori bound:  TOL2 := max(3e-14, 1.2e-16 * (P + 8)) * K2  with P = max(|F|, |G|)^2  (3e-14 up to 15
points, i.e. for every class of the original design; 3.2e-11 at 515 points; measured on the pinned scalar loop at
520 points: 4.3e-14 K2, which is why 3e-14 cannot simply be kept).  The 60-digit decimal evaluation of the closed
form costs 30 us per exponential, so kernel sums of more than 400 pairs are evaluated by `_k_fast`: the same closed
form in x87 extended precision (error < 1e-17 K2, see its docstring; validated against the decimal evaluation on
the small classes).  No interval certificate is attempted above 300 kernel terms (verdict "skip:..."); those
cases are judged by the predicate alone."""
import math
from decimal import Decimal, getcontext
from fractions import Fraction

from .. import core, history

PID = "C14"
THEOREMS = [
    "heat_loop_is_reininghaus_kernel", "heat_kernel_sym", "heat_kernel_reorder", "heat_reorder_zero",
    "heat_symmetric", "heat_kernel_diag_point_zero", "heat_diag_points_ignored", "heat_kernel_translate",
    "heat_translate_invariant", "heat_nonnegative_real", "heat_legacy_same_real_function",
    "gaussian_kernel_psd", "heat_kernel_psd", "heat_radicand_nonneg", "heat_square_is_radicand",
    "heat_triangle_inequality", "heat_stability",
]
RULE = ("seeded generator over classes {reorder (G = F permuted), near (G = F + 1e-12..1e-5 perturbation), diag "
        "(points on the diagonal mixed in), neg (negative coordinates), generic, scale (x 2^-6..2^6), empty, single, "
        "far (both diagrams translated by 1e4..1e8 / 2^14..2^27 along the diagonal, checked against the formula and "
        "the untranslated value), tinymove (one point of a multi-point diagram moved by 1e-6..4e-5), chain (F, F+d, "
        "F+2d: tight triangle), smallscale (coordinates ~1e-4), bigsigma (sigma 1e2..1e6), intsigma (sigma passed as "
        "Python int / np.int64, compared with the float call), sweep (history in one process: the same diagrams at "
        "sigma 0.1, 0.4, 1, 3, 0.4, 0.1 in sequence, every value against the formula, heat(F,F)=0 each time), wide "
        "(births spread over 50-500 units at sigma 0.4 or 4-12 units at sigma 1e-3..1e-2, near and far points mixed), "
        "multi (bit-identical shared points with different multiplicities)} x "
        "sigma in {0.01, 0.4, 5, random}; 1-5 points per diagram; every case also carries a third diagram, a shift, "
        "a permutation and diagonal points for the metamorphic relations. Non-trivial: both diagrams non-empty with "
        "at least one off-diagonal point each and (>= 2 points in one of them or a reordering/near-equality class); "
        "distinct = distinct JSON input. "
        "Added after seeded batch 4 -- size ladder `size-*`: one diagram just above a block size and never a multiple of "
        "one (xs 17-19/33-35/49-51/65-67, s 101-104/129-133, m 257-265, l 513-530, xl 1025-1059; thorough also 2*256+r), as "
        "first argument, as second argument, two large diagrams, or a large diagram against a reordering of itself; "
        "births over 2, 4 or 20 units, a few exact duplicates, sigma in {0.4, 0.05, 1, random}; up to 200 points "
        "every relation is evaluated, above that only the calls listed in case['lite'] (formula + symmetry, or the "
        "formula alone when both diagrams are large), because each call of the pinned scalar loop costs 9 us per "
        "pair (2.3 s at 515 points); quick: 2 xs, 1 s, 1 m (reordering), 1 l; thorough: 24 xs, 10 s, 8 m, 6 l, 1 xl, "
        "1 at 513-552 as second argument. `layout`: the same small diagrams handed over as nested lists, tuples, "
        "Fortran-ordered arrays, a strided view of a larger buffer, read-only arrays or (integer coordinates) an "
        "int64 array, half of them with the array objects shared by all calls of the case (quick 4, thorough 60). "
        "Added in round 2 -- `repair` (look-alike diagrams): G has as many points as F and is NOT a reordering of it (distance "
        "far above the tolerance) but shares the summaries a shortcut / fingerprint / cache key for 'same diagram' may use: "
        "`deaths` same multiset of births and same multiset of deaths, paired differently (nested {(0,3),(1,2)} against "
        "overlapping {(0,2),(1,3)} bars); `flat` the same 2n coordinate values paired nested / overlapping / consecutively; "
        "`rot` same lifetimes and same births / midpoints / deaths, re-paired; `sums` equal column sums (one point moved by +v, another by -v); "
        "`gridrand` two independent equal-size diagrams from a 4 x 3 grid; coordinates on an integer / half / quarter grid "
        "(60 %, every coincidence bit-exact) or random doubles, common scale in {1, 1/4, 10} and offset in {0, -3, 100}, rows "
        "of G shuffled half of the time, H = F with one death moved, sigma as in the ordinary cases or (half of the cases) "
        "kernel width sqrt(8 sigma) = 1, 2, 4 point spacings, every relation of the ordinary cases evaluated; 2-5 "
        "points (certified), thorough and search also 6-12 points (predicate only); quick: deaths on the grid, deaths in "
        "doubles, flat, one of sums/gridrand, rot on the grid with each of the three anchors; thorough: 96. `layout` additionally as nested lists of Python ints "
        "(`intlist`); the quick tier always contains one integer-typed layout case (int64 array or int lists)")
TRUSTED_BASE = [
    "harness/src2coq.py (heat_regen): its reading of heat.py (2-vectors as pairs, x ** 2 as x * x, the loop nest pinned by shape) "
    "for the 3 regenerated obligations regen_kterm, regen_knorm, regen_heat (proved by Corr/RegenTac.v)",
    "Coq 8.16.1 kernel (vm_compute inside the Interval tactic's reflexive checker; no native_compute)",
    "stdlib axioms of the classical reals: ClassicalDedekindReals.sig_forall_dec, sig_not_dec, "
    "FunctionalExtensionality.functional_extensionality_dep, Classical_Prop.classic",
    "coq-interval (per-case certificates) incl. primitive-float/int63 specification axioms of the stdlib",
    "hand-written model Model/HeatM.v of heat.py lines 12-55",
    "harness: generator, float->exact-rational printer, tolerance rule TOL2 (module docstring), 50-digit decimal reference",
    "large diagrams (size ladder): closed form evaluated with numpy long double (x87 extended, eps 1.1e-19) and glibc expl "
    "instead of the decimal reference; these cases have no Coq certificate (model run skipped)",
]
ASSUMPTIONS = [
    "numpy semantics of np.exp, np.sum, slicing I2[j, 1::-1] (mirror) are as modelled",
    "binary64 rounding of the implementation is bounded by TOL2 (compared on squares), not proved; for more than 15 "
    "points TOL2 grows with the number of summed terms (a-priori bound of a sum in any order, module docstring)",
    "the stability bound is a theorem about the model for every partial matching (heat_stability); on the "
    "implementation it is monitored on every generated case against an independently computed Euclidean W1 and "
    "against persim.wasserstein",
]
COQ_DEPS = ["Corr/HeatCorr.vo", "Corr/RegenTac.vo"]


EXTRA_OBLIGATIONS_ASYNC = True    # compiled while the correspondence runs


def extra_obligations(tier):
    """Second tie (DESIGN 12.7): the summand, loop nest and normalisation of evalHeatKernel and heat()'s clamped combination
    of the three kernel values are re-translated from the current heat.py and proved equal to Model/HeatM.v."""
    from .. import src2coq
    return src2coq.check_regen(PID, "heat", src2coq.heat_regen, core.REPO)
SIGMAS = [0.01, 0.4, 5.0]


# ---------------------------------------------------------------------------------- generator
def _pt(rng, neg=False, scale=1.0):
    b = rng.choice([rng.uniform(0, 2), rng.uniform(0, 0.5), float(rng.randint(0, 3)), rng.uniform(0, 2) * 0.25])
    if neg:
        b = b - rng.choice([1.0, 3.0, 10.0])
    ln = rng.choice([rng.uniform(0.05, 2), rng.uniform(0.001, 0.1), float(rng.randint(1, 3)), 0.5])
    return [b * scale, (b + ln) * scale]


def _dgm(rng, n, **kw):
    return [_pt(rng, **kw) for _ in range(n)]


def _case(rng, cls):
    sigma = rng.choice(SIGMAS + [0.4, round(rng.uniform(0.05, 3), 3)])
    neg = cls == "neg" or rng.random() < 0.15
    scale = rng.choice([2.0 ** -6, 2.0 ** -3, 8.0, 64.0]) if cls == "scale" else 1.0
    n = rng.randint(2, 5)
    F = _dgm(rng, n, neg=neg, scale=scale)
    if cls == "reorder":
        G = F[:]
        while True:
            rng.shuffle(G)
            if G != F or len({tuple(p) for p in F}) == 1:
                break
    elif cls == "near":
        eps = rng.choice([1e-12, 1e-9, 1e-7, 1e-5])
        G = [[b + rng.uniform(-eps, eps), d + rng.uniform(-eps, eps)] for b, d in F]
        if rng.random() < 0.5:
            rng.shuffle(G)
    elif cls == "empty":
        k = rng.choice([0, 1, 2])
        F = [] if k in (0, 2) else F
        G = [] if k in (1, 2) else _dgm(rng, rng.randint(1, 4), neg=neg)
    elif cls == "single":
        F = _dgm(rng, 1, neg=neg)
        G = _dgm(rng, 1, neg=neg)
    else:
        G = _dgm(rng, rng.randint(1, 5), neg=neg, scale=scale)
    if cls == "diag":
        for X in (F, G):
            for _ in range(rng.randint(1, 2)):
                x = rng.choice([0.0, 1.5, rng.uniform(-1, 3)])
                X.insert(rng.randint(0, len(X)), [x, x])
    H = _dgm(rng, rng.randint(1, 4), neg=neg, scale=scale)
    if rng.random() < 0.3 and F:
        H = [[b + rng.uniform(-1e-3, 1e-3), d] for b, d in F]
    perm = list(range(len(F)))
    rng.shuffle(perm)
    shift = rng.choice([1.0, -3.0, 10.0, rng.uniform(-20, 20), -100.0])
    if cls in ("tinymove", "chain"):
        # nearly identical multi-point diagrams: one point (tinymove) or every point (chain) moved by 1e-6..4e-5
        delta = rng.choice([1e-6, 3e-6, 1e-5, 2e-5, 4e-5]) * rng.choice([1.0, rng.uniform(0.5, 1.0)])
        if cls == "tinymove":
            j = rng.randrange(len(F))
            G = [list(p) for p in F]
            G[j] = [G[j][0] + delta * rng.choice([1, -1, 0]), G[j][1] + delta]
            H = [list(p) for p in F]
            H[j] = [(F[j][0] + G[j][0]) / 2, (F[j][1] + G[j][1]) / 2]
        else:   # F, H = F + delta, G = F + 2 delta : the triangle inequality is tight
            H = [[b, d + delta] for b, d in F]
            G = [[b, d + 2 * delta] for b, d in F]
        if rng.random() < 0.5:
            rng.shuffle(G)
    elif cls == "smallscale":
        sc = rng.choice([1e-4, 3e-4, 2.0 ** -13, 1e-3])
        F = [[b * sc, d * sc] for b, d in _dgm(rng, rng.randint(1, 4), neg=neg)]
        G = [[b * sc, d * sc] for b, d in _dgm(rng, rng.randint(1, 4), neg=neg)]
        H = [[b * sc, d * sc] for b, d in _dgm(rng, rng.randint(1, 3), neg=neg)]
        perm = list(range(len(F)))[::-1]
    elif cls == "bigsigma":
        sigma = rng.choice([1e2, 1e3, 1e4, 1e6, 2.0 ** 12])
    elif cls == "far":
        # both diagrams translated far along the diagonal, O(1) spacing; "shift" translates back, so the
        # translation relation compares with the untranslated value
        T = rng.choice([1e4, 1e5, 1e6, 1e7, 1e8, 2.0 ** 14, 2.0 ** 20, 2.0 ** 24, 2.0 ** 27, 65537.0, 12345678.0])
        if rng.random() < 0.6:   # dyadic base coordinates: the translation is exact in binary64
            q = lambda X: [[round(b * 1024) / 1024, round(d * 1024) / 1024 + 1 / 1024] for b, d in X]
            F, G, H = q(F), q(G), q(H)
        if rng.random() < 0.3:
            G = F[:]
            rng.shuffle(G)
        F, G, H = ([[b + T, d + T] for b, d in X] for X in (F, G, H))
        shift = -T
    skind, pre = "float", []
    if cls == "wide":
        # births spread over many kernel widths (sqrt(746*8*sigma) = 48.9 at sigma 0.4, 2.44 at 1e-3): pixel-scale
        # data at the default sigma, unit-scale data at small sigma; near and far points mixed, unsorted
        if rng.random() < 0.55:
            sigma, span = 0.4, rng.choice([60.0, 120.0, 250.0, 500.0])
        else:
            sigma, span = rng.choice([1e-3, 2e-3, 1e-2]), rng.choice([4.0, 8.0, 12.0])
        w = math.sqrt(8 * sigma)

        def wpt(c0):
            b = c0 + rng.uniform(-1.5, 1.5) * w
            return [b, b + rng.uniform(0.3, 2.5) * w]
        cs = [rng.uniform(0, span) for _ in range(rng.randint(2, 3))] + [0.0, span]
        F = [wpt(rng.choice(cs)) for _ in range(rng.randint(2, 5))]
        G = [wpt(rng.choice(cs)) for _ in range(rng.randint(2, 5))]
        G[rng.randrange(len(G))] = wpt(F[0][0])            # a near pair ...
        G.insert(rng.randrange(len(G)), wpt(max(p[0] for p in F) - span))   # ... and a point far to the left
        H = [wpt(rng.choice(cs)) for _ in range(rng.randint(1, 4))]
        perm = list(range(len(F)))[::-1]
    elif cls == "multi":
        # bit-identical shared points with DIFFERENT multiplicities ({a,a} vs {a} is not 0)
        a = _pt(rng, neg=neg)
        k1, k2 = rng.choice([(2, 1), (1, 2), (3, 1), (2, 3), (2, 0), (3, 2)])
        F = [list(a) for _ in range(k1)] + (_dgm(rng, rng.randint(1, 2), neg=neg) if rng.random() < 0.4 else [])
        G = [list(a) for _ in range(k2)] + (_dgm(rng, 1, neg=neg) if k2 == 0 or rng.random() < 0.3 else [])
        if rng.random() < 0.4:
            q = _pt(rng, neg=neg)
            F.append(list(q)); G.append(list(q))
        rng.shuffle(F); rng.shuffle(G)
        H = [list(a)] + (_dgm(rng, 1, neg=neg) if rng.random() < 0.5 else [])     # triangle through {a}
        perm = list(range(len(F)))[::-1]
    elif cls == "intsigma":
        # sigma handed over as a Python int / numpy integer: heat(F, G, 1) must equal heat(F, G, 1.0)
        sigma = float(rng.choice([1, 1, 2, 3, 5]))
        skind = rng.choice(["int", "npint"])
    elif cls == "sweep":
        # a history inside ONE process: the same diagrams at several sigmas in sequence, then the case's sigma;
        # every value is checked against the formula independently of the order of the calls
        seq = [0.1, 0.4, 1.0, 3.0, 0.4, 0.1]
        k = rng.randrange(len(seq))
        seq = seq[k:] + seq[:k]
        pre, sigma = seq[:-1], seq[-1]
    xs = [rng.uniform(-2, 4) for _ in range(rng.randint(1, 3))]
    if cls == "far":
        xs = [x - shift for x in xs]
    elif cls == "smallscale":
        xs = [x * 1e-4 for x in xs]
    return {"cls": cls, "F": F, "G": G, "H": H, "sigma": sigma, "perm": perm, "shift": shift,
            "diag": [[x, x] for x in xs], "diag_pos": [rng.random() for _ in xs], "skind": skind, "pre": pre}


# sizes just above the usual block / chunk / switch-over sizes of a vectorised or blocked evaluation, never a
# multiple of one (a full last block hides a dirty-scratch or off-by-one bug)
SIZE_BASES = {"xs": [16, 32, 48, 64], "s": [100, 128], "m": [256], "l": [512], "xl": [1024]}
LITE_FROM = 200      # diagrams above this size run only the calls listed in case["lite"]


def _size_case(rng, band, kind=None, twice=False):
    """One diagram just above a block size (band: xs 17-67, s 101-133, m 257-265, l 513-530, xl 1025-1059;
    twice: 2 * base + 1..40); kind: Fbig | Gbig (the other diagram has 1-5 points) | both (two large diagrams of different
    sizes) | reorder (G = F permuted).  Points of the large diagram: births over 2, 4 or 20 units (dense to
    sparse at sigma 0.4), a few exact duplicates; up to `LITE_FROM` points every relation is evaluated."""
    c = _case(rng, "generic")
    base = rng.choice(SIZE_BASES[band])
    n = base + rng.randint(1, max(3, base // 30 + 1))
    if twice:
        n = 2 * base + rng.randint(1, 40)
    kind = kind or rng.choice(["Fbig", "Gbig", "both", "reorder"])
    span = rng.choice([2.0, 4.0, 20.0])

    def big(k):
        X = []
        for _ in range(k):
            if X and rng.random() < 0.02:
                X.append(list(rng.choice(X)))
            elif rng.random() < 0.2:
                X.append(_pt(rng))
            else:
                b = rng.uniform(0, span)
                X.append([b, b + rng.choice([rng.uniform(0.05, 1.5), rng.uniform(0.001, 0.1)])])
        return X
    small = _dgm(rng, rng.randint(1, 5))
    if kind == "Fbig":
        F, G = big(n), small
    elif kind == "Gbig":
        F, G = small, big(n)
    elif kind == "both":
        F, G = big(n), big(base + rng.randint(1, max(3, base // 30 + 1)) if rng.random() < 0.5 else rng.randint(base // 2, base))
    else:
        F = big(n)
        G = F[:]
        rng.shuffle(G)
    perm = list(range(len(F)))
    rng.shuffle(perm)
    c.update(cls="size-" + band, F=F, G=G, perm=perm,
             sigma=rng.choice([0.4, 0.4, 0.05, 1.0, round(rng.uniform(0.05, 3), 3)]))
    if max(len(F), len(G)) > LITE_FROM:
        c["lite"] = ["v"] if kind in ("reorder", "both") or band == "xl" else ["v", "sym"]
    return c


CONTAINERS = ["list", "tuple", "fortran", "strided", "readonly", "int", "intlist"]
INT_CONTAINERS = ("int", "intlist")


def _layout_case(rng, cont=None):
    """The diagrams handed over as nested lists / tuples, Fortran-ordered, as a strided view of a larger buffer,
    as read-only arrays, or (integer coordinates) as an int64 array / nested lists of Python ints; half of the
    cases also share the array objects between all calls of the case."""
    c = _case(rng, rng.choice(["generic", "reorder", "diag", "neg", "multi"]))
    cont = cont or rng.choice(CONTAINERS)
    if cont in INT_CONTAINERS:
        ip = lambda: [(b := float(rng.randint(-3, 6))), b + rng.randint(1, 4)]
        c["F"] = [ip() for _ in range(rng.randint(2, 5))]
        c["G"] = [ip() for _ in range(rng.randint(1, 5))]
        c["H"] = [ip() for _ in range(rng.randint(1, 3))]
        c["perm"] = list(range(len(c["F"])))[::-1]
        c["shift"] = float(rng.choice([1, -3, 10, -100]))
        c["diag"] = [[float(rng.randint(-2, 4))] * 2 for _ in c["diag"]]
    c.update(cls="layout", cont=cont, shared=rng.random() < 0.5)
    return c


REPAIR_VARIANTS = ["deaths", "deaths", "flat", "rot", "sums", "gridrand"]


def _repair_case(rng, variant=None, grid=None, n=None, anchor=None):
    """LOOK-ALIKE diagrams: G is NOT a reordering of F (the distance is far above the tolerance) but agrees with F in
    the summaries a shortcut / fingerprint / cache key for "same diagram" is tempted to use.  Variants:
      deaths   same number of points, same multiset of births, same multiset of deaths, different pairing
               (nested bars {(0,3),(1,2)} against overlapping bars {(0,2),(1,3)});
      flat     the same multiset of all 2n coordinates paired up in two of the three ways nested / overlapping /
               consecutive;
      rot      same multiset of lifetimes and same multiset of anchors (births, midpoints or deaths, case["anchor"]),
               re-paired: the look-alike in (birth, lifetime) / (midpoint, lifetime) / (death, lifetime) coordinates;
      sums     same number of points and same column sums (one point moved by +v, another by -v);
      gridrand two independent diagrams of equal size from a 4 x 3 grid (many shared births / deaths / whole points).
    grid: coordinates on an integer / half / quarter grid (typical of integer-valued filtrations, every coincidence
    is bit-exact) or random doubles (coincidences are exact where values are copied, approximate where computed).
    The rows of G are shuffled half of the time; H is F with one death moved (a triangle through the look-alike)."""
    c = _case(rng, "generic")
    variant = variant or rng.choice(REPAIR_VARIANTS)
    grid = (rng.random() < 0.6) if grid is None else grid
    n = n or rng.randint(2, 5)
    step = rng.choice([1.0, 1.0, 0.5, 0.25]) if grid else rng.choice([1.0, 0.5, 0.3])

    def vals(k):    # k distinct increasing values, neighbours about one step apart
        if grid:
            return [step * i for i in sorted(rng.sample(range(0, 2 * k + 2), k))]
        v, out = 0.0, []
        for _ in range(k):
            v += step * rng.uniform(0.2, 1.6)
            out.append(v)
        return out

    def nested(v):
        return [[v[i], v[len(v) - 1 - i]] for i in range(len(v) // 2)]

    def overlap(v):
        return [[v[i], v[i + len(v) // 2]] for i in range(len(v) // 2)]

    def consec(v):
        return [[v[2 * i], v[2 * i + 1]] for i in range(len(v) // 2)]

    def rnd(k):     # k points, coordinates may coincide between points (grid) / generic (doubles)
        if grid:
            return [[(b := step * rng.randint(0, 3)), b + step * rng.randint(1, 3)] for _ in range(k)]
        return [[(b := rng.uniform(0, 3 * step)), b + rng.uniform(0.3, 3) * step] for _ in range(k)]

    key = lambda X: sorted(map(tuple, X))
    F = G = None
    if variant == "deaths":
        # general position first: any valid re-pairing of a random diagram; else all deaths above all births
        F0 = rnd(n)
        for _ in range(20):
            pi = list(range(n))
            rng.shuffle(pi)
            G0 = [[F0[i][0], F0[pi[i]][1]] for i in range(n)]
            if all(b < d for b, d in G0) and key(G0) != key(F0):
                F, G = F0, G0
                break
        if F is None or rng.random() < 0.4:
            v = vals(2 * n)
            bs, ds, ds2 = v[:n], v[n:], v[n:]
            rng.shuffle(bs)
            rng.shuffle(ds)
            while ds2 == ds:
                ds2 = ds[:]
                rng.shuffle(ds2)
            F, G = [[b, d] for b, d in zip(bs, ds)], [[b, d] for b, d in zip(bs, ds2)]
    elif variant == "flat":
        v = vals(2 * n)
        f, g = rng.sample([nested, overlap, consec], 2)
        F, G = f(v), g(v)
    elif variant == "rot":
        ms = [2 * x for x in vals(n)]
        ls = [x + step for x in vals(n)]              # distinct lifetimes (exact halves on the grid)
        rng.shuffle(ms)
        ls2 = ls[:]
        while ls2 == ls:
            rng.shuffle(ls2)
        anchor = anchor or rng.choice(["birth", "mid", "death"])
        lo = {"birth": 0.0, "mid": 0.5, "death": 1.0}[anchor]
        F = [[m - l * lo, m + l * (1 - lo)] for m, l in zip(ms, ls)]
        G = [[m - l * lo, m + l * (1 - lo)] for m, l in zip(ms, ls2)]
        c["anchor"] = anchor
    elif variant == "sums":
        F = rnd(n)
        i, j = rng.sample(range(n), 2)
        G = [list(p) for p in F]
        if rng.random() < 0.5:      # along the diagonal: both lifetimes kept
            t = step * rng.choice([1, 2, 0.5])
            G[i], G[j] = [F[i][0] + t, F[i][1] + t], [F[j][0] - t, F[j][1] - t]
        else:                       # deaths only: one bar longer, another shorter by the same amount
            t = (F[j][1] - F[j][0]) / 2
            G[i], G[j] = [F[i][0], F[i][1] + t], [F[j][0], F[j][1] - t]
    else:
        F, G = rnd(n), rnd(n)
    if key(F) == key(G):            # (sums with identical points, gridrand by chance): the classic pair instead
        v = vals(2 * n)
        F, G, variant = nested(v), overlap(v), "flat"
    # common affine change of coordinates (exact on the grid for the dyadic factors)
    a, t0 = rng.choice([1.0, 1.0, 1.0, 0.25, 10.0]), rng.choice([0.0, 0.0, -3.0, 100.0])
    F, G = ([[a * b + t0, a * d + t0] for b, d in X] for X in (F, G))
    G = [list(p) for p in G]
    if rng.random() < 0.5:
        rng.shuffle(G)
    H = [list(p) for p in F]
    j = rng.randrange(n)
    H[j][1] += a * step * rng.choice([0.5, 0.25, 1.0])
    perm = list(range(n))
    rng.shuffle(perm)
    c.update(cls="repair", variant=variant, F=F, G=G, H=H, perm=perm)
    if rng.random() < 0.5:
        # kernel width sqrt(8 sigma) = 1, 2 or 4 spacings of the points: the kernels of neighbouring points overlap, so
        # k(F,F), k(G,G) and k(F,G) all differ (far-apart points give n / (8 pi sigma) whatever the pairing)
        c["sigma"] = (a * step) ** 2 * rng.choice([0.125, 0.5, 2.0])
    return c


CLASSES = ["reorder", "near", "diag", "neg", "generic", "scale", "empty", "single",
           "far", "far", "tinymove", "chain", "smallscale", "bigsigma", "reorder", "far", "intsigma", "sweep", "wide", "wide", "multi", "multi"]


def _extra(rng, tier):
    """Container / layout cases, look-alike diagrams and the size ladder (RULE).  quick: 4 layout cases (one of them
    integer-typed), 7 look-alike cases, two diagrams at 17-72 points, one
    at 101-140 (all relations), one reordering at 257-275 and one diagram at 513-530 points (formula and symmetry)."""
    if tier == "quick":
        plan = [("xs", None), ("xs", rng.choice(["both", "reorder"])), ("s", None), ("m", "reorder"),
                ("l", rng.choice(["Fbig", "Gbig"]))]
        n_layout = 4
    else:
        plan = ([("xs", None)] * 24 + [("s", None)] * 10 + [("m", None)] * 8 + [("l", "Fbig"), ("l", "Gbig")] * 2
                + [("l", "both"), ("l", "reorder"), ("xl", "Fbig")])
        n_layout = 60
    if tier == "quick":
        # one integer-typed container in every run, the other three at random
        cs = [_layout_case(rng, rng.choice(INT_CONTAINERS))] + [_layout_case(rng) for _ in range(n_layout - 1)]
        # look-alike diagrams: the classic re-pairing on a grid and in doubles, the coordinate multiset, lifetimes, one other
        cs += [_repair_case(rng, "deaths", grid=True), _repair_case(rng, "deaths", grid=False),
               _repair_case(rng, "flat"), _repair_case(rng, rng.choice(["sums", "gridrand"]))]
        cs += [_repair_case(rng, "rot", grid=True, anchor=a) for a in ("birth", "mid", "death")]
    else:
        cs = [_layout_case(rng) for _ in range(n_layout)]
        cs += [_repair_case(rng, n=(rng.randint(6, 12) if i % 4 == 0 else None)) for i in range(96)]
    cs += [_size_case(rng, b, k) for b, k in plan]
    if tier != "quick":
        cs.append(_size_case(rng, "m", "Gbig", twice=True))     # 2 * 256 + r: two full blocks and a partial one
    return cs


def generate(rng, tier):
    n_cases = 44 if tier == "quick" else 880
    cases = [_case(rng, CLASSES[i % len(CLASSES)]) for i in range(n_cases)]
    # every sigma of the design with a reordering
    for s in SIGMAS:
        c = _case(rng, "reorder")
        c["sigma"] = s
        cases.append(c)
    return cases + _extra(rng, tier)


def corpus():
    # two classics and a negative-coordinate pair; the shrunk NaN witness of the pinned tree
    # (heat.py:51 before fixes/C14_heat_nan.patch) lives in corpus/C14/*.json
    import json
    base = {"H": [[0.5, 1.2]], "perm": [1, 0], "shift": 10.0, "diag": [[0.7, 0.7]], "diag_pos": [0.5]}
    cs = [
        dict(base, F=[[0.5, 1.0]], G=[[0.5, 1.1]], sigma=0.4, perm=[0]),
        dict(base, F=[[0.5, 1.0], [0.0, 2.0]], G=[[0.5, 1.5]], sigma=5.0),
        dict(base, F=[[-9.0, -7.0], [-8.0, -7.5]], G=[[-8.5, -8.0]], sigma=0.01),
    ]
    d = core.VERIF / "corpus" / PID
    if d.is_dir():
        for f in sorted(d.glob("*.json")):
            j = json.loads(f.read_text())
            cs.append({k: j[k] for k in ("F", "G", "H", "sigma", "perm", "shift", "diag", "diag_pos", "skind", "pre", "lite", "cont", "shared") if k in j})
    return cs


def search_generate(rng, n):
    cs = [_case(rng, CLASSES[i % len(CLASSES)]) for i in range(n)]
    cs += [_repair_case(rng, n=(rng.randint(6, 12) if i % 5 == 4 else None)) for i in range(max(2, n // 10))]
    return cs + [_layout_case(rng) for _ in range(max(1, n // 20))] + [
        _size_case(rng, b, k) for b, k in [("xs", None)] * max(1, n // 50) + [("s", None), ("m", None), ("l", None)]]


# ---------------------------------------------------------------------------------- implementation
def _with_diag(X, diag, pos):
    X = [list(p) for p in X]
    for p, u in zip(diag, pos):
        X.insert(int(u * (len(X) + 1)) % (len(X) + 1), list(p))
    return X


def impl_run(cases):
    import numpy as np
    from persim import heat
    try:
        from persim import wasserstein
    except Exception:  # pragma: no cover
        wasserstein = None

    def arr(X):
        return np.array(X, dtype=float).reshape(-1, 2)

    def build(X, cont):
        """The diagram X in the container / memory layout `cont` (same values in every layout)."""
        a = arr(X)
        if cont == "array" or not len(X):
            return a
        if cont == "list":
            return [list(map(float, p)) for p in X]
        if cont == "tuple":
            return tuple(tuple(map(float, p)) for p in X)
        if cont == "fortran":
            return np.asfortranarray(a)
        if cont == "strided":            # every other row, two inner columns of a larger buffer
            big = np.full((2 * len(X), 4), 7.25)
            big[::2, 1:3] = a
            return big[::2, 1:3]
        if cont == "readonly":
            a.flags.writeable = False
            return a
        if cont == "int":                # integer-valued coordinates handed over as an integer array
            return a.astype(np.int64) if all(float(x) == int(x) for p in X for x in p) else a
        if cont == "intlist":            # ... or as nested lists of Python ints (np.array of it is an integer array)
            return [[int(x) for x in p] for p in X] if all(float(x) == int(x) for p in X for x in p) else a
        raise ValueError("unknown container %r" % (cont,))

    def f(x):
        x = float(x)
        return x if x == x and abs(x) != float("inf") else repr(x)
    outs = []
    for c in cases:
        def call():
            F, G, H, s = c["F"], c["G"], c["H"], c["sigma"]
            kind = c.get("skind", "float")
            if kind == "int":
                s = int(s)
            elif kind == "npint":
                s = np.int64(int(s))
            t = c["shift"]
            cont, memo = c.get("cont", "array"), {}

            def A(X):
                # "shared": equal diagrams of one case are THE SAME object in every call of the case
                if c.get("shared"):
                    return history.intern(memo, X, lambda: build(X, cont))
                return build(X, cont)
            # the history first (same process, same diagram contents, other sigmas), incl. a diagram against itself
            hist = [[f(heat(A(F), A(G), ps)), f(heat(A(F), A(F), ps))] for ps in c.get("pre", [])]
            thunks = [
                ("sf", lambda: heat(A(F), A(G), float(c["sigma"]))),
                ("self", lambda: heat(A(F), A(F), s)),
                ("v", lambda: heat(A(F), A(G), s)),
                ("sym", lambda: heat(A(G), A(F), s)),
                ("perm", lambda: heat(A(F), A([F[i] for i in c["perm"]]), s)),
                ("dg", lambda: heat(A(_with_diag(F, c["diag"], c["diag_pos"])), A(_with_diag(G, c["diag"][::-1], c["diag_pos"])), s)),
                ("sh", lambda: heat(A([[b + t, d + t] for b, d in F]), A([[b + t, d + t] for b, d in G]), s)),
                ("FH", lambda: heat(A(F), A(H), s)),
                ("HG", lambda: heat(A(H), A(G), s))]
            lite = c.get("lite")       # large diagrams: only the listed calls (each costs |F|^2 + |G|^2 kernel terms)
            o = {"hist": hist}
            for k, th in thunks:
                if not lite or k in lite:
                    o[k] = f(th())
            o["w1"] = None
            if not lite:
                try:
                    o["w1"] = f(wasserstein(arr(F), arr(G))) if wasserstein else None
                except Exception as e:
                    o["w1"] = None
            return o
        outs.append(core.guarded(call))
    return outs


# ---------------------------------------------------------------------------------- the spec, in Python
getcontext().prec = 60
_PI = Decimal("3.14159265358979323846264338327950288419716939937510582097494459")


def _k(F, G, sigma):
    """Reininghaus et al. kernel, 60-digit decimal arithmetic on the exact binary inputs.
    Returns (k, k_plus): k_plus adds the two exponentials of every term instead of subtracting them
    (the size of what the code's floating-point sum is made of)."""
    s8 = 8 * Decimal(sigma)
    tot, plus = Decimal(0), Decimal(0)
    for b, d in F:
        b, d = Decimal(b), Decimal(d)
        for x, y in G:
            x, y = Decimal(x), Decimal(y)
            e1 = (-((b - x) ** 2 + (d - y) ** 2) / s8).exp()
            e2 = (-((b - y) ** 2 + (d - x) ** 2) / s8).exp()
            tot += e1 - e2
            plus += e1 + e2
    return tot / (s8 * _PI), plus / (s8 * _PI)


FAST_PAIRS = 400      # kernel sums with more pairs than this are evaluated by _k_fast


def _ld2dec(x):
    """Exact Decimal value of an extended-precision number (two binary64 pieces)."""
    hi = float(x)
    return Decimal(hi) + Decimal(float(x - type(x)(hi)))


def _k_fast(F, G, sigma):
    """The same closed form as _k for LARGE diagrams, evaluated in x87 extended precision (64-bit significand,
    eps 1.1e-19) with numpy: the binary64 inputs are exact there, every term is formed from the coordinate
    differences and carries a relative error below (3|a| + 3) * 1.1e-19 for the exponent a (|a| e^a <= 0.37), and
    the pairwise np.sum adds at most log2(#terms) * 1.1e-19 * k_plus: together below 1e-17 * k_plus, three orders
    of magnitude under the comparison tolerance.  None when the platform's long double is not that format."""
    import numpy as np
    L = np.longdouble
    if np.finfo(L).eps > 2e-19:
        return None
    A = np.array(F, dtype=float).reshape(-1, 2).astype(L)
    B = np.array(G, dtype=float).reshape(-1, 2).astype(L)
    s8 = L(8) * L(float(sigma))
    b, d = A[:, 0][:, None], A[:, 1][:, None]
    x, y = B[:, 0][None, :], B[:, 1][None, :]
    e1 = np.exp(-((b - x) ** 2 + (d - y) ** 2) / s8)
    e2 = np.exp(-((b - y) ** 2 + (d - x) ** 2) / s8)
    den = 8 * Decimal(sigma) * _PI
    return _ld2dec(np.sum(e1 - e2)) / den, _ld2dec(np.sum(e1 + e2)) / den


def _kk(F, G, sigma):
    if len(F) * len(G) > FAST_PAIRS:
        r = _k_fast(F, G, sigma)
        if r is not None:
            return r
    return _k(F, G, sigma)


_memo = {}
TOL_COEF = Decimal("3e-14")


def _tol_coef(F, G):
    """3e-14 for every diagram of the original design (<= 15 points); beyond that the a-priori bound of a
    binary64 sum of P = max(|F|,|G|)^2 terms in ANY order, (P + 8) * 1.2e-16 (module docstring)."""
    P = max(len(F), len(G)) ** 2
    return max(TOL_COEF, Decimal("1.2e-16") * (P + 8))


def _rad_tol(F, G, sigma):
    key = (core.sha([F, G]), sigma)
    if key not in _memo:
        (kff, pff), (kgg, pgg), (kfg, pfg) = _kk(F, F, sigma), _kk(G, G, sigma), _kk(F, G, sigma)
        r = kff + kgg - 2 * kfg
        K2 = pff + pgg + 2 * pfg
        tol2 = _tol_coef(F, G) * K2 + Decimal("1e-300")
        _memo[key] = (r, tol2, K2)
    return _memo[key][:2]


def _w1(F, G):
    """1-Wasserstein distance (Euclidean ground metric, perpendicular distance to the diagonal), own code."""
    import numpy as np
    from scipy.optimize import linear_sum_assignment
    n, m = len(F), len(G)
    if n + m == 0:
        return 0.0
    C = np.zeros((n + m, n + m))
    for i, (b, d) in enumerate(F):
        for j, (x, y) in enumerate(G):
            C[i, j] = math.hypot(b - x, d - y)
        C[i, m:] = abs(d - b) / math.sqrt(2)
    for j, (x, y) in enumerate(G):
        C[n:, j] = abs(y - x) / math.sqrt(2)
    r, cidx = linear_sum_assignment(C)
    return float(C[r, cidx].sum())


def _num(x):
    return isinstance(x, (int, float)) and x == x and abs(x) != float("inf")


ALL_KEYS = ("v", "sym", "perm", "dg", "sh", "FH", "HG")


def predicate(c, o):
    if "error" in o:
        return False, "exception: %s" % o
    F, G, H, s = c["F"], c["G"], c["H"], c["sigma"]
    # a "lite" case (large diagrams) asked for some of the calls only: exactly those must be there and are
    # checked; every other case must carry all of them
    keys = [k for k in ALL_KEYS if k in c["lite"]] if c.get("lite") else list(ALL_KEYS)
    for k in keys:
        if not _num(o[k]):
            return False, "nan: heat value %s = %s is not a finite number" % (k, o[k])
        if o[k] < 0:
            return False, "negative: heat value %s = %r" % (k, o[k])
    for ps, hv in zip(c.get("pre", []), o.get("hist", [])):
        if not _num(hv[0]) or not _num(hv[1]):
            return False, "nan: history value at sigma %r is %s" % (ps, hv)
        hr, htol = _rad_tol(F, G, ps)
        if abs(Decimal(hv[0]) ** 2 - max(hr, Decimal(0))) > htol:
            return False, "history: heat^2 at sigma %r (call sequence %s) = %r but the formula gives %s" % (
                ps, c["pre"], hv[0] ** 2, max(hr, Decimal(0)))
        if Decimal(hv[1]) ** 2 > _rad_tol(F, F, ps)[1]:
            return False, "history: heat(F, F) at sigma %r = %r, not 0" % (ps, hv[1])
    for k in ("sf", "self"):
        if k in o and not _num(o[k]):
            return False, "nan: heat value %s = %s is not a finite number" % (k, o[k])
    has_v = "v" in keys
    if has_v:
        r, tol2 = _rad_tol(F, G, s)
        r0 = max(r, Decimal(0))
        v2 = Decimal(o["v"]) ** 2
        if abs(v2 - r0) > tol2:
            return False, "formula: heat^2 = %r but k(F,F)+k(G,G)-2k(F,G) = %s (tolerance %s; |F| = %d, |G| = %d)" % (
                float(v2), r0, tol2, len(F), len(G))
        e = float(tol2.sqrt())
        if "sf" in o and abs(Decimal(o["sf"]) ** 2 - v2) > 2 * tol2:
            return False, "sigma-type: heat with sigma passed as %s = %r, as float = %r" % (c.get("skind"), o["v"], o["sf"])
    if "self" in o and Decimal(o["self"]) ** 2 > _rad_tol(F, F, s)[1]:
        return False, "self: heat(F, F) = %r, not 0" % o["self"]
    if has_v and "sym" in keys and abs(Decimal(o["sym"]) ** 2 - v2) > 2 * tol2:
        return False, "symmetry: heat(G,F) = %r, heat(F,G) = %r" % (o["sym"], o["v"])
    if "perm" in keys and Decimal(o["perm"]) ** 2 > _rad_tol(F, F, s)[1]:
        return False, "reorder: heat(F, reordered F) = %r, not 0" % o["perm"]
    if not has_v:
        return True, ""
    if "dg" in keys and abs(Decimal(o["dg"]) ** 2 - v2) > 2 * tol2:
        return False, "diagonal: adding diagonal points changed %r to %r" % (o["v"], o["dg"])
    # translation moves the inputs by rounding (b + t is rounded): allow the kernel's Lipschitz response
    # (heat_stability) to exactly that perturbation, computed in rational arithmetic
    if "sh" in keys:
        t = float(c["shift"])
        ulp = float(sum(abs(Fraction(float(x) + t) - (Fraction(float(x)) + Fraction(t))) for p in F + G for x in p)) * 1.5
        lip = ulp / (4 * s * math.sqrt(math.pi))
        if abs(Decimal(o["sh"]) ** 2 - v2) > 2 * tol2 + Decimal(2 * lip * (o["v"] + o["sh"] + lip)):
            return False, "translation: heat of the diagrams shifted by %r is %r, unshifted %r" % (c["shift"], o["sh"], o["v"])
    if "FH" in keys and "HG" in keys:
        eFH, eHG = float(_rad_tol(F, H, s)[1].sqrt()), float(_rad_tol(H, G, s)[1].sqrt())
        if o["v"] > o["FH"] + o["HG"] + e + eFH + eHG:
            return False, "triangle: d(F,G) = %r > d(F,H) + d(H,G) = %r + %r" % (o["v"], o["FH"], o["HG"])
    w = _w1(F, G)
    bound = w / (4 * s * math.sqrt(math.pi))
    if o["v"] > bound * (1 + 1e-9) + e:
        return False, "stability: heat = %r exceeds W1/(4 sigma sqrt pi) = %r (W1 = %r)" % (o["v"], bound, w)
    if _num(o.get("w1")) and o["v"] > o["w1"] / (4 * s * math.sqrt(math.pi)) * (1 + 1e-7) + e + 1e-7 * o["w1"]:
        return False, "stability: heat = %r exceeds persim.wasserstein/(4 sigma sqrt pi), W1 = %r" % (o["v"], o["w1"])
    return True, ""


def nontrivial(c, o):
    off = lambda X: [p for p in X if p[0] != p[1]]
    if not off(c["F"]) or not off(c["G"]):
        return False
    return len(c["F"]) >= 2 or len(c["G"]) >= 2 or c.get("cls") in ("reorder", "near")


# ---------------------------------------------------------------------------------- the model, inside Coq
HEADER = """From Coq Require Import Reals List Lra.
From Interval Require Import Tactic.
From Persim Require Import Model.HeatM Corr.HeatCorr.
Import ListNotations.
Open Scope R_scope.
"""


def _coq_dgm(X):
    return "(" + core.coq_list(["(%s, %s)" % (core.coq_R(float(b)), core.coq_R(float(d))) for b, d in X]) + " : list pt)"


def _stmt(c, o):
    if "error" in o or not _num(o.get("v")):
        return None
    _, tol2 = _rad_tol(c["F"], c["G"], c["sigma"])
    return "heat_agrees %s %s %s %s %s" % (core.coq_R(float(c["sigma"])), _coq_dgm(c["F"]), _coq_dgm(c["G"]),
                                           core.coq_R(float(o["v"])), core.coq_R(Fraction(tol2)))


COQ_PAIRS = 300     # the original design stays below 150


def coq_jobs(cases, outs):
    return []


def coq_judge(cases, outs, results):
    verdicts = ["disagree:not-expressible (nan/inf or exception where the model returns a real number)"] * len(cases)
    lemmas, idx = [], []
    for i, (c, o) in enumerate(zip(cases, outs)):
        pairs = len(c["F"]) ** 2 + len(c["G"]) ** 2 + len(c["F"]) * len(c["G"])
        if pairs > COQ_PAIRS:
            # an interval certificate over thousands of exponentials is out of reach; these cases are judged by
            # the predicate alone (closed form in extended precision)
            verdicts[i] = "skip:%d kernel terms, no interval certificate above %d" % (pairs, COQ_PAIRS)
            continue
        st = _stmt(c, o)
        if st is not None:
            idx.append(i)
            lemmas.append((st, "heat_case."))
    ok, _ = core.prove_lemmas(PID, HEADER, lemmas, chunk=4)
    for i, good in zip(idx, ok):
        verdicts[i] = "agree" if good else "disagree:interval certificate |impl^2 - model^2| <= TOL2 not provable"
    return verdicts


def shrink_candidates(c):
    n_big = max(len(c["F"]), len(c["G"]))
    if n_big > 16:
        # large diagrams: every candidate costs a full run, so first ask for fewer calls ...
        cur = c.get("lite") or list(ALL_KEYS)
        for ks in (["v"], ["perm"], ["v", "sym"]):
            if set(ks) < set(cur):
                d = dict(c); d["lite"] = ks; yield d
    for key in ("F", "G", "H"):
        X = c[key]
        if len(X) > 16:
            # ... then drop halves, quarters, eighths (the size itself is usually what matters)
            for parts in ((2, 4, 8) if len(X) > 64 else (2, 4, 8, 16)):
                step = -(-len(X) // parts)
                for j in range(0, len(X), step):
                    d = dict(c)
                    d[key] = X[:j] + X[j + step:]
                    if key == "F":
                        d["perm"] = list(range(len(d["F"])))[::-1]
                    yield d
        elif len(X) > (1 if key == "H" else 0):
            for j in range(len(X)):
                d = dict(c)
                d[key] = X[:j] + X[j + 1:]
                if key == "F":
                    d["perm"] = list(range(len(d["F"])))[::-1]
                yield d
    if 3 <= len(c["F"]) == len(c["G"]) <= 16:
        # equal sizes may be what matters (look-alike diagrams): drop one point of each, identical points first
        F, G = c["F"], c["G"]
        ij = [(i, j) for i in range(len(F)) for j in range(len(G))]
        for i, j in sorted(ij, key=lambda t: list(F[t[0]]) != list(G[t[1]])):
            d = dict(c)
            d["F"], d["G"] = F[:i] + F[i + 1:], G[:j] + G[j + 1:]
            d["perm"] = list(range(len(d["F"])))[::-1]
            yield d
    if c.get("shared"):
        d = dict(c); d["shared"] = False; yield d
    if c.get("cont", "array") != "array":
        d = dict(c); d["cont"] = "array"; yield d
    if len(c["diag"]) > 1:
        d = dict(c); d["diag"] = c["diag"][:1]; d["diag_pos"] = c["diag_pos"][:1]; yield d
    pre = c.get("pre", [])
    for j in range(len(pre)):
        d = dict(c); d["pre"] = pre[:j] + pre[j + 1:]; yield d
    if c["sigma"] != 0.4 and c.get("skind", "float") == "float" and not pre:
        d = dict(c); d["sigma"] = 0.4; yield d
