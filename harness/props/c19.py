"""C19 - the public API is pure, repeatable and representation-independent.

Static half: harness/effects_translator.py regenerates an effect-IR program for every public entry
point from the CURRENT source ($PERSIM_REPO); one obligation ``pure_ok prog_f = true`` (and, outside
gromov_hausdorff.py, ``has_rand prog_f = false``) per entry point is kernel-checked by ``vm_compute``
(``extra_obligations``).  coq/Properties/C19.v proves the checker sound for every program.

Dynamic half (the tie and the failing-input search): for every public entry point, deep snapshots of
every argument before / after each call, repeated + interleaved calls, five equal-valued forms of a
diagram (float64 / int64 / int32 arrays, nested list, strided float64 view) also under non-default
weight / kernel / range parameters that make intermediate values fractional, one estimator object swept
over all forms, landscape tools on landscapes that already share the common grid, seeded mGH runs,
plotting on the Agg backend; diagrams in narrow element types (float32 / float16 / uint8 / int16 arrays, Fortran order)
whose values are exactly representable there; adjacency matrices in every scipy.sparse format WITH explicitly stored
zeros (the container and its storage arrays snapshotted byte for byte) and as strided / Fortran-ordered dense arrays;
whatever a call returned is overwritten before the call is repeated.  ``predicate`` = all of that for one case."""
import json
import math
import os
import re

from .. import core

PID = "C19"
THEOREMS = ["pure_ok_sound", "pure_ok_sound_all_caller_objects", "pure_ok_rejects_opaque", "rand_free_body",
            "checker_rejects_and_accepts"]
RULE = ("static: one regenerated obligation per public entry point of the current tree. dynamic: seeded "
        "cases per entry point over classes {random float diagrams, integer-valued diagrams in five equal-valued "
        "forms (float64, int64, int32 arrays, nested lists of Python ints, a non-contiguous float64 view), "
        "non-integral diagrams as contiguous / strided float64 array / nested list, "
        "infinite deaths, empty / single point, skew on/off, kernels/weights, landscape "
        "arithmetic, graphs as list/dense/CSR} + classes narrow / narrow_int for every entry point that takes diagrams "
        "(narrow: random values rounded to float32 with deaths > 2.5 x births and births of mixed magnitude, so that "
        "single-precision differences round, as float64 / float32 / Fortran-ordered float64 array / nested list; "
        "narrow_int: integers 0..12 as float64 / int64 / uint8 / int16 / float32 / float16 / Fortran-ordered array / "
        "list; the narrow floating-point forms are compared with the float64 form at the normal tolerance for the entry "
        "points that work in float64 whatever they are given (NARROW_TIGHT: bottleneck, wasserstein, exact landscapes, imager fit, plots; "
        "histories made of them), at 2e-5 (float32) / 5e-2 (float16) where the pinned code computes in the element "
        "type of the diagram, and not at all where bars are snapped to grid nodes; narrow integer forms always at the "
        "normal tolerance, sliced_wasserstein 2e-5) + class containers for gromov_hausdorff (adjacency matrices built "
        "from triples in csr / csc / coo / lil / bsr / dok / dia storage with EXPLICITLY STORED ZEROS at some non-edges, "
        "csr also with unsorted column indices, Fortran-ordered and strided dense arrays, element types int64 / float64 "
        "/ bool / int8 / float32, pairwise and all-pairs calling form, one object in both argument positions; a sparse "
        "argument is snapshotted as format + shape + number of stored entries + its current storage arrays byte for "
        "byte, and the storage array objects of before the call as well) + after every call the ndarrays / lists it "
        "returned are overwritten (NaN / 77 / an appended item) unless they are or share memory with an argument, so "
        "that the repeated call and the later items of a call-order family fail when a result cache hands out its "
        "stored object + class integral_params for the imager, the weight functions and "
        "the estimator sweep (integral diagrams under non-default secondary parameters that make the intermediate "
        "values fractional: a linear ramp spanning the persistences of the case with odd width, persistence ** n "
        "with n in {0.5, 1.5, 2.5}, a uniform kernel with non-integral half-width, general / isotropic Gaussian "
        "covariances, explicit birth / persistence ranges; the weight functions are also called directly on "
        "birth / persistence columns of every form) + estimator_sweep (ONE PersistenceImager / PersImage / "
        "PersistenceLandscaper object applied to all forms of the same diagrams one after the other, with or "
        "without re-fitting; fitted state and output must agree between the forms and when the whole sweep is "
        "repeated on the same object); forms are compared at relative tolerance 1e-12 (sliced Wasserstein 1e-9), "
        "and a form that raises while its wider sibling (float64 for the strided view, int64 for int32) is accepted "
        "counts as a representation dependence + landscape tools (lc_approx / average_approx / snap_pl) on approximate "
        "landscapes that already live on the common grid (one shared explicit grid; first landscape covers the others) "
        "+ call-order families (same diagrams x secondary parameters, equal "
        "total size with different splits, both argument orders) evaluated forward / reversed / shuffled in fresh "
        "interpreters and 3x with junk allocations in between, results identical at tolerance 0; a case is non-trivial when the call returned a value "
        "(no exception) on at least one non-empty array/list argument, so that there was something to "
        "mutate; distinct = distinct (entry point, JSON input)")
TRUSTED_BASE = [
    "Coq 8.16.1 kernel incl. vm_compute (per-entry-point obligations are vm_cast proofs)",
    "harness/effects_translator.py: SSA renaming, inlining of persim-internal calls, ghost prelude for "
    "methods, and its tables of NumPy/SciPy/matplotlib/stdlib effect summaries (EXT_FUNCS, EXT_METHODS, ATTR_*)",
    "the heap semantics of Model/EffectIR.v as the meaning of the IR (a view is its base object)",
    "dynamic half: the snapshot / comparison code of harness/props/c19.py (sparse containers: _snap_sparse; result "
    "overwriting: _scribble_result + harness/history.py scribble)",
    "the table's module-level NumPy summaries are audited on every real call of the dynamic half (np proxy: "
    "argument bytes before/after, shared memory of the result); method summaries (ndarray.astype, list.append, "
    "matplotlib Axes methods ...) are not audited",
]
ASSUMPTIONS = [
    "user-supplied weight / kernel callables of PersistenceImager do not write their arguments (they are "
    "resolved to persim's own weight and kernel functions)",
    "arithmetic operators return new objects; operators of persim's landscape classes are entry points of "
    "their own and are inlined only when applied to `self`",
    "np.array / np.copy / astype(copy=True) / deepcopy results share no memory with their argument "
    "(numeric dtypes)",
    "attributes of an estimator are written only by the methods of its class: the body of a method contains "
    "the flows of every other method on the same self (ghost prelude, IR statement GStore), and those "
    "methods are assumed to meet their own obligation (their stores do not hit caller-owned objects); `self` "
    "starts without contents; rebinding an attribute of an object argument (lazy landscape cache) is not a "
    "modification of an array or list",
    "entry points = functions/classes in a module's __all__ (all public functions where there is none) + "
    "images._transform; helpers that are not exported are analysed inlined at their call sites only",
    "code under `if ... PERSIM_VERIF ...` is an add-only verification hook and is skipped",
    "the IR abstracts values: absence of writes is proved, equality of repeated results and "
    "representation independence are tested by the dynamic half only",
    "'integer arrays' of the property text include int32, int16 and uint8 as well as int64 arrays, 'floating-point "
    "arrays' include non-contiguous and Fortran-ordered float64 arrays and float32 / float16 arrays whose values are "
    "exactly representable in them",
    "narrow floating-point diagrams: on the pinned tree only bottleneck, wasserstein, the exact landscapes (since "
    "/repo 3827d1a), PersistenceImager.fit and the plots work in float64 whatever they are given (NARROW_TIGHT) and "
    "are held to the normal tolerance; heat, sliced_wasserstein, persistent_entropy, the imagers and the grid "
    "landscapes compute in the element type of a float32 "
    "/ float16 diagram (results deviate by ~1e-7 relative for float32; grid landscapes can move a bar to the "
    "neighbouring node) - a representation dependence under the strict reading of the property, REPORTED and not "
    "suppressed by a looser predicate elsewhere: these entry points are compared at the resolution of the narrow "
    "type only (NARROW_TOL / NARROW_GRID), so a change that makes one of THEM compute in single precision is not seen",
    "heat on uint8 diagrams returned NaN ((p - q) ** 2 wrapped around in uint8): genuine defect found by this check, "
    "repaired by /repo bc9cf64 (fixes/C19_heat_unsigned_input.patch); the uint8 form is generated for heat",
    "graph containers are checked for purity and repeatability only; that a sparse and the equal-valued dense "
    "adjacency matrix give the same bounds is not part of this property (C17)",
    "returning an argument object itself (or a view of it) is allowed; such results are not overwritten",
]
COQ_DEPS = ["Proofs/EffectP.vo"]
HASHSEEDS = ["0"]
HASHSEEDS_THOROUGH = ["0", "1", "2"]
RAND_FILES = ("persim/gromov_hausdorff.py",)
FINDING_TO_LANDSCAPE = "C19-to-landscape-inplace"

_FAILED = []          # entry points whose obligation failed in this run (used by search_generate)

OBL_HEADER = ("From Coq Require Import List PArith.\nFrom Persim Require Import Model.EffectIR.\n"
              "Import ListNotations.\nOpen Scope positive_scope.\n\n")


def extra_obligations(tier):
    from .. import effects_translator as T
    global _FAILED
    _FAILED = []
    problems = []
    try:
        text, entries, targets = T.translate_tree(core.REPO)
    except Exception as e:  # translator crash: fail closed
        return {"obligations": 1, "discharged": 0, "problems": ["effects translator failed: %r" % (e,)]}
    d = core.WORK / PID
    d.mkdir(parents=True, exist_ok=True)
    (d / "Programs.v").write_text(text)
    defs = {}
    for m in re.finditer(r"Definition (\w+) : prog := .*?\]%positive \|\}\.", text, re.S):
        defs[m.group(1)] = m.group(0)
    jobs = []
    for e in entries:
        body = OBL_HEADER + defs[e["name"]] + "\n"
        body += "Lemma pure_%s : pure_ok %s = true.\nProof. vm_cast_no_check (eq_refl true). Qed.\n" % (e["name"], e["name"])
        if e["file"] not in RAND_FILES:
            body += "Lemma norand_%s : has_rand %s = false.\nProof. vm_cast_no_check (eq_refl false). Qed.\n" % (e["name"], e["name"])
        jobs.append(("obl_" + e["name"], body))
    res = core.run_coq_jobs(PID + "_obl", jobs, timeout=600)
    n_obl = n_dis = 0
    failed = []
    for e in entries:
        n_obl += 1
        if res["obl_" + e["name"]].ok:
            n_dis += 1
        else:
            failed.append(e)
    # diagnosis of the failed ones
    if failed:
        djobs = [("diag_" + e["name"], OBL_HEADER + defs[e["name"]] +
                  "\nEval vm_compute in (pure_ok %s, has_rand %s, offenders %s).\n" % (e["name"], e["name"], e["name"]))
                 for e in failed]
        dres = core.run_coq_jobs(PID + "_diag", djobs, timeout=600)
        for e in failed:
            out = " ".join(dres["diag_" + e["name"]].out.split())
            offs = []
            for m in re.finditer(r"(Mutate|Opaque) (\d+)|Store (\d+) (\d+) (\d+)", out):
                v = int(m.group(2) or m.group(3))
                offs.append("%s %s" % (m.group(1) or "Store", e["hints"].get(v, "?")))
            why = []
            if "(false," in out or "= (false" in out:
                why.append("pure_ok = false")
            if e["file"] not in RAND_FILES and e["has_rand"]:
                why.append("uses the global RNG outside gromov_hausdorff.py")
            if e["opaque"]:
                why.append("not in the translator's tables: " + "; ".join(e["opaque"][:4]))
            if offs:
                why.append("writes that may reach a caller-owned object: " + "; ".join(sorted(set(offs))[:6]))
            problems.append("obligation for %s (%s:%d) fails: %s" % (e["qual"], e["file"], e["line"], " | ".join(why) or "coq error"))
            _FAILED.append({"qual": e["qual"], "file": e["file"], "line": e["line"], "why": why})
    return {"obligations": n_obl, "discharged": n_dis, "problems": problems,
            "entry_points": len(entries), "external_call_targets": len(targets),
            "statements": sum(e["n_stmts"] for e in entries),
            "translator_tables": {"ext_functions": len(T.EXT_FUNCS), "ext_methods": len(T.EXT_METHODS)},
            "failed_entry_points": [f["qual"] for f in _FAILED],
            "coq_wall_s": round(sum(r.wall for r in res.values()), 1)}


# ================================================================================================
# dynamic half
# ================================================================================================
# Every entry point handler takes (case, rep) and returns (args, thunk): ``args`` are the caller-owned
# objects handed to the implementation, ``thunk()`` performs the call and returns the result.
# forms of one diagram: float64 array (C order), int64 array, nested list (Python ints where the value is
# integral), int32 array, and "fview" = an equal-valued float64 array that is a NON-CONTIGUOUS view (every other
# column of a wider array whose remaining columns hold junk)
# NARROW forms (classes "narrow" / "narrow_int"; the values of such a case are exactly representable in the form):
# "f32" / "f16" = float32 / float16 arrays, "uint8" / "int16" = narrow (unsigned) integer arrays, "forder" = a
# Fortran-ordered float64 array
NARROW = ("f32", "f16", "uint8", "int16", "forder")
REPS = ("float", "int", "list", "int32", "fview") + NARROW
FI = ("float", "int", "int32", "fview") + NARROW
INT_FORMS = ("int", "int32")
# a form that raises while its wider sibling is accepted is a representation dependence
SIBLINGS = (("float", "fview"), ("int", "int32"), ("float", "forder"), ("float", "f32"), ("float", "f16"), ("int", "int16"), ("int", "uint8"))
# Entry points that work in float64 whatever the element type of the diagrams handed in (they convert on entry):
# there the narrow floating-point forms must agree with the float64 form at the module's normal tolerance.  The other
# entry points of the pinned tree compute in the element type of a float32 / float16 diagram (and sliced_wasserstein
# projects integer diagrams onto float32 directions): for them a narrow form is compared at the resolution of the
# narrow type (NARROW_TOL), which still catches wrap-around, NaN, a rejected form or a wrong formula.
NARROW_TIGHT = {"bottleneck", "wasserstein", "PersistenceImager.fit", "matching_plots", "plot_diagrams", "PersistenceImager.plot_diagram",
                "PersLandscapeExact", "PersLandscapeExact.arith"}    # exact landscapes: binary64 since /repo 3827d1a
NARROW_TIGHT_OPS = {"bottleneck", "wasserstein", "plot", "exact", "exact_add"}             # ops of a "history" case
NARROW_TOL = {"f32": 2e-5, "f16": 5e-2}
# ... except where a result is a DISCONTINUOUS function of the input (bars snapped to grid nodes by floor / ceil): a
# 1e-7 relative deviation of an intermediate quotient moves a bar to the neighbouring node, so the values of the
# float32 / float16 forms are not compared there at all (mutation, repeatability and acceptance still are)
NARROW_GRID = {"PersLandscapeApprox", "PersLandscapeApprox.arith", "PersistenceLandscaper", "landscapes.tools", "estimator_sweep"}
NARROW_GRID_OPS = {"approx", "landscaper", "persimage"}
# unsigned diagrams on which the pinned tree is known to fail (reported, fixes/C19_narrow_input_dtypes.patch): heat
# computes (p - q) ** 2 in uint8, wraps around and returns NaN.  Remove the entry once the fix is in /repo.
NARROW_OPEN = {}      # heat on uint8 diagrams: repaired by /repo bc9cf64, generated again


def _form_tol(c, rep):
    """Relative tolerance at which form `rep` of case c is compared with the first accepted form."""
    base = c.get("rep_tol", 1e-12)
    ep = c["ep"]
    tight = ep in NARROW_TIGHT or (ep == "history" and set(c.get("ops", ["?"])) <= NARROW_TIGHT_OPS)
    if rep in NARROW_TOL and not tight:
        if ep in NARROW_GRID or (ep == "history" and set(c.get("ops", [])) & NARROW_GRID_OPS):
            return None
        return max(base, NARROW_TOL[rep])
    if rep in ("uint8", "int16") and (ep == "sliced_wasserstein" or (ep == "history" and "sliced" in c.get("ops", []))):
        return max(base, NARROW_TOL["f32"])
    return base


def _conv(dgm, rep, ncol=2):
    import numpy as np
    rows = [[float("inf") if x == "inf" else x for x in r] for r in dgm]
    if rep == "list":
        return [[(int(x) if (x == x and abs(x) != float("inf") and float(x).is_integer()) else x) for x in r] for r in rows]
    if rep == "int":
        return np.array(rows, dtype=np.int64).reshape(-1, ncol)
    if rep == "int32":
        return np.array(rows, dtype=np.int32).reshape(-1, ncol)
    if rep in ("f32", "f16", "uint8", "int16"):
        return np.array(rows, dtype={"f32": np.float32, "f16": np.float16, "uint8": np.uint8, "int16": np.int16}[rep]).reshape(-1, ncol)
    a = np.array(rows, dtype=np.float64).reshape(-1, ncol)
    if rep == "forder":
        return np.asfortranarray(a)
    if rep == "fview":
        base = np.full((a.shape[0], 2 * ncol), -77.25)
        v = base[:, ::2]
        v[...] = a
        return v
    return a


def _eps():
    """name -> (handler, accepted forms).  Built lazily inside the implementation subprocess."""
    import sys
    import numpy as np
    import persim
    from persim import images_kernels, images_weights
    from persim.landscapes import (PersLandscapeExact, PersLandscapeApprox, PersistenceLandscaper,
                                   plot_landscape, plot_landscape_simple)
    from persim.landscapes import tools as ltools
    from persim.landscapes import auxiliary as laux
    import matplotlib
    matplotlib.use("Agg")
    import matplotlib.pyplot as plt
    gh = sys.modules["persim.gromov_hausdorff"]
    E = {}

    def two(fn, **kwf):
        def h(c, rep):
            a, b = _conv(c["d1"], rep), _conv(c["d2"], rep)
            kw = {k: c[k] for k in kwf if k in c}
            return [a, b], (lambda: fn(a, b, **kw))
        return h
    E["bottleneck"] = (two(persim.bottleneck, matching=1), REPS)
    E["wasserstein"] = (two(persim.wasserstein, matching=1), REPS)
    E["heat"] = (two(persim.heat, sigma=1), REPS)
    E["sliced_wasserstein"] = (two(persim.sliced_wasserstein, M=1), FI)

    def entropy(c, rep):
        ds = [_conv(d, rep) for d in c["dgms"]]
        arg = ds[0] if c.get("single") else ds
        from persim.persistent_entropy import persistent_entropy as _pe
        return [arg], (lambda: _pe(arg, keep_inf=c.get("keep_inf", False),
                                                         val_inf=c.get("val_inf"), normalize=c.get("normalize", False)))
    E["persistent_entropy"] = (entropy, FI)

    def imager(c):
        kw = {}
        if c.get("kernel") == "uniform":
            kw = {"kernel": "uniform", "kernel_params": {"width": 1.0, "height": 1.0}}
        elif c.get("kernel") == "gauss_general":
            kw = {"kernel_params": {"sigma": [[1.0, 0.5], [0.5, 2.0]]}}
        if c.get("weight") == "linear_ramp":
            kw.update(weight="linear_ramp", weight_params={"low": 0.0, "high": 1.0, "start": 0.0, "end": 2.0})
        # non-default parameters chosen by the generator (fresh dict objects per estimator)
        if c.get("weight_params") is not None:
            kw["weight_params"] = dict(c["weight_params"])
        if c.get("kernel_params") is not None:
            kw["kernel_params"] = json.loads(json.dumps(c["kernel_params"]))
        for k in ("birth_range", "pers_range"):
            if c.get(k) is not None:
                kw[k] = tuple(c[k])
        return persim.PersistenceImager(pixel_size=c.get("pixel_size", 0.5), **kw)

    def img_call(meth):
        def h(c, rep):
            ds = [_conv(d, rep) for d in c["dgms"]]
            arg = ds[0] if c.get("single") else ds
            pim = imager(c)
            extra = {}
            if meth == "transform" and c.get("n_jobs") is not None:
                extra["n_jobs"] = c["n_jobs"]
            wp, kp = pim.weight_params, pim.kernel_params
            return [arg, wp, kp], (lambda: getattr(pim, meth)(arg, skew=c.get("skew", True), **extra))
        return h
    for m in ("fit", "transform", "fit_transform"):
        E["PersistenceImager." + m] = (img_call(m), REPS)

    def img_state(c, rep):
        # setters / properties / repr: the configuration tuples handed in must stay untouched
        br, pr = tuple(c["birth_range"]), tuple(c["pers_range"])
        pim = persim.PersistenceImager(birth_range=br, pers_range=pr, pixel_size=c["pixel_size"])
        def run():
            pim.pixel_size = c["pixel_size"] / 2
            pim.birth_range = br
            pim.pers_range = pr
            return [repr(pim), pim.width, pim.height, list(pim.resolution), list(pim.birth_range), list(pim.pers_range)]
        return [br, pr], run
    E["PersistenceImager.config"] = (img_state, ("float",))

    def img_plot_diagram(c, rep):
        d = _conv(c["dgms"][0], rep)
        pim = imager(c)
        def run():
            fig, ax = plt.subplots()
            try:
                pim.plot_diagram(d, skew=c.get("skew", True), ax=ax)
            finally:
                plt.close(fig)
            return None
        return [d], run
    E["PersistenceImager.plot_diagram"] = (img_plot_diagram, FI)

    def img_plot_image(c, rep):
        d = _conv(c["dgms"][0], "float")
        pim = imager(c)
        img = pim.transform(d, skew=True)
        def run():
            fig, ax = plt.subplots()
            try:
                pim.plot_image(img, ax=ax)
            finally:
                plt.close(fig)
            return None
        return [img], run
    E["PersistenceImager.plot_image"] = (img_plot_image, ("float",))

    def persimage(c, rep):
        ds = [_conv(d, rep) for d in c["dgms"]]
        arg = ds[0] if c.get("single") else ds
        def run():
            import warnings
            with warnings.catch_warnings():
                warnings.simplefilter("ignore")
                pim = persim.PersImage(pixels=(6, 6), spread=c.get("spread"), verbose=False)
            return pim.transform(arg)
        return [arg], run
    E["PersImage.transform"] = (persimage, REPS)

    def to_landscape(c, rep):
        d = _conv(c["dgms"][0], rep)
        return [d], (lambda: persim.PersImage.to_landscape(d))
    E["PersImage.to_landscape"] = (to_landscape, FI)

    def kernel_call(c, rep):
        x, y = np.array(c["x"], dtype=float), np.array(c["y"], dtype=float)
        mu = np.array(c["mu"], dtype=float)
        if c["fn"] == "uniform":
            return [x, y, mu], (lambda: images_kernels.uniform(x, y, mu=mu, width=1.5, height=0.5))
        sigma = np.array(c["sigma"], dtype=float)
        return [x, y, mu, sigma], (lambda: images_kernels.gaussian(x, y, mu=mu, sigma=sigma))
    E["images_kernels"] = (kernel_call, ("float",))

    def weight_call(c, rep):
        # birth and persistence columns in the SAME form (float64 / int64 / int32 / strided float64 arrays, or
        # lists of Python numbers - ints where the value is integral), as the imager hands them over
        def col(vals):
            if rep == "list":
                return [r[0] for r in _conv([[v] for v in vals], "list", 1)]
            a = _conv([[v] for v in vals], rep, 1)
            return a[:, 0] if rep in ("fview", "forder") else a.ravel()
        b, p = col(c["x"]), col(c["y"])
        if c["fn"] == "linear_ramp":
            wp = dict(c.get("wp") or {"low": 0.0, "high": 2.0, "start": 0.5, "end": 3.0})
            return [b, p, wp], (lambda: images_weights.linear_ramp(b, p, **wp))
        if rep == "list":
            p = np.array(c["y"], dtype=float)       # p ** n: the documented argument type is an ndarray
        return [b, p], (lambda: images_weights.persistence(b, p, n=c.get("n", 2.0)))
    E["images_weights"] = (weight_call, REPS)

    # ---- landscapes
    def exact_obj(dgm, rep):
        d = _conv(dgm, rep)
        return d, [d]

    def land_exact(c, rep):
        d, dg = exact_obj(c["dgms"][0], rep)
        def run():
            pl = PersLandscapeExact(dgms=dg, hom_deg=0)
            out = [pl.critical_pairs, pl.p_norm(2), pl.sup_norm(), pl[0]]
            return out
        return [dg], run
    E["PersLandscapeExact"] = (land_exact, REPS)

    def land_exact_arith(c, rep):
        d1, g1 = exact_obj(c["dgms"][0], rep)
        d2, g2 = exact_obj(c["dgms"][1], rep)
        a, b = PersLandscapeExact(dgms=g1, hom_deg=0), PersLandscapeExact(dgms=g2, hom_deg=0)
        def run():
            s = {"add": lambda: a + b, "sub": lambda: a - b, "mul": lambda: a * 2.5, "rmul": lambda: 2.5 * a,
                 "div": lambda: a / 4.0, "neg": lambda: -a}[c["op"]]()
            return s.critical_pairs
        return [g1, g2, a, b], run
    E["PersLandscapeExact.arith"] = (land_exact_arith, FI)

    def land_crit(c, rep):
        cp1 = [[list(map(float, p)) for p in f] for f in c["cp1"]]
        cp2 = [[list(map(float, p)) for p in f] for f in c["cp2"]]
        a, b = PersLandscapeExact(critical_pairs=cp1, hom_deg=0), PersLandscapeExact(critical_pairs=cp2, hom_deg=0)
        def run():
            s = {"add": lambda: a + b, "sub": lambda: a - b, "mul": lambda: a * 2.5, "div": lambda: a / 4.0,
                 "neg": lambda: -a, "union": lambda: PersLandscapeExact(critical_pairs=laux.union_crit_pairs(a, b))}[c["op"]]()
            return [s.critical_pairs, s.p_norm(2), s.sup_norm()]
        return [cp1, cp2, a, b], run
    E["PersLandscapeExact.critical_pairs"] = (land_crit, ("float",))

    def land_approx(c, rep):
        d = _conv(c["dgms"][0], rep)
        dg = [d]
        def run():
            pl = PersLandscapeApprox(dgms=dg, hom_deg=0, num_steps=c.get("num_steps", 20), start=c.get("start"), stop=c.get("stop"))
            return [pl.values, pl.p_norm(2), pl.sup_norm(), pl.values_to_pairs(), pl[0]]
        return [dg], run
    E["PersLandscapeApprox"] = (land_approx, FI)

    def land_approx_arith(c, rep):
        g1, g2 = [_conv(c["dgms"][0], rep)], [_conv(c["dgms"][1], rep)]
        kw = dict(hom_deg=0, num_steps=c.get("num_steps", 20), start=c["start"], stop=c["stop"])
        a, b = PersLandscapeApprox(dgms=g1, **kw), PersLandscapeApprox(dgms=g2, **kw)
        va, vb = a.values, b.values
        def run():
            s = {"add": lambda: a + b, "sub": lambda: a - b, "mul": lambda: a * 2.5, "rmul": lambda: 2.5 * a,
                 "div": lambda: a / 4.0, "neg": lambda: -a}[c["op"]]()
            return s.values
        return [g1, g2, va, vb, a, b], run
    E["PersLandscapeApprox.arith"] = (land_approx_arith, FI)

    def land_values(c, rep):
        v = np.array(c["values"], dtype=float)
        def run():
            pl = PersLandscapeApprox(start=0.0, stop=float(v.shape[1] - 1), num_steps=v.shape[1], values=v)
            q = pl * 2.0 - pl
            return [q.values, pl.p_norm(2), pl.sup_norm(), (pl / 2.0).values]
        return [v], run
    E["PersLandscapeApprox.values"] = (land_values, ("float",))

    def landscaper(c, rep):
        X = [_conv(d, rep) for d in c["dgms"]]
        def run():
            t = PersistenceLandscaper(hom_deg=0, num_steps=c.get("num_steps", 15), flatten=c.get("flatten", False),
                                      start=c.get("start"), stop=c.get("stop"))
            if c["op"] == "fit_transform":
                return t.fit_transform(X)
            t.fit(X)
            repr(t)
            return t.transform(X)
        return [X], run
    E["PersistenceLandscaper"] = (landscaper, FI)

    def tools_call(c, rep):
        g1, g2 = [_conv(c["dgms"][0], rep)], [_conv(c["dgms"][1], rep)]
        op = c["op"]
        if op == "death_vector":
            return [g1], (lambda: ltools.death_vector(g1, hom_deg=0))
        if op == "vectorize":
            pl = PersLandscapeExact(dgms=g1, hom_deg=0)
            return [g1, pl], (lambda: ltools.vectorize(pl, num_steps=c.get("num_steps", 15)).values)
        kw = dict(hom_deg=0, num_steps=c.get("num_steps", 15))
        kwa = dict(kw)
        fin = [x for d in c["dgms"][:2] for r in d for x in r if x != "inf"]
        if c.get("grid") in ("shared", "first_covers") and fin:
            # "shared": every landscape on ONE explicit grid (the usual way to make them comparable);
            # "first_covers": the first landscape already lives on the common grid of the list, the others do not
            kwa.update(start=float(min(fin)), stop=float(max(fin)))
            if c["grid"] == "shared":
                kw = kwa
        a, b = PersLandscapeApprox(dgms=g1, **kwa), PersLandscapeApprox(dgms=g2, **kw)
        pls = [a, b]
        if op == "snap_pl":
            return [g1, g2, pls], (lambda: [p.values for p in ltools.snap_pl(pls)])
        if op == "lc_approx":
            coeffs = [0.25, 2.0]
            return [g1, g2, pls, coeffs], (lambda: ltools.lc_approx(pls, coeffs).values)
        return [g1, g2, pls], (lambda: ltools.average_approx(pls).values)
    E["landscapes.tools"] = (tools_call, FI)

    def land_plot(c, rep):
        g1 = [_conv(c["dgms"][0], rep)]
        if c["kind"] == "exact":
            pl = PersLandscapeExact(dgms=g1, hom_deg=0)
        else:
            pl = PersLandscapeApprox(dgms=g1, hom_deg=0, num_steps=12)
        def run():
            try:
                if c["op"] == "simple":
                    fig, ax = plt.subplots()
                    plot_landscape_simple(pl, ax=ax)
                else:
                    plot_landscape(pl, num_steps=25)
            finally:
                plt.close("all")
            return None
        return [g1, pl], run
    E["landscapes.plot"] = (land_plot, ("float",))

    # ---- plotting of diagrams
    def plot_diagrams(c, rep):
        ds = [_conv(d, rep) for d in c["dgms"]]
        arg = ds[0] if c.get("single") else ds
        def run():
            fig, ax = plt.subplots()
            try:
                persim.plot_diagrams(arg, lifetime=c.get("lifetime", False), ax=ax,
                                     xy_range=c.get("xy_range"), plot_only=c.get("plot_only"))
            finally:
                plt.close(fig)
            return None
        extra = [c["xy_range"]] if c.get("xy_range") else []
        return [arg] + extra, run
    E["plot_diagrams"] = (plot_diagrams, FI)

    def matching_plot(c, rep):
        a, b = _conv(c["d1"], rep), _conv(c["d2"], rep)
        fn = persim.bottleneck if c["which"] == "bottleneck" else persim.wasserstein
        _, m = fn(a, b, matching=True)
        labels = ["A", "B"]
        def run():
            fig, ax = plt.subplots()
            try:
                (persim.bottleneck_matching if c["which"] == "bottleneck" else persim.wasserstein_matching)(a, b, m, labels=labels, ax=ax)
            finally:
                plt.close("all")
            return None
        return [a, b, m, labels], run
    E["matching_plots"] = (matching_plot, ("float",))

    # ---- mGH
    def graph(adj, form, zeros=(), dtype="int64", unsorted=False):
        """One adjacency matrix in the container `form`.  Sparse forms are built from triples: the edges (value 1)
        plus the positions `zeros` (non-edges) stored EXPLICITLY with value 0, as after A[i, j] = 0, A.multiply(mask)
        or thresholding; `unsorted` stores the column indices of every csr row in descending order."""
        import scipy.sparse as sps
        if form == "list":
            return [list(r) for r in adj]
        if form == "csr":
            return sps.csr_matrix(np.array(adj))
        dt = {"int64": np.int64, "float64": np.float64, "bool": np.bool_, "int8": np.int8, "float32": np.float32}[dtype]
        if form.startswith("sp_"):
            fmt = form[3:]
            n = len(adj)
            trip = [(i, j, 1) for i in range(n) for j in range(n) if adj[i][j]]
            have = {(i, j) for i, j, _ in trip}
            trip += [(i, j, 0) for i, j in map(tuple, zeros) if (i, j) not in have and i < n and j < n]
            trip = sorted(set(trip))
            rows, cols, vals = [t[0] for t in trip], [t[1] for t in trip], [t[2] for t in trip]
            A = sps.coo_matrix((np.array(vals, dtype=dt), (np.array(rows, dtype=np.int32), np.array(cols, dtype=np.int32))), shape=(n, n))
            if fmt == "csr" and unsorted:
                B = A.tocsr()
                ind, dat = B.indices.copy(), B.data.copy()
                for r in range(n):
                    lo, hi = B.indptr[r], B.indptr[r + 1]
                    ind[lo:hi] = ind[lo:hi][::-1]; dat[lo:hi] = dat[lo:hi][::-1]
                return sps.csr_matrix((dat, ind, B.indptr.copy()), shape=(n, n))
            return A if fmt == "coo" else A.asformat(fmt)
        a = np.array(adj, dtype=dt)
        if form == "dense_f":                       # Fortran-ordered dense array
            return np.asfortranarray(a)
        if form == "dense_view":                    # a non-contiguous window of a larger array
            base = np.zeros((2 * len(adj), 2 * len(adj)), dtype=dt)
            v = base[::2, ::2]
            v[...] = a
            return v
        return a

    def mgh(c, rep):
        forms = c.get("forms") or [c.get("form", "dense")]
        zs = c.get("zeros") or []
        gs = [graph(a, forms[k % len(forms)], zeros=(zs[k] if k < len(zs) else ()), dtype=c.get("dtype", "int64"),
                    unsorted=c.get("unsorted", False)) for k, a in enumerate(c["graphs"])]
        if c.get("same_object") and len(gs) >= 2 and c["graphs"][0] == c["graphs"][1]:
            gs[1] = gs[0]                           # d(G, G): ONE object in both argument positions
        order = np.array(c.get("order", [0.5, 1.0]))
        def run():
            np.random.seed(c["np_seed"])
            if len(gs) == 2 and not c.get("all_pairs"):
                return gh.gromov_hausdorff(gs[0], gs[1], mapping_sample_size_order=order)
            return gh.gromov_hausdorff(gs, mapping_sample_size_order=order)
        return [gs, order], run
    E["gromov_hausdorff"] = (mgh, ("float",))

    # ---- histories: a sequence of different public functions applied to the SAME two arrays
    def history(c, rep):
        a, b = _conv(c["d1"], rep), _conv(c["d2"], rep)
        from persim.persistent_entropy import persistent_entropy as _pe
        ops = {
            "bottleneck": lambda: persim.bottleneck(a, b, matching=True),
            "wasserstein": lambda: persim.wasserstein(a, b, matching=True),
            "heat": lambda: persim.heat(a, b),
            "sliced": lambda: persim.sliced_wasserstein(np.asarray(a), np.asarray(b), M=6),
            "entropy": lambda: _pe([np.asarray(a), np.asarray(b)]),
            "imager_fit_transform": lambda: persim.PersistenceImager(pixel_size=0.5).fit_transform([a, b], skew=True),
            "imager_transform": lambda: persim.PersistenceImager(pixel_size=0.5).transform(a, skew=True),
            "persimage": lambda: persim.PersImage(pixels=(5, 5), verbose=False).transform([a, b]),
            "exact": lambda: PersLandscapeExact(dgms=[a], hom_deg=0).p_norm(2),
            "exact_add": lambda: (PersLandscapeExact(dgms=[a], hom_deg=0) + PersLandscapeExact(dgms=[b], hom_deg=0)).critical_pairs,
            "approx": lambda: PersLandscapeApprox(dgms=[np.asarray(a)], hom_deg=0, num_steps=12).values,
            "landscaper": lambda: PersistenceLandscaper(hom_deg=0, num_steps=9).fit_transform([np.asarray(a), np.asarray(b)]),
            "death_vector": lambda: ltools.death_vector([np.asarray(a)], hom_deg=0),
            "plot": lambda: _plot([a, b]),
        }

        def _plot(ds):
            fig, ax = plt.subplots()
            try:
                persim.plot_diagrams([np.asarray(d) for d in ds], lifetime=True, ax=ax)
            finally:
                plt.close(fig)

        def run():
            import warnings
            with warnings.catch_warnings():
                warnings.simplefilter("ignore")
                return [ops[o]() for o in c["ops"]]
        return [a, b], run
    E["history"] = (history, REPS)

    # ---- ONE estimator object applied to every form of the same diagrams, one after the other (a parameter /
    # dtype sweep as users write it): each form's fitted state and image must be the same
    def sweep(c, rep):
        forms = [f for f in c["order"] if f in (FI if c["kind"] == "landscaper" else REPS)]
        Xs = {f: [_conv(d, f) for d in c["dgms"]] for f in forms}
        if c["kind"] == "imager":
            est = imager(c)
            extra = [est.weight_params, est.kernel_params]
        elif c["kind"] == "persimage":
            est = persim.PersImage(pixels=(6, 6), spread=c.get("spread"), verbose=False)
            extra = []
        else:
            est = PersistenceLandscaper(hom_deg=0, num_steps=c.get("num_steps", 15), flatten=c.get("flatten", False))
            extra = []

        def one(f, first):
            X = Xs[f]
            if c["kind"] == "imager":
                if c.get("refit") or first:
                    est.fit(X, skew=c.get("skew", True))
                st = [list(est.birth_range), list(est.pers_range), list(est.resolution)]
                return [st, est.transform(X, skew=c.get("skew", True))]
            if c["kind"] == "persimage":
                return est.transform(X)
            if c.get("refit") or first:
                est.fit(X)
            return [est.start, est.stop, est.transform(X)]

        def run():
            res = []
            for i, f in enumerate(forms):
                try:
                    res.append(["ok", _canon(one(f, i == 0))])
                except Exception as e:
                    res.append(["err", type(e).__name__])
            return {"sweep_forms": list(forms), "sweep": res}
        return [Xs[f] for f in forms] + extra, run
    E["estimator_sweep"] = (sweep, ("float",))
    return E


def _collect(x, path, out, depth=0, seen=None):
    """All mutable containers reachable from an argument: (path, object)."""
    import numpy as np
    if seen is None:
        seen = set()
    if id(x) in seen or depth > 5:
        return
    if isinstance(x, np.ndarray):
        seen.add(id(x)); out.append((path, x))
        if x.dtype == object:
            for i, e in enumerate(x.ravel()):
                _collect(e, "%s[%d]" % (path, i), out, depth + 1, seen)
    elif isinstance(x, (list, tuple)):
        seen.add(id(x)); out.append((path, x))
        for i, e in enumerate(x):
            _collect(e, "%s[%d]" % (path, i), out, depth + 1, seen)
    elif isinstance(x, dict):
        seen.add(id(x)); out.append((path, x))
        for k, e in x.items():
            _collect(e, "%s[%r]" % (path, k), out, depth + 1, seen)
    elif hasattr(x, "__dict__") and type(x).__module__.startswith("persim"):
        seen.add(id(x))
        for k, e in list(vars(x).items()):
            _collect(e, "%s.%s" % (path, k), out, depth + 1, seen)
    elif type(x).__module__.startswith("scipy.sparse"):
        # the container itself (format, shape, number of stored entries, the CURRENT storage arrays byte for byte:
        # a routine that rebinds x.data to a shorter array is seen) and the storage array objects of before the call
        seen.add(id(x)); out.append((path, x))
        for k in _SPARSE_FIELDS:
            if isinstance(getattr(x, k, None), __import__("numpy").ndarray):
                _collect(getattr(x, k), "%s.%s" % (path, k), out, depth + 1, seen)


_SPARSE_FIELDS = ("data", "indices", "indptr", "row", "col", "rows", "offsets")


def _snap_sparse(x):
    import numpy as np
    parts = []
    for k in _SPARSE_FIELDS:
        v = getattr(x, k, None)
        if isinstance(v, np.ndarray):
            parts.append((k, v.dtype.str, v.shape, repr([list(r) for r in v]) if v.dtype == object else v.tobytes()))
    if x.format == "dok":
        parts.append(("items", repr(sorted((tuple(map(int, k)), repr(v)) for k, v in x.items()))))
    return ("sparse", x.format, tuple(x.shape), int(x.nnz), x.dtype.str, tuple(parts))


def _snap1(o):
    import numpy as np
    if type(o).__module__.startswith("scipy.sparse") and hasattr(o, "format"):
        return _snap_sparse(o)
    if isinstance(o, np.ndarray):
        if o.dtype == object:
            return ("ndobj", o.shape, tuple(id(e) for e in o.ravel()))
        return ("nd", o.dtype.str, o.shape, o.tobytes())
    if isinstance(o, (list, tuple)):
        return (type(o).__name__, tuple((id(e) if isinstance(e, (list, tuple, dict, np.ndarray)) or hasattr(e, "__dict__") else repr(e)) for e in o))
    if isinstance(o, dict):
        return ("dict", tuple((repr(k), id(v) if isinstance(v, (list, tuple, dict, np.ndarray)) else repr(v)) for k, v in o.items()))
    return ("other", repr(o))


def _canon(r, depth=0):
    """JSON-able canonical form of a result (floats kept exactly via repr)."""
    import numpy as np
    if r is None or isinstance(r, (bool, str)):
        return r
    if isinstance(r, (int, float, np.integer, np.floating)):
        return float(r)
    if isinstance(r, complex):
        return ["complex", r.real, r.imag]
    if isinstance(r, np.ndarray):
        if r.dtype == object or r.dtype.kind in "US":
            return [_canon(e, depth + 1) for e in r.tolist()]
        return np.asarray(r, dtype=float).tolist()
    if isinstance(r, (list, tuple)):
        return [_canon(e, depth + 1) for e in r]
    if isinstance(r, dict):
        return {str(k): _canon(v, depth + 1) for k, v in r.items()}
    if hasattr(r, "values") and hasattr(r, "num_steps"):
        return _canon(r.values, depth + 1)
    if hasattr(r, "critical_pairs"):
        return _canon(r.critical_pairs, depth + 1)
    return "<%s>" % type(r).__name__


def _flat(x, out):
    if isinstance(x, list):
        for e in x:
            _flat(e, out)
    elif isinstance(x, dict):
        for k in sorted(x):
            _flat(x[k], out)
    else:
        out.append(x)
    return out


def _same(a, b, tol):
    fa, fb = _flat(a, []), _flat(b, [])
    if len(fa) != len(fb):
        return False
    for x, y in zip(fa, fb):
        if isinstance(x, float) and isinstance(y, float):
            if x != x and y != y:
                continue
            if x == y:
                continue
            if tol and abs(x - y) <= tol * max(1.0, abs(x), abs(y)):
                continue
            return False
        elif x != y:
            return False
    return True


def _scribble_result(r, objs):
    """The caller owns what a public function returned and may edit it: overwrite every ndarray / list reachable from
    the result `r` (history.scribble) - unless it IS or shares memory with one of the argument objects `objs`
    (returning an argument as it is, is allowed).  A later call whose result depends on that (a result cache that
    hands out its stored object, a view of an estimator's internal state) then fails the repeat comparison."""
    import numpy as np
    from .. import history
    found = []

    def walk(x, depth=0):
        if depth > 4:
            return
        if isinstance(x, np.ndarray):
            found.append(x)
            if x.dtype == object:
                for e in x.ravel():
                    walk(e, depth + 1)
        elif isinstance(x, (list, tuple)):
            found.append(x)
            for e in x:
                walk(e, depth + 1)
        elif isinstance(x, dict):
            found.append(x)
            for e in x.values():
                walk(e, depth + 1)
    walk(r)
    arg_ids = {id(o) for _, o in objs}
    arg_arrays = [o for _, o in objs if isinstance(o, np.ndarray) and o.dtype != object]
    for x in found:
        if id(x) in arg_ids:
            return False
        if isinstance(x, np.ndarray) and x.dtype != object and any(np.shares_memory(x, a) for a in arg_arrays):
            return False
    history.scribble(r)
    return bool(found)


def _same_forms(c, r0, v0, r, v):
    t0, t1 = _form_tol(c, r0), _form_tol(c, r)
    if t0 is None or t1 is None:
        return True
    return _same(v0, v, max(t0, t1))


def _disturb(k):
    """Calls to other public functions on unrelated data, between two calls under test."""
    import numpy as np
    import persim
    from persim.landscapes import PersLandscapeExact
    a = np.array([[0.0, 1.0 + k], [0.5, 2.0]]); b = np.array([[0.25, 1.5]])
    persim.bottleneck(a, b); persim.wasserstein(a, b); persim.heat(a, b); persim.sliced_wasserstein(a, b, M=3)
    persim.PersistenceImager(pixel_size=0.5).fit_transform([a, b])
    PersLandscapeExact(dgms=[a], hom_deg=0).p_norm(2)
    np.random.rand(3)


def _run_case(c, E):
    handler, forms = E[c["ep"]]
    reps = [r for r in c.get("reps", ["float"]) if r in forms]
    skip = set(NARROW_OPEN.get(c["ep"], ()))
    if c["ep"] == "history":
        skip = {f for e, fs in NARROW_OPEN.items() if e in c.get("ops", []) for f in fs}
    reps = [r for r in reps if r not in skip]
    out = {"mutated": [], "repeat_bad": [], "rep_bad": [], "errors": {}, "results": {}, "nonempty_args": False, "calls": 0}
    results = {}
    for rep in reps:
        try:
            args, thunk = handler(c, rep)
        except Exception as e:  # building the arguments (constructors of landscape objects) may reject the input
            out["errors"][rep] = "setup:%s" % type(e).__name__
            continue
        objs = []
        for i, a in enumerate(args):
            _collect(a, "arg%d" % i, objs)
        before = [_snap1(o) for _, o in objs]
        if any(len(s[-1]) > 0 for s in before if s[0] in ("nd", "list", "tuple")):
            out["nonempty_args"] = True
        rs = []
        for k in range(2):
            raw = None
            try:
                raw = thunk()
                rs.append(("ok", _canon(raw)))
            except Exception as e:
                rs.append(("err", type(e).__name__))
            out["calls"] += 1
            after = [_snap1(o) for _, o in objs]
            for (pth, _), s0, s1 in zip(objs, before, after):
                if s0 != s1 and ("%s:%s" % (rep, pth)) not in out["mutated"]:
                    out["mutated"].append("%s:%s" % (rep, pth))
            if raw is not None and c["ep"] != "estimator_sweep":
                try:
                    out["scribbled"] = out.get("scribbled", 0) + bool(_scribble_result(raw, objs))
                except Exception as e:
                    out["errors"]["scribble"] = type(e).__name__
                raw = None
            if k == 0:
                try:
                    _disturb(c.get("seed", 0) % 3)
                except Exception as e:
                    out["errors"]["disturb"] = type(e).__name__
        if rs[0][0] != rs[1][0] or (rs[0][0] == "ok" and not _same(rs[0][1], rs[1][1], 0)):
            out["repeat_bad"].append(rep)
        results[rep] = rs[0]
        if rs[0][0] == "err":
            out["errors"][rep] = rs[0][1]
        if c["ep"] == "estimator_sweep" and rs[0][0] == "ok":
            # the forms were handled by ONE estimator in sequence: all accepted forms must agree
            fr = [(f, r[1]) for f, r in zip(rs[0][1]["sweep_forms"], rs[0][1]["sweep"]) if r[0] == "ok"]
            out["sweep_forms_ok"] = [f for f, _ in fr]
            for f, v in fr[1:]:
                if not _same_forms(c, fr[0][0], fr[0][1], f, v):
                    out["rep_bad"].append("%s-vs-%s(one estimator, forms in the order %s)" % (fr[0][0], f, "/".join(x for x, _ in fr)))
            if len(fr) < 2:
                out["nonempty_args"] = False
    # representation independence (only among the forms the function accepted)
    oks = [(r, v[1]) for r, v in results.items() if v[0] == "ok"]
    if (c.get("integral") or c.get("repcmp")) and len(oks) >= 2:
        r0, v0 = oks[0]
        for r, v in oks[1:]:
            if not _same_forms(c, r0, v0, r, v):
                out["rep_bad"].append("%s-vs-%s" % (r0, r))
    # a function that takes the contiguous float64 (int64) array must take the equal-valued strided float64 (int32) one
    for wide, narrow in SIBLINGS:
        if results.get(wide, ("",))[0] == "ok" and results.get(narrow, ("",))[0] == "err":
            out["rep_bad"].append("%s-accepted-but-%s-raised-%s" % (wide, narrow, results[narrow][1]))
    out["forms_ok"] = [r for r, _ in oks]
    if oks:
        fl = _flat(oks[0][1], [])
        out["results"] = {"n": len(fl), "head": [x if not isinstance(x, float) or x == x else "nan" for x in fl[:6]]}
    return out


class _Audit:
    """Run-time audit of the translator's table of NumPy / SciPy effect summaries (the trusted part of the
    static half): the name ``np`` (and the scipy functions imported by name) inside every persim module is
    replaced by a proxy that, on every real call, checks the summary the translator used for that target:
    no ndarray argument is written unless the summary says mut / out=, and the result shares no memory with
    an ndarray argument unless the summary says alias / elems."""

    def __init__(self):
        from .. import effects_translator as T
        self.T = T
        self.problems = []
        self.calls = 0
        self.targets = set()

    def wrap(self, name, fn):
        import numpy as np
        summary = self.T.EXT_FUNCS.get(name)
        audit = self

        def wrapped(*a, **k):
            arrs = [x for x in list(a) + list(k.values()) if isinstance(x, np.ndarray) and x.dtype != object and x.size <= 4096]
            before = [x.tobytes() for x in arrs]
            r = fn(*a, **k)
            audit.calls += 1
            audit.targets.add(name)
            if summary is None:
                return r
            items = [i.split(":")[0] for i in summary.split()]
            may_write = "mut" in items or ("kwout" in items and "out" in k) or len(a) > (1 if name.split(".")[-1] in audit.T.UFUNC1 else 2 if name.split(".")[-1] in audit.T.UFUNC2 else 99)
            if not may_write:
                for x, b in zip(arrs, before):
                    if x.tobytes() != b:
                        audit.problems.append("%s wrote into an argument but its summary is %r" % (name, summary))
            may_alias = any(i in ("alias", "elems", "elem", "zip", "chain", "minmax") for i in items) or "out" in k or \
                ("copy" in k and k["copy"] is not True) or may_write
            if not may_alias:
                outs = r if isinstance(r, (tuple, list)) else [r]
                for o in outs:
                    if isinstance(o, np.ndarray) and o.dtype != object:
                        for x in arrs:
                            if np.may_share_memory(o, x) and np.shares_memory(o, x):
                                audit.problems.append("%s returned memory shared with an argument but its summary is %r" % (name, summary))
            return r
        wrapped.__name__ = getattr(fn, "__name__", "wrapped")
        return wrapped

    def proxy(self, mod, prefix):
        import types
        audit = self

        class P(object):
            def __getattr__(self_, attr):
                v = getattr(mod, attr)
                if isinstance(v, types.ModuleType):
                    return audit.proxy(v, prefix + "." + attr)
                if type(v).__name__ in ("function", "builtin_function_or_method", "ufunc", "_ArrayFunctionDispatcher"):
                    return audit.wrap(prefix + "." + attr, v)
                return v
        return P()

    def install(self):
        import sys
        import numpy
        self.saved = []
        for mname, m in list(sys.modules.items()):
            if not (mname == "persim" or mname.startswith("persim.")) or m is None:
                continue
            if getattr(m, "np", None) is numpy:
                self.saved.append((m, "np", numpy))
                setattr(m, "np", self.proxy(numpy, "numpy"))
        return self

    def remove(self):
        for m, k, v in self.saved:
            setattr(m, k, v)



# ================================================================================================
# cross-process CALL-ORDER INDEPENDENCE monitor
# ================================================================================================
# A case {"ep": "call_order", "items": [...]} is a structured family of calls to pure public functions
# (the same diagrams crossed with different secondary parameters, equal total sizes with different
# splits, both argument orders).  The list is evaluated
#   run 0: in order, in a fresh interpreter;
#   run 1: reversed, in another fresh interpreter;
#   run 2: shuffled, in a third one;
#   run 3: in order, three times over, with unrelated allocations (filled with junk, then freed)
#          between the calls - stale contents of an uninitialised buffer differ between the rounds.
# Every item must give the identical result (tolerance 0, nan == nan) in every run and round: a result
# that depends on what was called before (a module-level cache keyed too coarsely, a reused scratch
# matrix, an np.empty buffer) differs in at least one of them, although "call twice and compare" passes.
def _order_funcs():
    import sys
    import numpy as np
    import persim
    from persim import images_kernels as K, images_weights as W
    from persim.persistent_entropy import persistent_entropy
    from persim.landscapes import PersLandscapeExact, PersLandscapeApprox, PersistenceLandscaper
    from persim.landscapes import tools as lt
    gh = sys.modules["persim.gromov_hausdorff"]

    def A(d):
        return _conv(d, "float")

    def ctor(a):
        kw = dict(a.get("ctor", {}))
        for k in ("birth_range", "pers_range"):
            if k in kw:
                kw[k] = tuple(kw[k])
        return persim.PersistenceImager(**kw)

    def mgh(a):
        np.random.seed(a["np_seed"])
        return gh.gromov_hausdorff(np.array(a["g1"]), np.array(a["g2"]))

    def arr(v):
        return np.array(v, dtype=float)

    return {
        "bottleneck": lambda a: persim.bottleneck(A(a["d1"]), A(a["d2"]), matching=a.get("matching", False)),
        "wasserstein": lambda a: persim.wasserstein(A(a["d1"]), A(a["d2"]), matching=a.get("matching", False)),
        "heat": lambda a: persim.heat(A(a["d1"]), A(a["d2"]), sigma=a["sigma"]),
        "sliced_wasserstein": lambda a: persim.sliced_wasserstein(A(a["d1"]), A(a["d2"]), M=a["M"]),
        "persistent_entropy": lambda a: persistent_entropy([A(d) for d in a["dgms"]], keep_inf=a.get("keep_inf", False),
                                                           val_inf=a.get("val_inf"), normalize=a.get("normalize", False)),
        "bvn_cdf": lambda a: K.bvn_cdf(arr(a["x"]), arr(a["y"]), mu_x=a["mu"][0], mu_y=a["mu"][1], sigma_xx=a["sxx"],
                                       sigma_yy=a["syy"], sigma_xy=a["sxy"]),
        "gaussian": lambda a: K.gaussian(arr(a["x"]), arr(a["y"]), mu=arr(a["mu"]), sigma=arr(a["sigma"])),
        "uniform": lambda a: K.uniform(arr(a["x"]), arr(a["y"]), mu=arr(a["mu"]), width=a["width"], height=a["height"]),
        "linear_ramp": lambda a: W.linear_ramp(arr(a["x"]), arr(a["y"]), **a["params"]),
        "persistence": lambda a: W.persistence(arr(a["x"]), arr(a["y"]), n=a["n"]),
        "imager_transform": lambda a: ctor(a).transform([A(d) for d in a["dgms"]], skew=a.get("skew", True)),
        "imager_fit_transform": lambda a: ctor(a).fit_transform([A(d) for d in a["dgms"]], skew=a.get("skew", True)),
        "exact_pnorm": lambda a: PersLandscapeExact(dgms=[A(a["d1"])], hom_deg=0).p_norm(a["p"]),
        "exact_pairs": lambda a: PersLandscapeExact(dgms=[A(a["d1"])], hom_deg=0).critical_pairs,
        "exact_add": lambda a: (PersLandscapeExact(dgms=[A(a["d1"])], hom_deg=0) + PersLandscapeExact(dgms=[A(a["d2"])], hom_deg=0)).critical_pairs,
        "approx_values": lambda a: PersLandscapeApprox(dgms=[A(a["d1"])], hom_deg=0, start=a.get("start"), stop=a.get("stop"),
                                                       num_steps=a["num_steps"]).values,
        "approx_pnorm": lambda a: PersLandscapeApprox(dgms=[A(a["d1"])], hom_deg=0, start=a.get("start"), stop=a.get("stop"),
                                                      num_steps=a["num_steps"]).p_norm(a["p"]),
        "landscaper": lambda a: PersistenceLandscaper(hom_deg=0, start=a.get("start"), stop=a.get("stop"), num_steps=a["num_steps"],
                                                      flatten=a.get("flatten", False)).fit_transform([A(a["d1"])]),
        "vectorize": lambda a: lt.vectorize(PersLandscapeExact(dgms=[A(a["d1"])], hom_deg=0), start=a.get("start"), stop=a.get("stop"),
                                            num_steps=a["num_steps"]).values,
        "death_vector": lambda a: lt.death_vector([A(a["d1"])], hom_deg=0),
        "gromov_hausdorff": mgh,
    }


def order_child(jobs):
    """Runs in a FRESH interpreter: jobs = [{"items", "order", "rounds", "churn"}] -> per job, per round,
    {original index: canonical result}."""
    import warnings
    import numpy as np
    from .. import history
    warnings.simplefilter("ignore")
    F = _order_funcs()
    out = []
    for job in jobs:
        rounds = []
        for rnd in range(job.get("rounds", 1)):
            res = {}
            for i in job["order"]:
                it = job["items"][i]
                if job.get("churn"):
                    # unrelated allocations of many small sizes, filled with junk and freed again: the next
                    # uninitialised buffer of such a size is handed these bytes
                    junk = [np.full(n, 7.5 + rnd + 0.25 * i) for n in list(range(1, 70)) + [128, 256, 512]]
                    junk2 = [np.full((n, m), -3.25 - rnd) for n in range(1, 12) for m in range(1, 12)]
                    del junk, junk2
                try:
                    raw = F[it["fn"]](it["args"])
                    res[str(i)] = ["ok", _canon(raw)]
                    history.scribble(raw)           # the caller edits what it got back (the arguments are private to this call)
                    del raw
                except Exception as e:
                    res[str(i)] = ["err", type(e).__name__]
            rounds.append(res)
        out.append(rounds)
    return out


def _spawn_order_child(jobs):
    import subprocess
    import sys
    p = subprocess.run([sys.executable, "-m", "harness.impl_runner", "c19", "order_child"], input=json.dumps(jobs),
                       capture_output=True, text=True, cwd=str(core.VERIF), timeout=900)
    if p.returncode != 0:
        raise RuntimeError("order child failed: " + p.stderr[-500:])
    return json.loads(p.stdout.strip().split("\n")[-1])


def _run_order_case(c):
    import random as _r
    n = len(c["items"])
    fwd = list(range(n))
    shuf = list(fwd)
    _r.Random(c.get("shuffle_seed", 0)).shuffle(shuf)
    plans = [("forward", {"order": fwd, "rounds": 1}), ("reversed", {"order": fwd[::-1], "rounds": 1}),
             ("shuffled", {"order": shuf, "rounds": 1}), ("forward-x3-with-allocations", {"order": fwd, "rounds": 3, "churn": True})]
    from concurrent.futures import ThreadPoolExecutor
    with ThreadPoolExecutor(max_workers=4) as ex:
        futs = [ex.submit(_spawn_order_child, [dict(pl, items=c["items"])]) for _, pl in plans]
        runs = [f.result()[0] for f in futs]
    ref = runs[0][0]
    bad, n_ok = [], 0
    for i in range(n):
        r0 = ref[str(i)]
        n_ok += r0[0] == "ok"
        for (label, _), rounds in zip(plans, runs):
            for k, res in enumerate(rounds):
                r = res[str(i)]
                if r[0] != r0[0] or (r0[0] == "ok" and not _same(r0[1], r[1], 0)) or (r0[0] == "err" and r0[1] != r[1]):
                    fl0, fl1 = (_flat(r0[1], [])[:3], _flat(r[1], [])[:3]) if r0[0] == "ok" and r[0] == "ok" else (r0, r)
                    bad.append({"item": i, "fn": c["items"][i]["fn"], "run": label, "round": k, "fresh_forward": fl0, "this_run": fl1})
                    break
            else:
                continue
            break
    return {"order_bad": bad[:8], "n_items": n, "n_ok": n_ok, "runs": [p[0] for p in plans],
            "mutated": [], "repeat_bad": [], "rep_bad": [], "forms_ok": ["float"] if n_ok else [], "nonempty_args": n_ok >= 2}


def impl_run(cases):
    import warnings
    warnings.simplefilter("ignore")
    E = _eps()
    outs = []
    order_idx = [i for i, c in enumerate(cases) if c["ep"] == "call_order"]
    order_out = {}
    if order_idx:
        from concurrent.futures import ThreadPoolExecutor

        def one(i):
            try:
                return i, _run_order_case(cases[i])
            except Exception as e:
                return i, {"error": type(e).__name__, "msg": str(e)[:300]}
        with ThreadPoolExecutor(max_workers=4) as ex:
            order_out = dict(ex.map(one, order_idx))
    for i, c in enumerate(cases):
        if i in order_out:
            outs.append(order_out[i])
            continue
        try:
            outs.append(_run_case(c, E))
        except Exception as e:
            outs.append({"error": type(e).__name__, "msg": str(e)[:300]})
    # second pass: the same calls with the table audit switched on (float form only)
    if os.environ.get("C19_NO_AUDIT") != "1":
        for c, o in zip(cases, outs):
            if "error" in o or c["ep"] == "call_order":
                continue
            au = _Audit().install()
            try:
                handler, forms = E[c["ep"]]
                args, thunk = handler(c, "float")
                thunk()
            except Exception as e:
                o["audit_error"] = type(e).__name__
            finally:
                au.remove()
            o["audit"] = {"calls": au.calls, "targets": len(au.targets), "problems": sorted(set(au.problems))[:5]}
    return outs


def predicate(c, o):
    ep = c["ep"]
    if "error" in o:
        return False, "harness-error ep=%s: %s %s" % (ep, o["error"], o.get("msg"))
    if o.get("order_bad"):
        b = o["order_bad"][0]
        return False, ("call-order fn=%s: the result of item %d depends on what was called before it (run '%s', round %d: %s, "
                       "fresh interpreter in list order: %s)" % (b["fn"], b["item"], b["run"], b["round"], b["this_run"], b["fresh_forward"]))
    if o["mutated"]:
        return False, "mutation ep=%s: argument objects changed by the call: %s" % (ep, ", ".join(o["mutated"][:6]))
    if o["repeat_bad"]:
        return False, "not-repeatable ep=%s: a repeated / interleaved call returned something else (forms %s)" % (ep, o["repeat_bad"])
    if o["rep_bad"]:
        return False, "representation ep=%s: equal-valued inputs give different results: %s" % (ep, o["rep_bad"])
    if o.get("audit", {}).get("problems"):
        return False, "table-audit ep=%s: an effect summary of the translator's table is contradicted by a real call: %s" % (ep, o["audit"]["problems"][:3])
    return True, ""


def coq_jobs(cases, outs):
    return []      # the model is the regenerated IR; its obligations are checked in extra_obligations


def coq_judge(cases, outs, results):
    """Tie between the static and the dynamic half: the model (accepted obligation) says "no write
    reaches a caller-owned object"; a call that does change its argument although the obligations of
    the entry points it exercises were discharged contradicts the model (translator / table error)."""
    failed = {"history"} if _FAILED else set()      # histories call many entry points
    for f in _FAILED:
        failed |= set(_eps_for(f["qual"]))
    vs = []
    for c, o in zip(cases, outs):
        if "error" in o:
            vs.append("skip:harness error")
        elif c["ep"] == "call_order":
            vs.append("agree" if not o.get("order_bad") or _FAILED else
                      "disagree:all obligations discharged but a result depends on the call order: %s" % o["order_bad"][0]["fn"])
        elif o["mutated"] and c["ep"] not in failed:
            vs.append("disagree:obligations discharged but the call changed %s" % o["mutated"][:3])
        else:
            vs.append("agree")
    return vs


def nontrivial(c, o):
    return "error" not in o and bool(o.get("forms_ok")) and o.get("nonempty_args", False)


def finding_of(c, o, detail):
    # the one defect found (PersImage.to_landscape converting in place) is FIXED in /repo (b6e8082);
    # nothing is suppressed: its return is a VIOLATION
    return None


# ---- generators ------------------------------------------------------------------------------------
def _dgm(rng, n, integral=False, inf=0, scale=1.0, dupes=False):
    out = []
    for _ in range(n):
        if dupes and out and rng.random() < 0.5:
            out.append(list(rng.choice(out)))
            continue
        if integral:
            b = rng.randint(0, 6); d = b + rng.randint(1, 6)
        else:
            b = rng.uniform(0, 4) * scale; d = b + rng.uniform(0.05, 3) * scale
        out.append([b, d])
    for _ in range(inf):
        out.append([float(rng.randint(0, 3)) if integral else rng.uniform(0, 2), "inf"])
    return out


def _graph(rng, n):
    adj = [[0] * n for _ in range(n)]
    for i in range(1, n):          # random tree + extra edges: connected
        j = rng.randrange(i)
        adj[i][j] = adj[j][i] = 1
    for _ in range(rng.randint(0, n)):
        i, j = rng.randrange(n), rng.randrange(n)
        if i != j:
            adj[i][j] = adj[j][i] = 1
    return adj


GRAPH_FORMS = ["sp_csr", "sp_csc", "sp_coo", "sp_lil", "sp_bsr", "sp_csr", "dense_f", "dense_view", "sp_dok", "sp_dia", "dense"]


def _graph_containers(rng, c, variant=None):
    """Containers of an adjacency matrix beyond list / int64 array / csr-from-dense: every scipy.sparse format built
    from triples WITH explicitly stored zeros at some non-edges (csr also with unsorted column indices), Fortran-ordered
    and strided dense arrays, element types int64 / float64 / bool / int8 / float32; sometimes one object in both
    argument positions, sometimes the all-pairs calling form."""
    v = rng.randrange(len(GRAPH_FORMS)) if variant is None else variant % len(GRAPH_FORMS)
    first = GRAPH_FORMS[v]
    c["forms"] = [first] + [rng.choice(GRAPH_FORMS + ["list", "csr"]) if rng.random() < 0.5 else first for _ in c["graphs"][1:]]
    c["unsorted"] = (v == 5)
    c["dtype"] = rng.choice(["int64", "float64", "bool", "int8", "float32"])
    zs = []
    for g in c["graphs"]:
        n = len(g)
        cand = [[i, j] for i in range(n) for j in range(n) if not g[i][j]]
        rng.shuffle(cand)
        zs.append(sorted(cand[:rng.randint(1, max(1, min(len(cand), n + 1)))]))
    c["zeros"] = zs
    if rng.random() < 0.3:
        c["all_pairs"] = True
    if rng.random() < 0.2:
        c["graphs"][1] = [list(r) for r in c["graphs"][0]]
        c["zeros"][1] = [list(z) for z in c["zeros"][0]]
        c["forms"][1] = c["forms"][0]
        c["same_object"] = True
    return c


def _crit(rng, k):
    fs = []
    for _ in range(k):
        xs = sorted(rng.sample(range(0, 12), rng.randint(3, 5)))
        f = [[float(x), float(rng.randint(0, 4))] for x in xs]
        f[0][1] = 0.0; f[-1][1] = 0.0
        fs.append(f)
    return fs


def _ramp_params(rng, pers, directed=False):
    """Parameters of images_weights.linear_ramp.  `directed`: the ramp spans the persistences of the case, with an
    odd width, so that (integral) persistences receive fractional weights strictly between low and high."""
    fin = [float(p) for p in pers if p != "inf" and p == p and abs(p) != float("inf")] or [1.0]
    lo_p, hi_p = min(fin), max(fin)
    if directed:
        start = math.floor(lo_p) - rng.choice([0, 1, 0.5])
        end = math.ceil(hi_p) + rng.choice([1, 2, 3.5])
        if float(end - start).is_integer() and (end - start) % 2 == 0:
            end += 1
        low, high = rng.choice([(0.0, 1.0), (0, 1), (0.25, 2.0), (1.0, 3.0), (0.0, 0.5)])
    else:
        start = rng.choice([0.0, 0, 0.5, 1.0, 2])
        end = start + rng.choice([1.0, 2, 3.0, 4, 7.5])
        low, high = rng.choice([(0.0, 1.0), (0, 1), (0.0, 2.0), (1, 2), (0.5, 1.5), (2.0, 0.0)])
    return {"low": low, "high": high, "start": start, "end": end}


def _imager_params(rng, c, directed=False, variant=None):
    """Non-default configuration of a PersistenceImager: weight / kernel parameters and explicit ranges.
    `directed` cases rotate (variant mod 3) over: a ramp spanning the persistences of the case / a non-integral
    power of the persistence / a uniform kernel whose half-width is not an integer."""
    skew = c.get("skew", True)
    pers = [(r[1] - r[0] if skew else r[1]) for d in c["dgms"] for r in d if r[1] != "inf"]
    births = [r[0] for d in c["dgms"] for r in d]
    if variant is None:
        variant = rng.randrange(3)
    if directed:
        w = ["linear_ramp", "persistence", rng.choice(["linear_ramp", "persistence"])][variant % 3]
    else:
        w = rng.choice(["linear_ramp", "persistence"])
    c["weight"] = w
    if w == "linear_ramp":
        c["weight_params"] = _ramp_params(rng, pers, directed=directed or rng.random() < 0.5)
    else:
        c["weight_params"] = {"n": rng.choice([0.5, 1.5, 2.5]) if directed else rng.choice([1, 2, 2.0, 0.5, 1.5, 3.0])}
    k = c.get("kernel") or "gaussian"
    if directed:
        k = "uniform" if variant % 3 == 2 else rng.choice(["gaussian", "gaussian", "gauss_general"])
    if k == "uniform":
        c["kernel_params"] = {"width": rng.choice([1, 1.0, 1.5, 3]), "height": rng.choice([1, 0.5, 2.0])}
        c["kernel"] = "uniform"
    else:
        v1, v2 = rng.choice([1, 1.0, 0.25, 2.0, 4]), rng.choice([1, 1.0, 0.5, 2.0])
        r = rng.choice([0, 0.0, 0.0, 0.3, -0.5])
        if r == 0 and rng.random() < 0.5:
            v2 = v1                                  # isotropic: the fast path of the Gaussian kernel
        cv = r * math.sqrt(v1 * v2)
        c["kernel_params"] = {"sigma": [[v1, cv], [cv, v2]]}
        c["kernel"] = "explicit"
    if (directed or rng.random() < 0.6) and births and pers:
        b0, p0 = math.floor(min(births)), math.floor(min(pers + [0.0]))
        c["birth_range"] = [float(b0), float(math.ceil(max(births)) + rng.choice([1, 2]))]
        c["pers_range"] = [float(p0), float(math.ceil(max(pers)) + rng.choice([1, 2]))]
    return c


def _make(rng, ep, cls, variant=None):
    integral = cls in ("integral", "integral_inf", "integral_params", "narrow_int")
    reps = (["float", "list", "fview"] if cls == "integral_inf" else ["float", "int", "list", "int32", "fview"]) if integral else ["float"]
    repcmp = False
    if cls == "narrow_int":
        # small non-negative integers: exactly representable in every narrow element type
        reps = ["float", "int", "uint8", "int16", "f32", "f16", "forder", "list"]
    elif cls == "narrow":
        # random values ROUNDED TO float32 (see the end of this function): the float32 array, the float64 array
        # (C and Fortran order) and the nested list hold the same numbers
        reps = ["float", "f32", "forder", "list"]
        repcmp = True
    elif not integral and rng.random() < 0.5:
        # non-integral values: the equal-valued forms are the contiguous and the strided float64 array (+ nested list)
        reps = ["float", "fview"] + (["list"] if rng.random() < 0.5 else [])
        repcmp = True
    n1, n2 = rng.randint(1, 5), rng.randint(1, 5)
    if cls == "empty":
        n1 = 0
    if cls == "single":
        n1 = n2 = 1
    inf = 1 if cls in ("inf", "integral_inf") else 0
    c = {"ep": ep, "cls": cls, "seed": rng.randrange(10 ** 6), "integral": integral, "reps": reps}
    if repcmp:
        c["repcmp"] = True
    scale = rng.choice([2.0 ** 20, 2.0 ** -20]) if cls == "scaled" else 1.0
    d1, d2 = _dgm(rng, n1, integral, scale=scale, dupes=(cls == "dupes")), _dgm(rng, n2, integral, scale=scale, dupes=(cls == "dupes"))
    if cls == "narrow":
        # deaths more than twice the births, births of mixed magnitude: persistences and cross differences are not
        # exact in single precision, so arithmetic carried out in the narrow type shows in the result
        d1, d2 = [[[b, b * rng.uniform(2.5, 9.0)] for b in (rng.uniform(0.01, 1.0) * rng.choice([1.0, 1.0, 4.0]) for _ in range(n))]
                  for n in (n1, n2)]
    if cls == "scaled" and ep.startswith(("PersistenceImager", "PersImage", "PersLandscapeApprox", "PersistenceLandscaper", "landscapes", "images_")):
        d1, d2 = _dgm(rng, n1, integral), _dgm(rng, n2, integral)       # grids / pixel counts: keep the scale moderate
    if ep in ("bottleneck", "wasserstein"):
        c.update(d1=d1 + _dgm(rng, 0, integral, inf), d2=d2, matching=rng.random() < 0.5)
    elif ep == "heat":
        c.update(d1=d1, d2=d2, sigma=rng.choice([0.4, 1.0]))
    elif ep == "sliced_wasserstein":
        c.update(d1=d1 or _dgm(rng, 1, integral), d2=d2, M=rng.choice([5, 10]), rep_tol=1e-9)
    elif ep == "persistent_entropy":
        single = rng.random() < 0.5
        c.update(dgms=[d1 + _dgm(rng, 0, integral, inf)] + ([] if single else [d2]), single=single,
                 keep_inf=bool(inf) and rng.random() < 0.5, normalize=rng.random() < 0.3)
        if c["keep_inf"]:
            c["val_inf"] = 10.0
        if not c["dgms"][0]:
            c["dgms"][0] = _dgm(rng, 2, integral)
    elif ep.startswith("PersistenceImager.") and ep != "PersistenceImager.config":
        single = rng.random() < 0.4
        c.update(dgms=[d1 or _dgm(rng, 2, integral)] + ([] if single else [d2]), single=single, skew=rng.random() < 0.75,
                 kernel=rng.choice(["gaussian", "gaussian", "uniform", "gauss_general"]),
                 weight=rng.choice(["persistence", "linear_ramp"]), pixel_size=rng.choice([0.5, 1.0]))
        if ep.endswith("transform") and not ep.endswith("fit_transform") and rng.random() < 0.25:
            c["n_jobs"] = 1
        if cls == "integral_params" or rng.random() < 0.35:
            _imager_params(rng, c, directed=(cls == "integral_params"), variant=variant)
    elif ep == "PersistenceImager.config":
        c.update(birth_range=[0.0, float(rng.randint(1, 3))], pers_range=[0.0, float(rng.randint(1, 3))], pixel_size=rng.choice([0.5, 0.25, 0.3]))
    elif ep in ("PersImage.transform", "PersImage.to_landscape"):
        single = rng.random() < 0.5 or ep.endswith("to_landscape")
        c.update(dgms=[d1 or _dgm(rng, 2, integral)] + ([] if single else [d2]), single=single, spread=rng.choice([None, 1.0]))
    elif ep in ("images_kernels", "images_weights"):
        k = rng.randint(1, 5)
        c.update(x=[float(rng.randint(0, 4)) if integral else rng.uniform(-1, 3) for _ in range(k)],
                 y=[float(rng.randint(0, 4)) if integral else rng.uniform(0, 3) for _ in range(k)],
                 mu=[rng.uniform(0, 2), rng.uniform(0, 2)])
        if ep == "images_kernels":
            c["fn"] = rng.choice(["uniform", "gaussian", "gaussian"])
            r = rng.choice([0.0, 0.2, 0.5, 0.95, -0.95])
            c["sigma"] = [[1.0, r], [r, 1.0]]
            c["reps"] = ["float"]; c.pop("repcmp", None)
        else:
            c["fn"] = rng.choice(["linear_ramp", "persistence"])
            if cls == "integral_params" and variant is not None:
                c["fn"] = ["linear_ramp", "persistence"][variant % 2]
            if integral:
                c["y"] = [float(rng.randint(0, 9)) for _ in range(k)]
            if c["fn"] == "linear_ramp":
                c["wp"] = _ramp_params(rng, c["y"], directed=(cls == "integral_params"))
            else:
                c["n"] = rng.choice([0.5, 1.5, 2.5]) if cls == "integral_params" else rng.choice([1, 2, 3, 1.0, 2.0, 0.5, 1.5])
    elif ep in ("PersLandscapeExact", "PersLandscapeApprox"):
        c.update(dgms=[(d1 or _dgm(rng, 2, integral)) + _dgm(rng, 0, integral, inf)], num_steps=rng.choice([10, 21]))
    elif ep in ("PersLandscapeExact.arith", "PersLandscapeApprox.arith"):
        c.update(dgms=[d1 or _dgm(rng, 2, integral), d2], op=rng.choice(["add", "sub", "mul", "rmul", "div", "neg"]),
                 start=0.0, stop=12.0, num_steps=rng.choice([13, 25]))
    elif ep == "PersLandscapeExact.critical_pairs":
        c.update(cp1=_crit(rng, rng.randint(1, 3)), cp2=_crit(rng, rng.randint(1, 3)),
                 op=rng.choice(["add", "sub", "mul", "div", "neg", "union"]), reps=["float"])
    elif ep == "PersLandscapeApprox.values":
        w = rng.randint(3, 6)
        c.update(values=[[float(rng.randint(0, 4)) for _ in range(w)] for _ in range(rng.randint(1, 3))], reps=["float"])
    elif ep == "PersistenceLandscaper":
        c.update(dgms=[d1 or _dgm(rng, 2, integral), d2], op=rng.choice(["fit_transform", "fit+transform"]),
                 flatten=rng.random() < 0.5, num_steps=rng.choice([8, 15]))
    elif ep == "landscapes.tools":
        c.update(dgms=[d1 or _dgm(rng, 2, integral), d2], num_steps=rng.choice([9, 15]),
                 op=rng.choice(["death_vector", "vectorize", "snap_pl", "lc_approx", "average_approx"]),
                 grid=rng.choice(["own", "own", "shared", "first_covers"]))
        if variant is not None:
            c.update(op=["lc_approx", "average_approx", "snap_pl"][variant % 3], grid=["shared", "first_covers"][variant % 2])
    elif ep == "landscapes.plot":
        c.update(dgms=[d1 or _dgm(rng, 2, integral)], kind=rng.choice(["exact", "approx"]), op=rng.choice(["simple", "simple", "3d"]), reps=["float"])
    elif ep == "plot_diagrams":
        single = rng.random() < 0.4
        c.update(dgms=[(d1 or _dgm(rng, 2, integral)) + _dgm(rng, 0, integral, inf)] + ([] if single else [d2]), single=single,
                 lifetime=rng.random() < 0.6)
        if rng.random() < 0.25:
            c["xy_range"] = [-1.0, 8.0, -1.0, 9.0]
        if not single and rng.random() < 0.25:
            c["plot_only"] = [1]
        c["reps"] = [r for r in reps if r != "list"] if cls in ("narrow", "narrow_int") else ["float", "int", "int32", "fview"] if integral and not inf else ["float"]
    elif ep == "matching_plots":
        c.update(d1=d1 or _dgm(rng, 1, integral), d2=d2, which=rng.choice(["bottleneck", "wasserstein"]), reps=["float"])
    elif ep == "history":
        names = ["bottleneck", "wasserstein", "heat", "sliced", "entropy", "imager_fit_transform", "imager_transform",
                 "persimage", "exact", "exact_add", "approx", "landscaper", "death_vector", "plot"]
        if not integral or "list" in reps:
            pass
        ops = [rng.choice(names) for _ in range(rng.randint(3, 6))]
        if cls in ("narrow", "narrow_int") and rng.random() < 0.6:
            ops = [rng.choice(sorted(NARROW_TIGHT_OPS)) for _ in range(rng.randint(3, 5))]     # all in float64: tight comparison
        c.update(d1=d1 or _dgm(rng, 2, integral), d2=d2, ops=ops)
        if cls in ("narrow", "narrow_int"):
            c["reps"] = [r for r in reps if r != "list"]
        elif integral:
            # list form: only the functions that accept nested lists
            c["reps"] = ["float", "int", "int32", "fview"]
        elif repcmp:
            c["reps"] = ["float", "fview"]
    elif ep == "estimator_sweep":
        kind = rng.choice(["imager", "imager", "persimage", "landscaper"])
        if cls == "integral_params":
            kind = "imager"
        order = list(reps) if integral or cls == "narrow" else ["float", "fview", "list"]
        rng.shuffle(order)
        c.pop("repcmp", None)
        c.update(kind=kind, order=order, reps=["float"], dgms=[d1 or _dgm(rng, 2, integral), d2], refit=rng.random() < 0.5,
                 skew=rng.random() < 0.75, pixel_size=rng.choice([0.5, 1.0]), spread=rng.choice([None, 1.0]),
                 num_steps=rng.choice([8, 15]), flatten=rng.random() < 0.5)
        if kind == "imager":
            _imager_params(rng, c, directed=(cls == "integral_params" or rng.random() < 0.5), variant=variant)
    elif ep == "gromov_hausdorff":
        k = 2 if rng.random() < 0.7 else 3
        c.update(graphs=[_graph(rng, rng.randint(2, 6)) for _ in range(k)], form=rng.choice(["dense", "list", "csr"]),
                 np_seed=rng.randrange(1000), reps=["float"], integral=False)
        if variant is not None or rng.random() < 0.4:
            _graph_containers(rng, c, variant)
    if cls == "narrow":
        for key in ("d1", "d2", "x", "y"):
            if key in c:
                c[key] = _round32(c[key])
        if "dgms" in c:
            c["dgms"] = [_round32(d) for d in c["dgms"]]
    return c


def _round32(v):
    """The nearest float32 value of every finite number in a nested list (as a Python float)."""
    import struct
    if isinstance(v, list):
        return [_round32(x) for x in v]
    if isinstance(v, float) and v == v and abs(v) != float("inf"):
        return struct.unpack("f", struct.pack("f", v))[0]
    return v



# ---- structured families for the call-order monitor -------------------------------------------------
ORDER_KINDS = ["heat", "splits", "sliced", "bvn", "kernels_weights", "imager", "landscapes", "entropy", "mgh", "mixed"]


def _order_items(rng, kind):
    it = []

    def add(fn, **a):
        it.append({"fn": fn, "args": a})
    integral = rng.random() < 0.5
    a_n = rng.randint(1, 4)
    b_n = a_n + rng.randint(1, 3)
    A, B = _dgm(rng, a_n, integral), _dgm(rng, b_n, integral)
    tot = a_n + b_n
    c_n = rng.choice([k for k in range(1, tot) if k not in (a_n, b_n)] or [1])
    C, D = _dgm(rng, c_n, integral), _dgm(rng, tot - c_n, integral)
    if kind in ("heat", "mixed"):
        for sg in [0.4, 1, 1.0, 2, 0.1, 2.0]:
            add("heat", d1=A, d2=B, sigma=sg)
        add("heat", d1=B, d2=A, sigma=0.4); add("heat", d1=A, d2=A, sigma=1); add("heat", d1=A, d2=C, sigma=0.4)
    if kind in ("splits", "mixed"):
        for fn in ("bottleneck", "wasserstein"):
            for m in (False, True):
                for x, y in ((A, B), (B, A), (C, D), (D, C), (A, A), (B, D)):
                    add(fn, d1=x, d2=y, matching=m)
            add(fn, d1=A + [[0.5, "inf"]], d2=B, matching=False)
    if kind in ("sliced", "mixed"):
        for M in (1, 5, 10, 50):
            add("sliced_wasserstein", d1=A, d2=B, M=M); add("sliced_wasserstein", d1=B, d2=A, M=M)
        add("sliced_wasserstein", d1=C, d2=D, M=5)
    if kind in ("bvn", "mixed"):
        for n in (rng.randint(2, 6), rng.randint(7, 20)):
            x = [rng.uniform(-1, 2) for _ in range(n)]; y = [rng.uniform(-1, 2) for _ in range(n)]
            mu = [rng.uniform(0, 1), rng.uniform(0, 1)]
            for v, r in ((1.0, 0.0), (1.0, 0.5), (0.01, 0.93), (0.01, 0.95), (0.01, -0.95), (0.0025, 0.99), (1.0, 0.95), (4.0, -0.925), (0.04, 0.3)):
                add("bvn_cdf", x=x, y=y, mu=mu, sxx=v, syy=v, sxy=r * v)
                add("gaussian", x=x, y=y, mu=mu, sigma=[[v, r * v], [r * v, v]])
    if kind in ("kernels_weights", "mixed"):
        n = rng.randint(2, 6)
        x = [rng.uniform(-1, 3) for _ in range(n)]; y = [rng.uniform(0, 3) for _ in range(n)]
        for w, h in ((1, 1), (1.5, 0.5), (0.5, 2), (2.0, 2)):
            add("uniform", x=x, y=y, mu=[0.5, 0.5], width=w, height=h)
        for pr in ({"low": 0.0, "high": 1.0, "start": 0.0, "end": 1.0}, {"low": 0.0, "high": 2.0, "start": 0.5, "end": 3.0},
                   {"low": 1, "high": 2, "start": 0, "end": 2}):
            add("linear_ramp", x=x, y=y, params=pr)
        for e in (1, 1.0, 2, 0.5, 3.0):
            add("persistence", x=x, y=y, n=e)
    if kind in ("imager", "mixed"):
        dg = [A, B]
        ctors = [{"pixel_size": 0.5}, {"pixel_size": 1.0}, {"pixel_size": 0.5, "birth_range": [0.0, 4.0], "pers_range": [0.0, 3.0]},
                 {"pixel_size": 0.5, "kernel_params": {"sigma": [[1.0, 0.0], [0.0, 1.0]]}},
                 {"pixel_size": 0.5, "kernel_params": {"sigma": [[0.01, 0.0095], [0.0095, 0.01]]}},
                 {"pixel_size": 0.5, "kernel_params": {"sigma": [[0.04, -0.038], [-0.038, 0.04]]}},
                 {"pixel_size": 0.5, "kernel_params": {"sigma": [[1.0, 0.5], [0.5, 2.0]]}},
                 {"pixel_size": 0.5, "kernel": "uniform", "kernel_params": {"width": 1.0, "height": 0.5}},
                 {"pixel_size": 0.5, "weight": "linear_ramp", "weight_params": {"low": 0.0, "high": 1.0, "start": 0.0, "end": 2.0}},
                 {"pixel_size": 0.5, "weight_params": {"n": 2.0}}]
        for ct in ctors:
            add("imager_transform", dgms=dg, ctor=ct, skew=True)
        add("imager_transform", dgms=[B, A], ctor=ctors[0], skew=True)
        add("imager_transform", dgms=dg, ctor=ctors[0], skew=False)
        add("imager_fit_transform", dgms=dg, ctor=ctors[0], skew=True)
        add("imager_fit_transform", dgms=[C, D], ctor=ctors[4], skew=True)
    if kind in ("landscapes", "mixed"):
        for pp in (1, 2, 2.0, 3, -1):
            add("exact_pnorm", d1=A, p=pp); add("exact_pnorm", d1=B, p=pp)
        add("exact_pairs", d1=A); add("exact_pairs", d1=B); add("exact_add", d1=A, d2=B); add("exact_add", d1=B, d2=A)
        for st, sp, ns in ((None, None, 10), (None, None, 21), (0.0, 12.0, 13), (0, 12, 25), (-1.0, 9.0, 13), (0.0, 12.0, 10)):
            add("approx_values", d1=A, start=st, stop=sp, num_steps=ns)
            add("approx_values", d1=B, start=st, stop=sp, num_steps=ns)
            add("approx_pnorm", d1=A, start=st, stop=sp, num_steps=ns, p=2)
            add("landscaper", d1=A, start=st, stop=sp, num_steps=ns, flatten=bool(ns % 2))
            add("vectorize", d1=A, start=st, stop=sp, num_steps=ns)
        add("death_vector", d1=A); add("death_vector", d1=B)
    if kind in ("entropy", "mixed"):
        Ai = A + [[0.25, "inf"]]
        for kw in ({}, {"normalize": True}, {"keep_inf": True, "val_inf": 10.0}, {"keep_inf": True, "val_inf": 20}):
            add("persistent_entropy", dgms=[Ai, B], **kw); add("persistent_entropy", dgms=[B, Ai], **kw)
        add("persistent_entropy", dgms=[A]); add("persistent_entropy", dgms=[C, D])
    if kind in ("mgh",):
        g1, g2, g3 = _graph(rng, rng.randint(3, 5)), _graph(rng, rng.randint(4, 6)), _graph(rng, rng.randint(3, 5))
        for sd in (1, 2, 1):
            add("gromov_hausdorff", g1=g1, g2=g2, np_seed=sd); add("gromov_hausdorff", g1=g2, g2=g1, np_seed=sd)
        add("gromov_hausdorff", g1=g1, g2=g3, np_seed=1); add("gromov_hausdorff", g1=g3, g2=g3, np_seed=3)
    if kind == "mixed":
        rng.shuffle(it)
        it = it[:60]
    return it


def _order_case(rng, kind):
    return {"ep": "call_order", "cls": "order:" + kind, "kind": kind, "items": _order_items(rng, kind),
            "shuffle_seed": rng.randrange(10 ** 6), "reps": ["float"], "integral": False}


EP_NAMES = ["bottleneck", "wasserstein", "heat", "sliced_wasserstein", "persistent_entropy",
            "PersistenceImager.fit", "PersistenceImager.transform", "PersistenceImager.fit_transform",
            "PersistenceImager.config", "PersistenceImager.plot_diagram", "PersistenceImager.plot_image",
            "PersImage.transform", "PersImage.to_landscape", "images_kernels", "images_weights",
            "PersLandscapeExact", "PersLandscapeExact.arith", "PersLandscapeExact.critical_pairs",
            "PersLandscapeApprox", "PersLandscapeApprox.arith", "PersLandscapeApprox.values",
            "PersistenceLandscaper", "landscapes.tools", "landscapes.plot", "plot_diagrams", "matching_plots",
            "gromov_hausdorff", "history", "estimator_sweep"]
# entry points with secondary parameters under which integral inputs give fractional intermediate values: extra
# cases of class "integral_params" (all five forms, directed non-default weight / kernel / range parameters)
PARAM_EPS = ["PersistenceImager.fit_transform", "PersistenceImager.transform", "PersistenceImager.fit", "images_weights",
             "estimator_sweep"]
NARROW_EPS = ["bottleneck", "wasserstein", "heat", "sliced_wasserstein", "persistent_entropy", "PersistenceImager.fit",
              "PersistenceImager.transform", "PersistenceImager.fit_transform", "PersistenceImager.plot_diagram",
              "PersImage.transform", "PersImage.to_landscape", "images_weights", "PersLandscapeExact", "PersLandscapeExact.arith",
              "PersLandscapeApprox", "PersLandscapeApprox.arith", "PersistenceLandscaper", "landscapes.tools", "plot_diagrams",
              "history", "estimator_sweep"]
CLASSES = ["random", "integral", "integral", "inf", "integral_inf", "single", "empty", "dupes", "scaled"]
SLOW = {"landscapes.plot", "matching_plots", "PersistenceImager.plot_diagram", "PersistenceImager.plot_image", "plot_diagrams"}

# translator entry point -> dynamic entry points that exercise it (for the targeted search)
def _eps_for(qual):
    q = qual.replace(" (setter)", "")
    m = []
    table = [("bottleneck.", ["bottleneck", "matching_plots"]), ("wasserstein.", ["wasserstein", "matching_plots"]),
             ("heat.", ["heat"]), ("sliced_wasserstein.", ["sliced_wasserstein"]), ("persistent_entropy.", ["persistent_entropy"]),
             ("images.PersImage.to_landscape", ["PersImage.to_landscape", "PersImage.transform"]),
             ("images.PersImage", ["PersImage.transform"]),
             ("images.PersistenceImager.fit_transform", ["PersistenceImager.fit_transform"]),
             ("images.PersistenceImager.fit", ["PersistenceImager.fit", "PersistenceImager.fit_transform"]),
             ("images.PersistenceImager.transform", ["PersistenceImager.transform", "PersistenceImager.fit_transform"]),
             ("images._transform", ["PersistenceImager.transform", "PersistenceImager.fit_transform"]),
             ("images.PersistenceImager.plot_diagram", ["PersistenceImager.plot_diagram"]),
             ("images.PersistenceImager.plot_image", ["PersistenceImager.plot_image"]),
             ("images.PersistenceImager", ["PersistenceImager.config", "PersistenceImager.fit"]),
             ("images_kernels.", ["images_kernels", "PersistenceImager.transform"]), ("images_weights.", ["images_weights", "PersistenceImager.transform"]),
             ("exact.", ["PersLandscapeExact", "PersLandscapeExact.arith", "PersLandscapeExact.critical_pairs", "landscapes.tools"]),
             ("approximate.", ["PersLandscapeApprox", "PersLandscapeApprox.arith", "PersLandscapeApprox.values", "landscapes.tools", "PersistenceLandscaper"]),
             ("auxiliary.", ["PersLandscapeExact.critical_pairs", "PersLandscapeExact.arith", "PersLandscapeApprox.arith", "PersLandscapeApprox"]),
             ("tools.", ["landscapes.tools"]), ("transformer.", ["PersistenceLandscaper"]),
             ("visuals.plot_landscape", ["landscapes.plot"]), ("visuals.plot_diagrams", ["plot_diagrams", "matching_plots"]),
             ("visuals.", ["matching_plots", "plot_diagrams"]), ("gromov_hausdorff.", ["gromov_hausdorff"])]
    for pre, eps in table:
        if q.startswith(pre):
            return eps
    return m


def generate(rng, tier):
    per = 9 if tier == "quick" else 120
    cases = []
    for ep in EP_NAMES:
        k = per if ep not in SLOW else max(4, per // 3)
        for i in range(k):
            cls = CLASSES[i % len(CLASSES)] if i < len(CLASSES) else rng.choice(CLASSES)
            cases.append(_make(rng, ep, cls))
    for ep in PARAM_EPS:
        for v in range(3 if tier == "quick" else 42):
            cases.append(_make(rng, ep, "integral_params", variant=v))
    # landscape tools on landscapes that already live on the common grid (nothing to re-grid): every
    # combination of {lc_approx, average_approx, snap_pl} x {one shared explicit grid, first landscape covers}
    for v in range(6 if tier == "quick" else 36):
        cases.append(_make(rng, "landscapes.tools", ["random", "integral", "dupes"][v // 6 % 3], variant=v))
    # narrow element types (float32 / float16 / uint8 / int16) and Fortran order: one case per entry point that takes
    # diagrams, more for the entry points that must agree at full tolerance
    k = 0
    for ep in EP_NAMES:
        if ep not in NARROW_EPS:
            continue
        n = (4 if ep in NARROW_TIGHT or ep == "history" else 1) * (1 if tier == "quick" else 12)
        if ep in SLOW:
            n = 1 if tier == "quick" else 4
        for i in range(n):
            cases.append(_make(rng, ep, ["narrow", "narrow_int", "narrow", "narrow"][i % 4] if n > 1 else ["narrow", "narrow_int"][k % 2]))
            k += 1
    # graph containers of the mGH front end: every sparse format with explicitly stored zeros, strided / Fortran dense
    for v in range(len(GRAPH_FORMS) if tier == "quick" else 6 * len(GRAPH_FORMS)):
        cases.append(_make(rng, "gromov_hausdorff", "containers", variant=v))
    for kind in ORDER_KINDS:
        for _ in range(1 if tier == "quick" else 4):
            cases.append(_order_case(rng, kind))
    return cases


def search_generate(rng, n):
    """Targets the entry points whose regenerated obligation failed in this run (if any)."""
    eps = []
    for f in _FAILED:
        for e in _eps_for(f["qual"]):
            if e not in eps:
                eps.append(e)
    if not eps:
        eps = list(EP_NAMES)
    elif "history" not in eps:
        eps.append("history")
    cases = []
    per = max(6, min(40, n // max(1, len(eps))))
    for ep in eps:
        for i in range(per):
            c = _make(rng, ep, rng.choice(["random", "random", "integral", "integral_params", "inf", "single", "narrow", "narrow_int"]),
                      variant=(i if ep == "gromov_hausdorff" and i % 2 else None))
            if "skew" in c:
                c["skew"] = True
            if "lifetime" in c:
                c["lifetime"] = True
            cases.append(c)
    for kind in ORDER_KINDS:
        for _ in range(2):
            cases.append(_order_case(rng, kind))
    return cases


def corpus():
    d = [[1.0, 3.0], [2.0, 5.0]]
    di = [[1, 3], [2, 5], [0, 4]]
    return [
        {"ep": "PersistenceImager.transform", "dgms": [d], "single": True, "skew": True, "reps": ["float"], "integral": False, "kernel": "gaussian"},
        {"ep": "PersistenceImager.fit", "dgms": [d, di], "single": False, "skew": True, "reps": ["float"], "integral": False},
        {"ep": "PersistenceImager.fit_transform", "dgms": [di], "single": True, "skew": True, "reps": ["float", "int", "list"], "integral": True},
        {"ep": "PersistenceImager.plot_diagram", "dgms": [d], "skew": True, "reps": ["float"], "integral": False},
        {"ep": "PersImage.transform", "dgms": [di], "single": True, "reps": ["float", "int", "list"], "integral": True},
        {"ep": "plot_diagrams", "dgms": [d + [[0.5, "inf"]]], "single": True, "lifetime": True, "reps": ["float"], "integral": False},
        {"ep": "PersLandscapeExact", "dgms": [[[2, 6], [1, 5], [3, 4]]], "reps": ["float", "int"], "integral": True},
        {"ep": "bottleneck", "d1": di, "d2": [[0, 2]], "matching": True, "reps": ["float", "int", "list"], "integral": True},
        {"ep": "gromov_hausdorff", "graphs": [[[0, 1], [1, 0]], [[0, 1, 0], [1, 0, 1], [0, 1, 0]]], "form": "dense", "np_seed": 7, "reps": ["float"], "integral": False},
    ]


def canonical(c):
    return json.dumps({k: v for k, v in c.items() if k not in ("cls", "_id", "seed")}, sort_keys=True, default=str)


def shrink_candidates(c):
    if c["ep"] == "call_order":
        it = c["items"]
        if len(it) > 2:
            for half in (it[:len(it) // 2], it[len(it) // 2:], it[::2], it[1::2]):     # big steps first
                if 2 <= len(half) < len(it):
                    d = dict(c); d["items"] = half; yield d
            for j in range(len(it)):
                d = dict(c); d["items"] = it[:j] + it[j + 1:]; yield d
        return
    if len(c.get("ops", [])) > 1:
        for j in range(len(c["ops"])):
            d = dict(c); d["ops"] = c["ops"][:j] + c["ops"][j + 1:]; yield d
    for key in ("d1", "d2"):
        if key in c and len(c[key]) > 1:
            for j in range(len(c[key])):
                d = dict(c); d[key] = c[key][:j] + c[key][j + 1:]; yield d
    if "dgms" in c:
        if len(c["dgms"]) > 1 and not c.get("single") and c["ep"] not in ("PersLandscapeExact.arith", "PersLandscapeApprox.arith", "landscapes.tools", "PersistenceLandscaper"):
            for i in range(len(c["dgms"])):
                d = dict(c); d["dgms"] = c["dgms"][:i] + c["dgms"][i + 1:]
                if d.get("plot_only"):
                    d.pop("plot_only")
                yield d
        for i, dg in enumerate(c["dgms"]):
            if len(dg) > 1:
                for j in range(len(dg)):
                    d = dict(c); d["dgms"] = [list(x) for x in c["dgms"]]; d["dgms"][i] = dg[:j] + dg[j + 1:]; yield d
    if "x" in c and "y" in c and len(c["x"]) > 1 and len(c["x"]) == len(c["y"]):
        for j in range(len(c["x"])):
            d = dict(c); d["x"] = c["x"][:j] + c["x"][j + 1:]; d["y"] = c["y"][:j] + c["y"][j + 1:]; yield d
    if len(c.get("order", [])) > 2:
        for j in range(len(c["order"])):
            d = dict(c); d["order"] = c["order"][:j] + c["order"][j + 1:]; yield d
    if len(c.get("reps", [])) > 2:
        for j in range(len(c["reps"])):
            d = dict(c); d["reps"] = c["reps"][:j] + c["reps"][j + 1:]; yield d
    if len(c.get("reps", [])) > 1:
        for r in c["reps"]:
            d = dict(c); d["reps"] = [r]; yield d
