"""C13 - Gaussian / uniform kernels are valid, accurate CDFs (persim/images_kernels.py).

Model: coq/Model/KernelM.v over R (uniform_cdf, sbvn_cdf, bvn_cdf with both quadrature regimes, the
high-correlation expansion with its masks and the r<0 reflection; `Legacy` = pinned line 173
`asr > 100`, intended = `asr > -100`).  Tie: per point a kernel-checked lemma
`Rabs (gaussian_cdf Phi_int mu sigma x y - impl) <= 1e-9` (Phi arguments enclosed by `integral`,
value by `interval`), uniform kernel compared exactly on a dyadic grid, norm_cdf against its RInt
definition.  The predicate below is the SPEC evaluated numerically and independently of the model
(adaptive quadrature of Plackett's integral, box-CDF in exact rationals)."""
import math
from fractions import Fraction

from .. import core, history

PID = "C13"
THEOREMS = [
    "uniform_is_box_cdf", "uniform_in_unit_interval", "uniform_monotone_x", "uniform_monotone_y",
    "uniform_rectangle_mass_nonneg", "uniform_zero_left_or_below", "uniform_one_right_and_above",
    "gaussian_zero_cov_is_product", "product_kernel_is_cdf", "product_kernel_tails",
    "bvn_legacy_refuted", "bvn_intended_accurate_at_witnesses",
    "bvn_legacy_eq_intended_below_0925", "normal_cdf_integral_monotone",
    "normal_cdf_integral_symmetric", "bvn_zero_covariance_is_product", "gaussian_exchange_symmetric",
]
RULE = ("seeded generator over classes {gaussian with |r| in [0,0.3), [0.3,0.75), [0.75,0.925), [0.925,1) of both "
        "signs incl. values within 1e-3..1e-6 of the thresholds, zero covariance, far tails (+-40 sigma), variances "
        "1e-2..1e2, tiny covariance matrices (variances 1e-12..1e-6 at correlations up to 0.9999), small variances 1e-4..0.2 at "
        "0.85 <= |r| < 0.925, both coordinates 38..150 sd and 300..1e4 sd out in every quadrant at |r| >= 0.925, shifted means} each evaluated at the four corners of a random box in one vectorised call; "
        "{uniform kernel on a dyadic grid (exact) and on random doubles}; {norm_cdf}; {call histories in one process "
        "(harness/history.py), 5-8 calls each: ONE covariance container (ndarray, nested list, non-contiguous view) edited in "
        "place between calls across zero / non-zero covariance, the quadrature regimes, a sign flip and new variances; one mean "
        "container updated in place; one pair of point buffers refilled; two covariances x two point sets with equal-valued "
        "arguments being the same objects (nested-list / Fortran-ordered / view covariances, list / tuple means); a rejected "
        "or out-of-quantifier call (malformed covariance, x and y of different lengths, |covariance| > sqrt(var_x var_y)) "
        "between clean calls on the same containers, the next call taking the correlated form; gaussian / uniform / norm_cdf "
        "interleaved on one mean container with the box size swept and the uniform corners inside the box; ONE mean object "
        "interned by value and never rewritten by the caller (float64 ndarray, row / strided column of a 2-D float64 array, "
        "read-only array, list, tuple) handed to 8 calls: the uniform kernel on three point sets (inside / on the edges / "
        "straddling the box) and two box sizes, the Gaussian kernel in between, the first two calls again at the end, points as "
        "plain / strided / read-only arrays - every call of a "
        "history must satisfy the predicate on its own, the first call is repeated at the end; an in-place slot is edited the "
        "way a caller edits it: only entries whose value changes are written again}; {long vectors: ONE call with a few more "
        "points than a typical block size (quick: 4096, 10000, 32768, 65536, 100000, 131072 + 1..101; thorough: 512 .. 262144), "
        "Gaussian in every regime / zero covariance / uniform / norm_cdf, the 4 corners followed by 3..9 further points "
        "repeated cyclically (period 7, 11 or 13); per point the smallest and the largest value over all its positions must "
        "both satisfy the pointwise clauses, so every position is judged}.  One corner per Gaussian case, "
        "every uniform / norm_cdf case is certified inside Coq against the model (1e-9 / exact / 1e-10); the first "
        "Gaussian case(s) of every class and every corpus witness are also certified inside Coq against Plackett's "
        "integral (1e-7); all four corners of every case are checked numerically by the predicate.  A case is non-trivial when a Gaussian corner value lies "
        "strictly between 1e-6 and 1-1e-6, or a uniform corner lies strictly inside the box, or it is a tail / "
        "outside-the-box case by construction; a history is non-trivial when at least two of its calls are; distinct = distinct JSON input")
TRUSTED_BASE = [
    "harness/src2coq.py (kernel_regen): its per-evaluation-point reading of the vectorised NumPy of images_kernels.py "
    "(np.outer / np.sum(axis=1) over the quadrature nodes, masks as conditionals) for the 4 regenerated obligations "
    "regen_uniform, regen_sbvn_cdf, regen_gauss_legendre_quad, regen_bvn_cdf (proved by Corr/RegenTac.v)",
    "Coq 8.16.1 kernel (vm_compute inside the reflexive checkers of coq-interval; no native_compute)",
    "stdlib axioms of the classical reals: ClassicalDedekindReals.sig_forall_dec, sig_not_dec, "
    "FunctionalExtensionality.functional_extensionality_dep, Classical_Prop.classic",
    "coq-interval (`interval`, `integral`) incl. the primitive-float / int63 specification axioms of the stdlib; Coquelicot RInt",
    "Plackett's single-integral identity taken as the DEFINITION of the bivariate normal CDF (Spec/BvnS.v: Phi2, bvn_ref); "
    "Phi_int = 1/2 + (2 pi)^(-1/2) int_0^x exp(-t^2/2) dt as the definition of the normal CDF",
    "hand-written model Model/KernelM.v of images_kernels.py (decimal Gauss-Legendre literals as written in the source)",
    "harness: generators, float -> exact-rational printer, SciPy `quad` reference used by the Python predicate; call "
    "histories (harness/history.py: argument objects shared by identity or overwritten in place between calls) are judged "
    "by the spec predicate only, not by the Coq model; for a long-vector case the implementation runner reduces the "
    "returned vector to its length, the count of non-finite values and, per distinct point, the minimum and the maximum "
    "over the positions holding that point (np.argmin / np.argmax), and the Coq certificate covers corner (x2, y2) only",
]
ASSUMPTIONS = [
    "scipy.special.erfc is the complementary error function: norm_cdf is monitored against the RInt definition per run "
    "(1e-10) and theorems quantify over every non-decreasing Phi : R -> [0,1] with limits 0 and 1",
    "binary64 rounding of the implementation is bounded by the 1e-9 (Gaussian) / 1e-12 (uniform, tolerance family) "
    "tolerances, not proved; NumPy broadcasting / boolean masks as modelled (one point at a time)",
    "accuracy of the intended bvn model against Plackett's integral is certified at sampled points only (no uniform "
    "quadrature-error theorem)",
    "independence of a call from earlier calls in the process (no state kept in the module or in argument objects) is "
    "sampled by the call histories, not proved: the Coq model is a pure function of one call's arguments",
    "independence of a value from the NUMBER and position of the evaluation points of the call is sampled by the long-vector "
    "cases (lengths up to 131072+101 quick / 262144+101 thorough), not proved: the model and the regenerated obligations read "
    "the vectorised source one evaluation point at a time",
]
COQ_DEPS = ["Corr/KernelCorr.vo", "Corr/RegenTac.vo"]


EXTRA_OBLIGATIONS_ASYNC = True    # compiled while the correspondence runs


def extra_obligations(tier):
    """Second tie (DESIGN 12.7): uniform, sbvn_cdf, gauss_legendre_quad and the whole of bvn_cdf are re-translated from the
    current images_kernels.py (read per evaluation point) and proved equal, as real-valued functions, to Model/KernelM.v;
    norm_cdf and the dispatch of gaussian() must still be the modelled text."""
    from .. import src2coq
    return src2coq.check_regen(PID, "kernels", src2coq.kernel_regen, core.REPO)
COQ_TIMEOUT = 900
TOL_G = Fraction(1, 10 ** 9)
TOL_U = Fraction(1, 10 ** 12)
TOL_P = Fraction(1, 10 ** 10)
ACC = 1e-7          # the property's accuracy against the reference
ROUND = 1e-12       # rounding allowance for range / tails
MONO = 1e-9         # allowance for monotonicity / rectangle mass (cancellation of four values)
SQ2 = math.sqrt(2.0)


# ---------------------------------------------------------------------------------- generators
def _gauss_case(rng, cls, r=None, scale=None, tail=False, far=None):
    if r is None:
        lo, hi = {"g_mid3": (0.0, 0.3), "g_mid6": (0.3, 0.75), "g_mid10": (0.75, 0.925),
                  "g_high": (0.925, 0.9999)}[cls]
        mode = rng.random()
        if mode < 0.3 and cls != "g_high":      # close to the upper threshold, from below
            r = hi - 10 ** rng.uniform(-6, -3)
        elif mode < 0.6 and lo > 0:             # close to the lower threshold, from above
            r = lo + 10 ** rng.uniform(-6, -3)
        else:
            r = rng.uniform(lo + 1e-6, hi - 1e-6) if lo > 0 else rng.uniform(1e-3, hi - 1e-6)
        if rng.random() < 0.5:
            r = -r
    if scale is None:
        scale = rng.choice(["unit", "unit", "vars", "vars", "shift"])
    if scale == "unit":
        sxx = syy = 1.0
        mx = my = 0.0
    elif scale == "small":                       # variances well below 1: |covariance| << |correlation|
        sxx = 10 ** rng.uniform(-4, math.log10(0.2))
        syy = 10 ** rng.uniform(-4, math.log10(0.2))
        mx, my = rng.choice([(0.0, 0.0), (rng.uniform(-1, 1), rng.uniform(0, 1))])
    elif scale == "tiny":                        # covariance entries far below any absolute "is zero" test
        sxx = 10 ** rng.uniform(-12, -6)
        syy = sxx * 10 ** rng.uniform(-1, 1)
        mx, my = rng.choice([(0.0, 0.0), (rng.uniform(-1, 1), rng.uniform(0, 1))])
    else:
        sxx = 10 ** rng.uniform(-2, 2)
        syy = 10 ** rng.uniform(-2, 2)
        mx, my = (rng.uniform(-3, 3), rng.uniform(-3, 3)) if scale == "shift" else (0.0, 0.0)
    sxy = r * math.sqrt(sxx * syy)
    sx, sy = math.sqrt(sxx), math.sqrt(syy)
    if tail and far is None and rng.random() < 0.3:   # one coordinate far, the other moderate or far
        za = rng.choice([-40.0, 40.0, rng.uniform(-2, 2)])
        zb = rng.choice([-40.0, 40.0]) if abs(za) < 10 else rng.choice([-40.0, 40.0, rng.uniform(-2, 2)])
        z = [za, za + rng.uniform(0.1, 1), zb, zb + rng.uniform(0.1, 1)]
    elif tail:                                   # both coordinates far: 38..150 sd (x: 300..1e4 sd), all sign patterns
        lo, hi = (300.0, 1e4) if tail == "x" else (38.0, 150.0)
        ma, mb = (10 ** rng.uniform(math.log10(lo), math.log10(hi)) for _ in range(2))
        sa = rng.choice([-1, 1])
        sb = rng.choice([-1, 1]) if far is None else (-sa if (far == "opposite") == (r > 0) else sa)
        # far == "opposite": the quadrant where h*k -> -inf after the r<0 reflection (masks hk > -100 and asr1 > -100 off)
        za, zb = sa * ma, sb * mb
        z = [za, za + rng.uniform(0.1, 1), zb, zb + rng.uniform(0.1, 1)]
    else:
        w = rng.choice([0.3, 1.0, 2.5])
        za, zb = rng.gauss(0, w), rng.gauss(0, w)
        if rng.random() < 0.3:                   # near the ridge h ~ +-k where the expansion is delicate
            zb = (za if r > 0 else -za) + rng.uniform(0.01, 0.2)
        z = [za, za + abs(rng.gauss(0, w)) + 0.01, zb, zb + abs(rng.gauss(0, w)) + 0.01]
    box = [mx + sx * z[0], mx + sx * z[1], my + sy * z[2], my + sy * z[3]]
    name = ("g_xtail" if tail == "x" else "g_tail") if tail else {"tiny": "g_tiny", "small": "g_smallvar"}.get(scale, cls)
    return {"cls": name, "kind": "gauss", "mu": [mx, my], "sigma": [sxx, sxy, syy], "box": box}


def _zero_case(rng):
    c = _gauss_case(rng, "g_mid3")
    c["sigma"][1] = 0.0
    c["cls"] = "g_zero"
    return c


def _uniform_case(rng, exact):
    if exact:
        g = 2.0 ** -rng.randint(2, 6)
        q = lambda lo, hi: rng.randint(int(lo / g), int(hi / g)) * g
        w, h = 2.0 ** rng.randint(-2, 2), 2.0 ** rng.randint(-2, 2)
        mx, my = q(-2, 2), q(-2, 2)
        xs = sorted([q(-3, 3), q(-3, 3)])
        ys = sorted([q(-3, 3), q(-3, 3)])
        if rng.random() < 0.3:                   # corner exactly on the box edge
            xs[0] = mx - w / 2
            xs[1] = max(xs[1], xs[0])
        if rng.random() < 0.3:
            ys[1] = my + h / 2
            ys[0] = min(ys[0], ys[1])
    else:
        w, h = 10 ** rng.uniform(-2, 2), 10 ** rng.uniform(-2, 2)
        mx, my = rng.uniform(-3, 3), rng.uniform(-3, 3)
        xs = sorted([mx + w * rng.uniform(-1, 1), mx + w * rng.uniform(-1, 1)])
        ys = sorted([my + h * rng.uniform(-1, 1), my + h * rng.uniform(-1, 1)])
    return {"cls": "u_exact" if exact else "u_tol", "kind": "uniform", "mu": [mx, my], "width": w, "height": h,
            "box": [xs[0], xs[1], ys[0], ys[1]]}


def _phi_case(rng):
    x = rng.choice([rng.gauss(0, 1), rng.gauss(0, 3), rng.uniform(-9, 9), 0.0, float(rng.randint(-6, 6))])
    return {"cls": "normcdf", "kind": "phi", "x": x}


# ------------------------------------------------------------------------------ call histories
def _rho(rng, regime):
    if regime == 0:
        return 0.0
    lo, hi = [(0.01, 0.3), (0.3, 0.75), (0.75, 0.925), (0.925, 0.999)][regime - 1]
    return rng.choice([-1, 1]) * rng.uniform(lo + 1e-4, hi - 1e-4)


def _hstep(rng, mu, var, r, z=None, how=None):
    """a Gaussian step: mean, variances, correlation, box in standardised coordinates (kept moderate: non-trivial)"""
    mx, my = mu
    sxx, syy = var
    if z is None:
        w = rng.choice([0.5, 1.0, 1.5])
        za, zb = rng.gauss(0, w), rng.gauss(0, w)
        z = [za, za + abs(rng.gauss(0, w)) + 0.05, zb, zb + abs(rng.gauss(0, w)) + 0.05]
    sx, sy = math.sqrt(sxx), math.sqrt(syy)
    c = {"cls": "step", "kind": "gauss", "mu": [mx, my], "sigma": [sxx, r * math.sqrt(sxx * syy), syy],
         "box": [mx + sx * z[0], mx + sx * z[1], my + sy * z[2], my + sy * z[3]]}
    if how:
        c["how"] = dict(how)
    return c


def _with_box(c, box):
    d = dict(c)
    d["box"] = list(box)
    return d


def _hist_setup(rng):
    sc = rng.choice(["unit", "vars", "shift", "small"])
    if sc == "unit":
        var, mu = (1.0, 1.0), (0.0, 0.0)
    elif sc == "small":
        var, mu = (10 ** rng.uniform(-4, -1), 10 ** rng.uniform(-4, -1)), (rng.uniform(-1, 1), rng.uniform(0, 1))
    else:
        var = (10 ** rng.uniform(-2, 2), 10 ** rng.uniform(-2, 2))
        mu = (rng.uniform(-3, 3), rng.uniform(-3, 3)) if sc == "shift" else (0.0, 0.0)
    return mu, var


HIST_KINDS = ("cov_inplace", "fault", "mu_inplace", "pts_inplace", "cov_inplace", "shared", "fault", "mixed", "mu_shared")
MU_SHARED_AS = ("ndarray", "rowview", "ndarray", "colview", "readonly", "list", "rowview", "tuple")
FAULTS = ("sigma_shape", "len_mismatch", "not_psd")


def _history(rng, kind, variant=None):
    """One call history (all steps in one process, see harness/history.py).  Every non-fault step is an ordinary
    case of the property and is judged by the ordinary predicate.  `variant` = how many histories of this kind came
    before in the run: it fixes the choices that decide WHICH state could be carried over (fault type, correlated
    vs product form after the fault, mutable vs immutable mean), so that a small sample covers them all."""
    if variant is None:
        variant = rng.randrange(12)
    mu, var = _hist_setup(rng)
    how = {"sigma_as": rng.choice(SIGMA_AS), "mu_as": rng.choice(MU_AS)}
    regs = [0] + rng.sample([1, 2, 3, 4], 3)
    rng.shuffle(regs)
    if regs[0] == 0 and variant % 2 == 0 and kind in ("pts_inplace", "mu_inplace", "shared"):
        regs[0], regs[1] = regs[1], regs[0]      # main covariance correlated (even variants), any (odd variants)
    if kind == "cov_inplace":
        # one covariance container edited in place between calls: zero <-> non-zero covariance, the quadrature
        # regimes, sign flips, new variances; fixed or fresh points; the first covariance again at the end
        how["sigma_slot"] = True
        if how["sigma_as"] == "forder":
            how["sigma_as"] = "list"
        same_pts = rng.random() < 0.5
        first = _hstep(rng, mu, var, _rho(rng, regs[0]), how=how)
        steps = [first]
        v = var
        for k, g in enumerate(regs[1:] + [rng.choice([0, 4])]):
            if rng.random() < 0.4:
                v = (v[0] * rng.choice([0.25, 0.5, 2.0, 4.0]), v[1] * rng.choice([0.25, 0.5, 2.0, 4.0]))
            r = -steps[-1]["sigma"][1] / math.sqrt(steps[-1]["sigma"][0] * steps[-1]["sigma"][2]) if (k == 1 and steps[-1]["sigma"][1] != 0.0) else _rho(rng, g)
            st = _hstep(rng, mu, v, r, how=how)
            steps.append(_with_box(st, first["box"]) if same_pts else st)
        steps.append(dict(first))
    elif kind == "mu_inplace":
        # the imager's loop over persistence pairs: one mean container updated in place, one covariance object
        how["mu_slot"] = True
        if how["mu_as"] == "tuple":
            how["mu_as"] = "list"
        r = _rho(rng, regs[0] if rng.random() < 0.7 else 0)
        first = _hstep(rng, mu, var, r, how=how)
        steps = [first]
        for _ in range(3):
            m2 = (mu[0] + math.sqrt(var[0]) * rng.uniform(-1.5, 1.5), mu[1] + math.sqrt(var[1]) * rng.uniform(-1.5, 1.5))
            st = _hstep(rng, m2, var, r, how=how)
            steps.append(_with_box(st, first["box"]) if rng.random() < 0.6 else st)
        steps.append(dict(first))
    elif kind == "pts_inplace":
        # one pair of pixel-corner buffers refilled between calls; covariance and mean are the same objects throughout
        how["pts_slot"] = True
        r = _rho(rng, regs[0])
        steps = [_hstep(rng, mu, var, r, how=how) for _ in range(3)]
        steps.append(_hstep(rng, mu, var, _rho(rng, regs[1]), how=how))
        steps.append(dict(steps[0]))
    elif kind == "shared":
        # two covariances x two point sets, every argument of equal value being the same object: A1 B1 A2 B2 A1
        a = _hstep(rng, mu, var, _rho(rng, regs[0]), how=how)
        b = _hstep(rng, mu, var, _rho(rng, regs[1]), how=how)
        steps = [a, _with_box(b, a["box"]), _with_box(a, b["box"]), b, dict(a)]
    elif kind == "fault":
        # a call that is rejected (or is outside the property's quantifier) between clean calls on the same containers
        how["sigma_slot"] = rng.random() < 0.6
        if how["sigma_slot"] and how["sigma_as"] == "forder":
            how["sigma_as"] = "ndarray"
        if regs[1] == 0:                         # the call right after the fault takes the correlated form
            regs[0], regs[1] = regs[1], regs[0]
        a = _hstep(rng, mu, var, _rho(rng, regs[0]), how=how)
        b = _hstep(rng, mu, var, _rho(rng, regs[1]), how=how)
        f = FAULTS[variant % len(FAULTS)]
        bad = dict(_with_box(b, a["box"]), fault=f)
        if f == "not_psd":      # |covariance| > sqrt(var_x var_y): not a covariance matrix, no claim made
            bad["sigma"] = [b["sigma"][0], rng.choice([-1, 1]) * 1.5 * math.sqrt(b["sigma"][0] * b["sigma"][2]), b["sigma"][2]]
        steps = [a, bad, _with_box(b, a["box"]), dict(a), b]
    elif kind == "mu_shared":
        # ONE mean object, interned by value and never rewritten by the caller (a float64 ndarray, a row / strided column
        # of a 2-D float64 array such as dgm[i, :], a read-only array, a list, a tuple), handed to several calls: the uniform
        # kernel on different point sets and with the box size swept, the Gaussian kernel in between (product and
        # correlated form), the first call again at the end.  Any call that edits the caller's point shows in the next.
        how["mu_as"] = MU_SHARED_AS[variant % len(MU_SHARED_AS)]
        how["mu_slot"] = False
        how["pts_as"] = rng.choice(PTS_AS)
        u1 = _uniform_case(rng, variant % 2 == 0)
        u1["cls"] = "step"
        u1["how"] = dict(how)
        mx, my = u1["mu"]
        w, h = u1["width"], u1["height"]
        u1["box"] = [mx - w / 4, mx + w / 4, my - h / 4, my + h / 8]            # strictly inside the box
        ub = dict(u1, box=[mx - w / 2, mx + w / 8, my - h / 8, my + h / 2])        # on two edges and inside
        uc = dict(u1, box=[mx - 3 * w / 4, mx - w / 8, my + h / 4, my + 3 * h / 4])  # straddling the box
        u2 = dict(ub, width=w * 2.0, height=h * 0.5)
        g1 = _hstep(rng, (mx, my), var, _rho(rng, regs[0]), how=how)
        g2 = _hstep(rng, (mx, my), var, _rho(rng, regs[1]), how=how)
        first = [u1, ub] if variant % 3 != 2 else [g1, u1]
        rest = [g1 if variant % 3 != 2 else ub, uc, u2, g2]
        steps = first + rest + [dict(first[0]), dict(first[1])]
    else:
        # the kernels interleaved on the same mean / point objects: gaussian, uniform (mean container updated in place,
        # box size swept), norm_cdf
        if variant % 2 == 0 and how["mu_as"] == "tuple":
            how["mu_as"] = rng.choice(["ndarray", "list"])
        how["mu_slot"] = how["mu_as"] != "tuple"
        g1 = _hstep(rng, mu, var, _rho(rng, regs[0]), how=how)
        g2 = _hstep(rng, mu, var, _rho(rng, regs[1]), how=how)
        u1 = _uniform_case(rng, rng.random() < 0.5)
        u1["cls"] = "step"
        u1["how"] = dict(how)
        # corners inside the box (and on its edge after the mean moves), so that every step depends on the mean
        u1["box"] = [u1["mu"][0] - u1["width"] / 4, u1["mu"][0] + u1["width"] / 4,
                     u1["mu"][1] - u1["height"] / 4, u1["mu"][1] + u1["height"] / 8]
        u2 = dict(u1, width=u1["width"] * 2.0, height=u1["height"] * 0.5)
        u3 = dict(u1, mu=[u1["mu"][0] + 0.25 * u1["width"], u1["mu"][1] - 0.25 * u1["height"]])
        p = _phi_case(rng)
        p["cls"] = "step"
        steps = [g1, u1, _with_box(g2, g1["box"]), u2, p, u3, dict(g1), dict(u1)]
    return history.make(kind, steps)


def _histories(rng, n):
    seen, hs = {}, []
    for i in range(n):
        kind = HIST_KINDS[i % len(HIST_KINDS)]
        hs.append(_history(rng, kind, seen.get(kind, 0)))
        seen[kind] = seen.get(kind, 0) + 1
    return hs


# ------------------------------------------------------------------------- long vectors (one call)
# thresholds of typical block sizes; a long case has a few more points than one of them (never a multiple)
LONG_T = (512, 1024, 4096, 8192, 10000, 16384, 32768, 50000, 65536, 100000, 131072)
LONG_T_THOROUGH = LONG_T + (200000, 262144)
LONG_QUICK = (131072, 32768, 65536, 100000, 4096)      # gauss long cases of the quick tier, in this order


def _long_n(rng, t=None, tier="quick"):
    if t is None:
        t = rng.choice(LONG_T if tier == "quick" else LONG_T_THOROUGH)
    return t + rng.choice([1, 1, 2, 3, 5, 17, 37, 101])


def _make_long(rng, c, n, cls):
    """ONE call with n evaluation points: the 4 corners of the box followed by m-4 further points, repeated cyclically
    (position i holds point i mod m, m in {7, 11, 13} is prime to every block size).  The implementation side reports,
    for every one of the m points, the smallest and the largest value found at its positions: the predicate asks both
    to satisfy the property, i.e. EVERY position of the long vector is judged, at the cost of m reference values."""
    m = rng.choice([7, 11, 13])
    extra = []
    if c["kind"] == "gauss":
        mx, my = c["mu"]
        sx, sy = math.sqrt(c["sigma"][0]), math.sqrt(c["sigma"][2])
        r = c["sigma"][1] / (sx * sy)
        for k in range(m - 4):
            za = rng.gauss(0, 1.5)
            zb = rng.gauss(0, 1.5) if k % 3 else (za if r >= 0 else -za) + rng.uniform(-0.3, 0.3)
            extra.append([mx + sx * za, my + sy * zb])
    elif c["kind"] == "uniform":
        g = 2.0 ** -6
        for k in range(m - 4):
            tx, ty = rng.uniform(-0.75, 0.75), rng.uniform(-0.75, 0.75)
            x, y = c["mu"][0] + tx * c["width"], c["mu"][1] + ty * c["height"]
            if c["cls"] == "u_exact":
                x, y = round(x / g) * g, round(y / g) * g
            extra.append([x, y])
    else:
        extra = [rng.choice([rng.gauss(0, 1), rng.uniform(-9, 9), float(rng.randint(-6, 6))]) for _ in range(m - 1)]
    d = dict(c)
    d["cls"] = cls
    d["long"] = {"n": int(n), "extra": extra}
    return d


def _long_case(rng, what, n):
    if what == "zero":
        return _make_long(rng, _zero_case(rng), n, "g_long")
    if what in ("u_tol", "u_exact"):
        return _make_long(rng, _uniform_case(rng, what == "u_exact"), n, "u_long")
    if what == "phi":
        return _make_long(rng, _phi_case(rng), n, "phi_long")
    return _make_long(rng, _gauss_case(rng, what, scale=rng.choice(["unit", "vars", "shift"])), n, "g_long")


def _long_cases(rng, tier, n_gauss, n_other):
    out = []
    regs = ["g_mid3", "g_high", "g_mid6", "g_mid10"]
    for i in range(n_gauss):
        t = LONG_QUICK[i % len(LONG_QUICK)] if tier == "quick" else None
        out.append(_long_case(rng, regs[i % 4], _long_n(rng, t, tier)))
    for i in range(n_other):
        t = (65536, 32768, 10000, 131072)[i % 4] if tier == "quick" else None
        out.append(_long_case(rng, ("zero", "u_tol", "phi", "u_exact")[i % 4], _long_n(rng, t, tier)))
    return out


def _long_points(c):
    """the m distinct points of a long case: [(x, y)] (gauss / uniform) or [x] (norm_cdf)"""
    if c["kind"] == "phi":
        return [c["x"]] + list(c["long"]["extra"])
    xs, ys = _corners(c["box"])
    return list(zip(xs, ys)) + [tuple(p) for p in c["long"]["extra"]]



_TIER = {"tier": "quick"}
# (quick, thorough) case counts per class; quick is sized for <= ~90 s wall on 16 cores
COUNTS = {"g_high": (4, 100), "g_mid3": (3, 70), "g_mid6": (4, 90), "g_mid10": (4, 90), "g_zero": (3, 60),
          "g_tail": (4, 80), "g_xtail": (2, 40), "g_smallvar": (4, 80), "g_tiny": (3, 60), "u_exact": (8, 140), "u_tol": (4, 70), "normcdf": (4, 70), "hist": (18, 360),
          "g_long": (5, 40), "x_long": (4, 24)}
MID = ["g_mid3", "g_mid6", "g_mid10"]


def generate(rng, tier):
    _TIER["tier"] = tier
    n = {k: v[0 if tier == "quick" else 1] for k, v in COUNTS.items()}
    cases = []
    for cls in ("g_high", "g_mid3", "g_mid6", "g_mid10"):
        for _ in range(n[cls]):
            cases.append(_gauss_case(rng, cls))
    for _ in range(n["g_zero"]):
        cases.append(_zero_case(rng))
    for i in range(n["g_tail"]):
        if i % 2 == 0:      # |r| >= 0.925, both coordinates 38..150 sd out, alternating quadrant patterns
            cases.append(_gauss_case(rng, "g_high", tail=True, far=("opposite", "same")[(i // 2) % 2]))
        else:
            cases.append(_gauss_case(rng, rng.choice(MID + ["g_high"]), tail=True))
    for i in range(n["g_xtail"]):
        cases.append(_gauss_case(rng, "g_high" if i % 4 != 3 else rng.choice(MID), tail="x", far=("opposite", "same", "opposite", None)[i % 4]))
    for _ in range(n["g_smallvar"]):
        cases.append(_gauss_case(rng, "g_mid10", r=rng.choice([-1, 1]) * rng.uniform(0.85, 0.9249), scale="small"))
    for i in range(n["g_tiny"]):
        cases.append(_gauss_case(rng, (MID + ["g_high"])[(i + 1) % 4] if tier == "quick" else rng.choice(MID + ["g_high"]), scale="tiny"))
    for _ in range(n["u_exact"]):
        cases.append(_uniform_case(rng, True))
    for _ in range(n["u_tol"]):
        cases.append(_uniform_case(rng, False))
    for _ in range(n["normcdf"]):
        cases.append(_phi_case(rng))
    return cases + _long_cases(rng, tier, n["g_long"], n["x_long"]) + _histories(rng, n["hist"])


def search_generate(rng, n):
    out = []
    for i in range(n):
        t = i % 10
        if i % 8 == 5:          # call histories in volume: every kind once per 72 cases, the variants at random
            out.append(_history(rng, HIST_KINDS[(i // 8) % len(HIST_KINDS)]))
        elif i % 25 == 17:      # long vectors: mostly correlated Gaussian, mostly above the larger thresholds
            what = (MID + ["g_high", "u_tol", "zero", "g_mid10", "g_mid6", "u_exact", "g_high", "phi", "u_tol"])[(i // 25) % 12]
            out.append(_long_case(rng, what, _long_n(rng, None if rng.random() < 0.4 else rng.choice(LONG_T[-4:]))))
        elif t < 4:
            out.append(_gauss_case(rng, "g_high"))
        elif t < 7:
            out.append(_gauss_case(rng, rng.choice(["g_mid3", "g_mid6", "g_mid10"])))
        elif t == 7:
            out.append(_zero_case(rng))
        elif t == 8:
            out.append(_uniform_case(rng, rng.random() < 0.5))
        elif i % 20 == 9:
            out.append(_gauss_case(rng, "g_high", tail=rng.choice([True, "x"]), far=rng.choice(["opposite", "same"])))
        elif i % 20 == 19:
            out.append(_gauss_case(rng, "g_mid10", r=rng.choice([-1, 1]) * rng.uniform(0.85, 0.9249), scale="small"))
        else:
            out.append(_gauss_case(rng, rng.choice(MID + ["g_high"]), scale="tiny"))
    return out


def corpus():
    """corpus/C13/*.json: the witnesses of bvn_legacy_refuted, thresholds hit exactly, minimised failures"""
    import json
    out = []
    d = core.VERIF / "corpus" / PID
    for p in sorted(d.glob("*.json")) if d.is_dir() else []:
        data = json.loads(p.read_text())
        for c in (data if isinstance(data, list) else [data]):
            c = {k: v for k, v in c.items() if k != "name"}
            c["cls"] = "corpus"
            out.append(c)
    return out


# ------------------------------------------------------------------------ implementation side
def _corners(box):
    x1, x2, y1, y2 = box
    return [x1, x2, x1, x2], [y1, y1, y2, y2]


# How the arguments of one call are handed over (optional key "how" of a step; absent = fresh float64 ndarrays, as a
# single case always was).  Mathematically irrelevant - the predicate never looks at it.
#   sigma_as : "ndarray" | "list" (nested list, the form of PersistenceImager's default kernel_params) |
#              "forder" (Fortran-ordered) | "view" (non-contiguous 2x2 window of a larger array)
#   mu_as    : "ndarray" | "list" | "tuple"
#   *_slot   : True = ONE container per history (kept in memo) that is OVERWRITTEN IN PLACE with this step's values
#              before the call (a caller sweeping a parameter by editing kernel_params['sigma'][i][j], a reused
#              pixel-corner buffer); False = interned by value, i.e. equal values of different steps are THE SAME object
#   mu_as    : also "rowview" (row of a 2-D float64 array, the form of dgm[i, :]), "colview" (strided column),
#              "readonly" (float64 ndarray with the WRITEABLE flag off, e.g. the result of np.broadcast_to / a frozen input)
#   pts_as   : "ndarray" | "strided" (every other element of a longer buffer) | "readonly"
# A slot is edited the way a caller edits it: only the entries whose value differs from what the caller wrote last are
# written again, so whatever a call did to the other entries stays visible to the next call.
SIGMA_AS = ("ndarray", "list", "forder", "view")
MU_AS = ("ndarray", "list", "tuple", "rowview", "colview")
PTS_AS = ("ndarray", "ndarray", "strided", "readonly")


def _sigma_obj(np, memo, c):
    how = c.get("how") or {}
    kind = how.get("sigma_as", "ndarray")
    sxx, sxy, syy = c["sigma"]
    rows = [[sxx, sxy], [sxy, syy]]
    if c.get("fault") == "sigma_shape":          # malformed covariance: the call is expected to be rejected
        return [[sxx]] if kind == "list" else np.array([[sxx]], dtype=float)

    def build():
        if kind == "list":
            return [list(rows[0]), list(rows[1])]
        if kind == "forder":
            return np.asfortranarray(np.array(rows, dtype=float))
        if kind == "view":
            big = np.full((4, 6), -7.0)
            v = big[1:3, 2:6:2]
            v[...] = rows
            return v
        return np.array(rows, dtype=float)
    if how.get("sigma_slot"):
        obj = history.intern(memo, ["slot", "sigma", kind], build)
        last = history.intern(memo, ["last", "sigma", kind], lambda: [list(rows[0]), list(rows[1])])
        for i in range(2):
            for j in range(2):
                if last[i][j] != rows[i][j]:
                    obj[i][j] = rows[i][j]           # in place, list and ndarray alike; untouched entries stay as they are
                    last[i][j] = rows[i][j]
        return obj
    return history.intern(memo, ["val", "sigma", kind, rows], build)


def _mu_obj(np, memo, c):
    how = c.get("how") or {}
    kind = how.get("mu_as", "ndarray")
    mx, my = c["mu"]

    def ro():
        a = np.array([mx, my], dtype=float)
        a.flags.writeable = False
        return a
    build = {"list": lambda: [mx, my], "tuple": lambda: (mx, my),
             "rowview": lambda: np.array([[9.5, -3.25], [mx, my], [0.125, 7.0]], dtype=float)[1, :],
             "colview": lambda: np.array([[9.5, mx, -3.25], [0.125, my, 7.0]], dtype=float)[:, 1],
             "readonly": ro}.get(kind, lambda: np.array([mx, my], dtype=float))
    if how.get("mu_slot") and kind not in ("tuple", "readonly"):
        obj = history.intern(memo, ["slot", "mu", kind], build)
        last = history.intern(memo, ["last", "mu", kind], lambda: [mx, my])
        for i, t in enumerate((mx, my)):
            if last[i] != t:
                obj[i] = t                           # only the coordinate that changed is written again
                last[i] = t
        return obj
    return history.intern(memo, ["val", "mu", kind, [mx, my]], build)


def _pts_obj(np, memo, c):
    how = c.get("how") or {}
    xs, ys = _corners(c["box"])
    if how.get("pts_slot"):
        x = history.intern(memo, ["slot", "x"], lambda: np.zeros(4))
        y = history.intern(memo, ["slot", "y"], lambda: np.zeros(4))
        x[:] = xs
        y[:] = ys
    else:
        kind = how.get("pts_as", "ndarray")

        def mk(vs):
            if kind == "strided":
                big = np.full(2 * len(vs) + 1, -11.0)
                big[1::2] = vs
                return big[1::2]
            a = np.array(vs, dtype=float)
            if kind == "readonly":
                a.flags.writeable = False
            return a
        x = history.intern(memo, ["val", "x", kind, xs], lambda: mk(xs))
        y = history.intern(memo, ["val", "y", kind, ys], lambda: mk(ys))
    if c.get("fault") == "len_mismatch":         # x and y of different lengths: expected to be rejected
        y = np.array(ys[:3], dtype=float)
    return x, y


def impl_call(c, memo):
    """One kernel call.  Within one history (shared memo) equal-valued arguments are the same objects and `slot`
    arguments are one container updated in place; with an empty memo this is a call on fresh float64 ndarrays."""
    import numpy as np
    from persim import images_kernels as K

    def summary(v, n, m):
        """a long call: the first values as usual + per point (i mod m) the extreme values over all its positions"""
        v = np.asarray(v, dtype=float).ravel()
        lo, hi, at_lo, at_hi = [], [], [], []
        for j in range(m):
            part = v[j::m]
            if part.size == 0:
                lo.append(None); hi.append(None); at_lo.append(None); at_hi.append(None)
                continue
            a, b = int(np.argmin(part)), int(np.argmax(part))     # NaN wins both: it is reported as the extreme
            lo.append(float(part[a])); hi.append(float(part[b]))
            at_lo.append(j + a * m); at_hi.append(j + b * m)
        return {"n": int(v.size), "lo": lo, "hi": hi, "at_lo": at_lo, "at_hi": at_hi,
                "nonfinite": int(np.count_nonzero(~np.isfinite(v)))}

    def long_call():
        pts = _long_points(c)
        n, m = c["long"]["n"], len(pts)
        if c["kind"] == "phi":
            v = K.norm_cdf(np.resize(np.array(pts, dtype=float), n))
            k = 1
        else:
            x = np.resize(np.array([q[0] for q in pts], dtype=float), n)
            y = np.resize(np.array([q[1] for q in pts], dtype=float), n)
            if c["kind"] == "gauss":
                v = K.gaussian(x, y, mu=_mu_obj(np, memo, c), sigma=_sigma_obj(np, memo, c))
            else:
                v = K.uniform(x, y, mu=_mu_obj(np, memo, c), width=c["width"], height=c["height"])
            k = 4
        return {"vals": [float(t) for t in np.asarray(v, dtype=float).ravel()[:k]], "long": summary(v, n, m)}

    def call():
        if c.get("long"):
            return long_call()
        if c["kind"] == "gauss":
            x, y = _pts_obj(np, memo, c)
            v = K.gaussian(x, y, mu=_mu_obj(np, memo, c), sigma=_sigma_obj(np, memo, c))
            return {"vals": [float(t) for t in np.asarray(v, dtype=float).ravel()]}
        if c["kind"] == "uniform":
            x, y = _pts_obj(np, memo, c)
            v = K.uniform(x, y, mu=_mu_obj(np, memo, c), width=c["width"], height=c["height"])
            return {"vals": [float(t) for t in np.asarray(v, dtype=float).ravel()]}
        x = history.intern(memo, ["val", "phi", c["x"]], lambda: np.array([c["x"]], dtype=float))
        v = K.norm_cdf(x)
        return {"vals": [float(np.asarray(v).ravel()[0])]}
    return core.guarded(call)


def impl_run(cases):
    return [history.run(c, impl_call) if history.is_hist(c) else impl_call(c, {}) for c in cases]


# ---------------------------------------------------------------- the spec, independent of the model
def _phi(z):
    return 0.5 * math.erfc(-z / SQ2)


_quad = None


def bvn_reference(a, b, r):
    """P(X <= a, Y <= b), standard bivariate normal with correlation r: Plackett's integral by
    adaptive quadrature (scipy QUADPACK) - independent of the Drezner-Wesolowsky/Genz algorithm."""
    global _quad
    if _quad is None:
        from scipy.integrate import quad
        _quad = quad
    if r == 0.0:
        return _phi(a) * _phi(b)

    def f(t):
        ct = math.cos(t)
        e = -(a * a - 2 * a * b * math.sin(t) + b * b) / (2 * ct * ct)
        return math.exp(e) if e > -745 else 0.0
    import warnings
    with warnings.catch_warnings():
        warnings.simplefilter("ignore")
        top = math.asin(r)
        # split the range so that the peak near asin(r) for |r| -> 1 is resolved
        cuts = [0.0, 0.5 * top, 0.9 * top, 0.99 * top, top]
        v = 0.0
        for lo, hi in zip(cuts[:-1], cuts[1:]):
            v += _quad(f, lo, hi, epsabs=1e-14, epsrel=1e-13, limit=200)[0]
    return _phi(a) * _phi(b) + v / (2 * math.pi)


def _std(c, x, y):
    sxx, sxy, syy = c["sigma"]
    mx, my = c["mu"]
    return (x - mx) / math.sqrt(sxx), (y - my) / math.sqrt(syy), sxy / math.sqrt(sxx * syy)


def _box_cdf(c, x, y):
    mx, my = (Fraction(t) for t in c["mu"])
    w, h = Fraction(c["width"]), Fraction(c["height"])

    def seg(lo, hi, t):
        return min(max(Fraction(t) - lo, 0), hi - lo)
    return seg(mx - w / 2, mx + w / 2, x) * seg(my - h / 2, my + h / 2, y) / (w * h)


def _point_check(c, pt, v, memo=None):
    """the pointwise clauses of the property for ONE value v of the kernel at the point pt; None = satisfied"""
    if c["kind"] == "phi":
        want = _phi(pt)
        if abs(v - want) > 1e-12:
            return "normcdf: norm_cdf(%r) = %r, normal CDF = %r" % (pt, v, want)
        return None
    x, y = pt
    if c["kind"] == "uniform":
        want = _box_cdf(c, x, y)
        if abs(Fraction(v) - want) > Fraction(1, 10 ** 12):
            return "uniform: value %r at (%r,%r), box CDF = %r" % (v, x, y, float(want))
        return None
    a, b, r = _std(c, x, y)
    if memo is not None and "want" in memo:
        want = memo["want"]
    else:
        want = bvn_reference(a, b, r)
        if memo is not None:
            memo["want"] = want
    if abs(v - want) > ACC:
        return "accuracy: value %r at (%r,%r), reference bivariate normal CDF %r (r=%r)" % (v, x, y, want, r)
    if c["sigma"][1] == 0.0 and abs(v - _phi(a) * _phi(b)) > 1e-12:
        return "product: value %r is not Phi*Phi = %r" % (v, _phi(a) * _phi(b))
    if (a <= -37.5 or b <= -37.5) and v > ROUND:
        return "tail0: value %r at standardised (%r,%r) should vanish" % (v, a, b)
    if a >= 37.5 and b >= 37.5 and v < 1 - ROUND:
        return "tail1: value %r at standardised (%r,%r) should be 1" % (v, a, b)
    return None


def _long_check(c, o):
    lg = o.get("long")
    n = c["long"]["n"]
    if not isinstance(lg, dict):
        return "shape: no summary of the long call in %r" % (o,)
    if lg.get("n") != n:
        return "shape: %r values for %d points in one call" % (lg.get("n"), n)
    if lg.get("nonfinite"):
        return "nan: %d non-finite kernel values among %d points in one call" % (lg["nonfinite"], n)
    pts = _long_points(c)
    for j, pt in enumerate(pts):
        memo = {}
        for v, at in ((lg["lo"][j], lg["at_lo"][j]), (lg["hi"][j], lg["at_hi"][j])):
            if v is None:
                continue
            if not (v == v) or abs(v) == float("inf"):
                return "nan: non-finite kernel value at position %d of %d" % (at, n)
            if c["kind"] != "phi" and not (-ROUND <= v <= 1 + ROUND):
                return "range: kernel value %r outside [0,1] at position %d of %d" % (v, at, n)
            bad = _point_check(c, pt, v, memo)
            if bad:
                key, rest = bad.split(":", 1)
                return "%s: at position %d of %d points in one call:%s" % (key, at, n, rest)
    return None


def predicate(c, o):
    if history.is_hist(c):      # every call of the history must satisfy the property on its own
        return history.predicate(c, o, predicate)
    if "error" in o:
        return False, "error: %s" % o
    vals = o["vals"]
    if any(not (v == v) or abs(v) == float("inf") for v in vals):
        return False, "nan: non-finite kernel value %s" % vals
    if c.get("long"):           # one call on a long vector: every position is judged through the extremes per point
        bad = _long_check(c, o)
        if bad:
            return False, bad
    if c["kind"] == "phi":
        bad = _point_check(c, c["x"], vals[0])
        return (False, bad) if bad else (True, "")
    xs, ys = _corners(c["box"])
    if len(vals) != 4:
        return False, "shape: %d values for 4 points" % len(vals)
    for v in vals:
        if not (-ROUND <= v <= 1 + ROUND):
            return False, "range: kernel value %r outside [0,1]" % v
    for x, y, v in zip(xs, ys, vals):
        bad = _point_check(c, (x, y), v)
        if bad:
            return False, bad
    v11, v21, v12, v22 = vals
    if v21 < v11 - MONO or v22 < v12 - MONO:
        return False, "mono_x: not non-decreasing in x: %s" % vals
    if v12 < v11 - MONO or v22 < v21 - MONO:
        return False, "mono_y: not non-decreasing in y: %s" % vals
    if v22 - v12 - v21 + v11 < -MONO:
        return False, "rect: negative rectangle mass %r" % (v22 - v12 - v21 + v11)
    return True, ""


def nontrivial(c, o):
    if history.is_hist(c):
        return history.nontrivial(c, o, nontrivial)
    if "error" in o:
        return False
    if c["kind"] == "phi":
        return True
    if c.get("cls") in ("g_tail", "g_xtail"):
        return True
    if c["kind"] == "uniform":
        return any(0 < v < 1 for v in o["vals"]) or c.get("cls") == "u_exact"
    return any(1e-6 < v < 1 - 1e-6 for v in o["vals"])


# ------------------------------------------------------------------ the model, run inside Coq
HEADER = """From Coq Require Import Reals List Lra.
From Coquelicot Require Import Coquelicot.
From Interval Require Import Tactic.
From Persim Require Import Model.KernelM Spec.BvnS Corr.KernelCorr.
Import ListNotations.
Open Scope R_scope.
"""
R = core.coq_R
CERT_CORNER = 3     # (x2, y2)


def _dyadic(c):
    fl = list(c["mu"]) + [c["width"], c["height"]] + list(c["box"])
    return all(Fraction(v).denominator <= 2 ** 12 and abs(v) < 2 ** 12 for v in fl)


def _gauss_stmt(c, v, legacy=False):
    xs, ys = _corners(c["box"])
    sxx, sxy, syy = c["sigma"]
    return "Rabs (%sgaussian_cdf Phi_int (%s, %s) ((%s, %s), (%s, %s)) %s %s - %s) <= %s" % (
        "Legacy." if legacy else "", R(c["mu"][0]), R(c["mu"][1]), R(sxx), R(sxy), R(sxy), R(syy),
        R(xs[CERT_CORNER]), R(ys[CERT_CORNER]), R(v), R(TOL_G))


def _ref_stmt(c, v):
    """accuracy of the implementation against Plackett's integral, certified inside Coq"""
    xs, ys = _corners(c["box"])
    sxx, sxy, syy = c["sigma"]
    return "Rabs (bvn_ref %s %s %s %s %s %s %s - %s) <= %s" % (
        R(c["mu"][0]), R(c["mu"][1]), R(sxx), R(sxy), R(syy), R(xs[CERT_CORNER]), R(ys[CERT_CORNER]), R(v),
        R(Fraction(1, 10 ** 7)))


def _weight(c):
    """rough cost, to start the expensive certificates first"""
    if c["kind"] != "gauss" or c["sigma"][1] == 0.0:
        return 0
    r = abs(c["sigma"][1]) / math.sqrt(c["sigma"][0] * c["sigma"][2])
    return 3 if r >= 0.925 else (2 if r >= 0.75 else 1)


def _amplification(c):
    """d(model)/d(RInt) for the normal CDF at -|h-k|/sqrt(1-r^2) in the high-correlation branch:
    exp(-hk/2) * |h-k| * |polynomial| / (2 pi).  The absolute width of the `integral` enclosure is
    multiplied by it, so it decides how tight that enclosure must be."""
    xs, ys = _corners(c["box"])
    a, b, r = _std(c, xs[CERT_CORNER], ys[CERT_CORNER])
    if abs(r) < 0.925:
        return 0.0
    dh, dk = -a, (-b if r > 0 else b)
    hk = dh * dk
    if hk <= -100:
        return 0.0
    xmy2 = (dh - dk) ** 2
    poly = abs(1 - (4 - hk) / 8 * xmy2 * (1 - (12 - hk) / 16 * xmy2 / 5) / 3)
    return math.exp(-hk / 2) * math.sqrt(xmy2) * poly / (2 * math.pi)


def _plan(c):
    """tactic for a Gaussian case, or a skip verdict"""
    xs, ys = _corners(c["box"])
    a, b, r = _std(c, xs[CERT_CORNER], ys[CERT_CORNER])
    if c["sigma"][1] == 0.0:
        return "gauss_case." if max(abs(a), abs(b)) <= 45 else "skip:point more than 45 sd out; covered by the numerical predicate"
    if max(abs(a), abs(b)) > 45:
        return "skip:point more than 45 sd out (normal CDF through RInt cannot be enclosed cheaply); covered by the numerical predicate"
    if abs(r) >= 0.925 and (a == b or a == -b):
        return "skip:h = +-k exactly (interval cannot enclose sqrt((h-k)^2) at 0); covered by the numerical predicate"
    amp = _amplification(c)
    if amp * 2.0 ** -44 < 1e-10:
        return "gauss_case."
    if amp * 2.0 ** -72 < 1e-10:
        if _TIER["tier"] == "thorough":
            return "gauss_case_deep."
        return "skip:deep-tail amplification %.1e needs the 2^-72 enclosure (thorough tier); covered by the numerical predicate" % amp
    return "skip:deep-tail amplification %.1e beyond the enclosure budget; covered by the numerical predicate" % amp


_state = {}


def coq_jobs(cases, outs):
    return []


def _prove(lemmas, heavy, light_chunk=6):
    """one kernel-checked lemma per entry; heavy ones get a file each (started first), light ones share a
    file (saves the ~1.3 s library load); a failing shared file is re-run one lemma per file"""
    from concurrent.futures import ThreadPoolExecutor

    def render(idx):
        return "\n".join([HEADER] + ["Lemma case_%d : %s.\nProof. %s Qed.\n" % (i, lemmas[i][0], lemmas[i][1]) for i in idx])
    hv = [[i] for i in range(len(lemmas)) if heavy[i]]
    lt = [i for i in range(len(lemmas)) if not heavy[i]]
    chunks = hv + [lt[k:k + light_chunk] for k in range(0, len(lt), light_chunk)]
    res = core.run_coq_jobs(PID, [("lem_%03d" % k, render(c)) for k, c in enumerate(chunks)], timeout=COQ_TIMEOUT)
    ok = [False] * len(lemmas)
    retry = []
    for k, c in enumerate(chunks):
        if res["lem_%03d" % k].ok:
            for i in c:
                ok[i] = True
        elif len(c) > 1:
            retry += c
    if retry:
        def one(i):
            pth = core.WORK / PID / ("lem_one_%d.v" % i)
            pth.write_text(render([i]))
            return i, core.coqc(pth, COQ_TIMEOUT)
        with ThreadPoolExecutor(max_workers=core.NPROC) as ex:
            for i, r in ex.map(one, retry):
                ok[i] = r.ok
    return ok


def coq_judge(cases, outs, results):
    verdicts = ["disagree:not-expressible (exception or non-finite value)"] * len(cases)
    todo = []
    for i, (c, o) in enumerate(zip(cases, outs)):
        if history.is_hist(c):
            verdicts[i] = "skip:history (every step is judged by the spec predicate)"
            continue
        if "error" in o or any(not (v == v) or abs(v) == float("inf") for v in o.get("vals", [float("nan")])):
            continue
        if c["kind"] == "gauss":
            pl = _plan(c)
            if pl.startswith("skip"):
                verdicts[i] = pl
                continue
        todo.append(i)
    todo.sort(key=lambda i: -_weight(cases[i]))
    lemmas, owner, heavy = [], [], []
    # accuracy certificates (impl vs Plackett's integral, 1e-7) inside Coq: quick = the two refutation
    # witnesses + the first g_high and g_mid10 case; thorough = every corpus case + 4 per class
    quick = _TIER["tier"] == "quick"
    seen_cls = {}
    for i in sorted(todo):
        c = cases[i]
        if c["kind"] != "gauss" or c["sigma"][1] == 0.0 or c.get("cls") in ("g_tail", "g_xtail"):
            continue
        key = c.get("cls")
        r = abs(_std(c, 0.0, 0.0)[2])
        if key == "corpus":
            want = (not quick) or r >= 0.925
        elif quick:
            want = key in ("g_high", "g_mid10") and seen_cls.get(key, 0) < 1
        else:
            want = seen_cls.get(key, 0) < 4
        if want:
            seen_cls[key] = seen_cls.get(key, 0) + 1
            lemmas.append((_ref_stmt(c, outs[i]["vals"][CERT_CORNER]), "ref_case; enclose_rint; finish_value."))
            owner.append(i)
            heavy.append(True)
    _state["ref_certs"] = len(lemmas)
    for i in todo:
        c, o = cases[i], outs[i]
        if c["kind"] == "gauss":
            lemmas.append((_gauss_stmt(c, o["vals"][CERT_CORNER]), _plan(c)))
            owner.append(i)
            heavy.append(_weight(c) >= 2)
        elif c["kind"] == "uniform":
            xs, ys = _corners(c["box"])
            for k in ((0, 3) if _dyadic(c) else (3,)):
                call = "uniform_cdf (%s, %s) %s %s %s %s" % (R(c["mu"][0]), R(c["mu"][1]), R(c["width"]),
                                                          R(c["height"]), R(xs[k]), R(ys[k]))
                if _dyadic(c):
                    lemmas.append(("%s = %s" % (call, R(o["vals"][k])), "uniform_case."))
                else:
                    lemmas.append(("Rabs (%s - %s) <= %s" % (call, R(o["vals"][k]), R(TOL_U)), "uniform_case."))
                owner.append(i)
                heavy.append(False)
        else:
            # an integral argument is written n/1: the enclosure tactic looks for a quotient as the upper limit of the integral
            xr = R(c["x"]) if not float(c["x"]).is_integer() else "(%d/1)%%R" % int(c["x"])
            lemmas.append(("Rabs (Phi_int %s - %s) <= %s" % (xr, R(o["vals"][0]), R(TOL_P)), "phi_case."))
            owner.append(i)
            heavy.append(False)
    ok = _prove(lemmas, heavy)
    good = {}
    for i, g in zip(owner, ok):
        good[i] = good.get(i, True) and g
    bad_gauss = []
    for i in todo:
        if good.get(i, False):
            verdicts[i] = "agree"
        else:
            verdicts[i] = "disagree:certificate |model - impl| <= tol not provable (%s)" % cases[i]["kind"]
            if cases[i]["kind"] == "gauss" and _weight(cases[i]) == 3:   # the variants differ only for |r| >= 0.925
                bad_gauss.append(i)
    if bad_gauss:   # does the implementation behave like the refuted pinned variant?
        lem = [(_gauss_stmt(cases[i], outs[i]["vals"][CERT_CORNER], legacy=True), _plan(cases[i])) for i in bad_gauss]
        ok2, _ = core.prove_lemmas(PID, HEADER, lem, chunk=1, timeout=COQ_TIMEOUT, tag="leg")
        for i, g in zip(bad_gauss, ok2):
            if g:
                verdicts[i] = "legacy:C13-bvn-asr"
    return verdicts


def finding_of(case, out, detail):
    """images_kernels.py:173 (`asr > 100`) was repaired in /repo (fixes/C13_bvn_asr.patch).
    Call site + signature of the far-tail defect (fixes/C13_bvn_far_tail_nan.patch): bvn_cdf lines 199-202 multiply
    ep1 = exp(-hk(1-rs)/(2(1+rs)))/rs = inf by the 0/1 mask -> NaN, i.e. a NaN value at |r| >= 0.925 with h*k (after
    the r<0 reflection) below -5e4.  Only attributed when known_findings.json has an OPEN entry with this id."""
    if case.get("kind") == "gauss" and detail.startswith("nan") and case["sigma"][1] != 0.0:
        xs, ys = _corners(case["box"])
        for x, y, v in zip(xs, ys, out.get("vals", [])):
            a, b, r = _std(case, x, y)
            if v != v and abs(r) >= 0.925 and (a * b if r < 0 else -a * b) > 5e4:
                return "C13-far-tail-nan"
    return None


def shrink_candidates(c):
    if history.is_hist(c):
        yield from history.shrink(c)
        return
    if c.get("long"):
        d = {k: v for k, v in c.items() if k != "long"}      # not an effect of the length at all
        yield d
        n, ex = c["long"]["n"], c["long"]["extra"]
        m = (1 if c["kind"] == "phi" else 4) + len(ex)
        k = 1
        while 2 * k + 1 < n:
            k *= 2
        for n2 in (n // 2, (3 * n) // 4, (7 * n) // 8, k + 1):   # towards the smallest failing length
            if m < n2 < n:
                yield dict(c, long={"n": n2, "extra": ex})
        if ex:
            yield dict(c, long={"n": n, "extra": []})
        if c["kind"] == "phi":
            return
    if c["kind"] == "gauss":
        x1, x2, y1, y2 = c["box"]
        if (x1, y1) != (x2, y2):
            for p in ((x2, y2), (x1, y1), (x1, y2), (x2, y1)):
                d = dict(c); d["box"] = [p[0], p[0], p[1], p[1]]; yield d
        if c["mu"] != [0.0, 0.0] or c["sigma"][0] != 1.0 or c["sigma"][2] != 1.0:
            sxx, sxy, syy = c["sigma"]
            mx, my = c["mu"]
            r = sxy / math.sqrt(sxx * syy)
            d = dict(c); d["mu"] = [0.0, 0.0]; d["sigma"] = [1.0, r, 1.0]
            d["box"] = [(x1 - mx) / math.sqrt(sxx), (x2 - mx) / math.sqrt(sxx), (y1 - my) / math.sqrt(syy), (y2 - my) / math.sqrt(syy)]
            yield d
        for nd in (2, 3, 4):
            d = dict(c); d["box"] = [round(t, nd) for t in c["box"]]
            d["sigma"] = [c["sigma"][0], round(c["sigma"][1], nd), c["sigma"][2]]
            if d != c and d["box"][0] <= d["box"][1] and d["box"][2] <= d["box"][3]:
                yield d
    elif c["kind"] == "uniform":
        x1, x2, y1, y2 = c["box"]
        if (x1, y1) != (x2, y2):
            for p in ((x2, y2), (x1, y1), (x1, y2), (x2, y1)):
                d = dict(c); d["box"] = [p[0], p[0], p[1], p[1]]; yield d
        for nd in (1, 2, 3):
            d = dict(c); d["box"] = [round(t, nd) for t in c["box"]]; d["mu"] = [round(t, nd) for t in c["mu"]]
            if d != c and d["box"][0] <= d["box"][1] and d["box"][2] <= d["box"][3]:
                yield d
