"""C13 - Gaussian / uniform kernels are valid, accurate CDFs (persim/images_kernels.py).

Model: coq/Model/KernelM.v over R (uniform_cdf, sbvn_cdf, bvn_cdf with both quadrature regimes, the
high-correlation expansion with its masks and the r<0 reflection; `Legacy` = pinned line 173
`asr > 100`, intended = `asr > -100`).  Tie: per point a kernel-checked lemma
`Rabs (gaussian_cdf Phi_int mu sigma x y - impl) <= 1e-9` (Phi arguments enclosed by `integral`,
value by `interval`), uniform kernel compared exactly on a dyadic grid, norm_cdf against its RInt
definition.  The predicate below is the SPEC evaluated numerically and independently of the model
(adaptive quadrature of Plackett's integral, box-CDF in exact rationals)."""
import math
from fractions import Fraction

from .. import core

PID = "C13"
THEOREMS = [
    "uniform_is_box_cdf", "uniform_in_unit_interval", "uniform_monotone_x", "uniform_monotone_y",
    "uniform_rectangle_mass_nonneg", "uniform_zero_left_or_below", "uniform_one_right_and_above",
    "gaussian_zero_cov_is_product", "product_kernel_is_cdf", "product_kernel_tails",
    "bvn_legacy_refuted", "bvn_intended_accurate_at_witnesses",
    "bvn_legacy_eq_intended_below_0925", "normal_cdf_integral_monotone",
    "normal_cdf_integral_symmetric", "bvn_zero_covariance_is_product", "gaussian_exchange_symmetric",
]
RULE = ("seeded generator over classes {gaussian with |r| in [0,0.3), [0.3,0.75), [0.75,0.925), [0.925,1) of both "
        "signs incl. values within 1e-3..1e-6 of the thresholds, zero covariance, far tails (+-40 sigma), variances "
        "1e-2..1e2, tiny covariance matrices (variances 1e-12..1e-6 at correlations up to 0.9999), small variances 1e-4..0.2 at "
        "0.85 <= |r| < 0.925, both coordinates 38..150 sd and 300..1e4 sd out in every quadrant at |r| >= 0.925, shifted means} each evaluated at the four corners of a random box in one vectorised call; "
        "{uniform kernel on a dyadic grid (exact) and on random doubles}; {norm_cdf}.  One corner per Gaussian case, "
        "every uniform / norm_cdf case is certified inside Coq against the model (1e-9 / exact / 1e-10); the first "
        "Gaussian case(s) of every class and every corpus witness are also certified inside Coq against Plackett's "
        "integral (1e-7); all four corners of every case are checked numerically by the predicate.  A case is non-trivial when a Gaussian corner value lies "
        "strictly between 1e-6 and 1-1e-6, or a uniform corner lies strictly inside the box, or it is a tail / "
        "outside-the-box case by construction; distinct = distinct JSON input")
TRUSTED_BASE = [
    "Coq 8.16.1 kernel (vm_compute inside the reflexive checkers of coq-interval; no native_compute)",
    "stdlib axioms of the classical reals: ClassicalDedekindReals.sig_forall_dec, sig_not_dec, "
    "FunctionalExtensionality.functional_extensionality_dep, Classical_Prop.classic",
    "coq-interval (`interval`, `integral`) incl. the primitive-float / int63 specification axioms of the stdlib; Coquelicot RInt",
    "Plackett's single-integral identity taken as the DEFINITION of the bivariate normal CDF (Spec/BvnS.v: Phi2, bvn_ref); "
    "Phi_int = 1/2 + (2 pi)^(-1/2) int_0^x exp(-t^2/2) dt as the definition of the normal CDF",
    "hand-written model Model/KernelM.v of images_kernels.py (decimal Gauss-Legendre literals as written in the source)",
    "harness: generators, float -> exact-rational printer, SciPy `quad` reference used by the Python predicate",
]
ASSUMPTIONS = [
    "scipy.special.erfc is the complementary error function: norm_cdf is monitored against the RInt definition per run "
    "(1e-10) and theorems quantify over every non-decreasing Phi : R -> [0,1] with limits 0 and 1",
    "binary64 rounding of the implementation is bounded by the 1e-9 (Gaussian) / 1e-12 (uniform, tolerance family) "
    "tolerances, not proved; NumPy broadcasting / boolean masks as modelled (one point at a time)",
    "accuracy of the intended bvn model against Plackett's integral is certified at sampled points only (no uniform "
    "quadrature-error theorem)",
]
COQ_DEPS = ["Corr/KernelCorr.vo"]
COQ_TIMEOUT = 900
TOL_G = Fraction(1, 10 ** 9)
TOL_U = Fraction(1, 10 ** 12)
TOL_P = Fraction(1, 10 ** 10)
ACC = 1e-7          # the property's accuracy against the reference
ROUND = 1e-12       # rounding allowance for range / tails
MONO = 1e-9         # allowance for monotonicity / rectangle mass (cancellation of four values)
SQ2 = math.sqrt(2.0)


# ---------------------------------------------------------------------------------- generators
def _gauss_case(rng, cls, r=None, scale=None, tail=False, far=None):
    if r is None:
        lo, hi = {"g_mid3": (0.0, 0.3), "g_mid6": (0.3, 0.75), "g_mid10": (0.75, 0.925),
                  "g_high": (0.925, 0.9999)}[cls]
        mode = rng.random()
        if mode < 0.3 and cls != "g_high":      # close to the upper threshold, from below
            r = hi - 10 ** rng.uniform(-6, -3)
        elif mode < 0.6 and lo > 0:             # close to the lower threshold, from above
            r = lo + 10 ** rng.uniform(-6, -3)
        else:
            r = rng.uniform(lo + 1e-6, hi - 1e-6) if lo > 0 else rng.uniform(1e-3, hi - 1e-6)
        if rng.random() < 0.5:
            r = -r
    if scale is None:
        scale = rng.choice(["unit", "unit", "vars", "vars", "shift"])
    if scale == "unit":
        sxx = syy = 1.0
        mx = my = 0.0
    elif scale == "small":                       # variances well below 1: |covariance| << |correlation|
        sxx = 10 ** rng.uniform(-4, math.log10(0.2))
        syy = 10 ** rng.uniform(-4, math.log10(0.2))
        mx, my = rng.choice([(0.0, 0.0), (rng.uniform(-1, 1), rng.uniform(0, 1))])
    elif scale == "tiny":                        # covariance entries far below any absolute "is zero" test
        sxx = 10 ** rng.uniform(-12, -6)
        syy = sxx * 10 ** rng.uniform(-1, 1)
        mx, my = rng.choice([(0.0, 0.0), (rng.uniform(-1, 1), rng.uniform(0, 1))])
    else:
        sxx = 10 ** rng.uniform(-2, 2)
        syy = 10 ** rng.uniform(-2, 2)
        mx, my = (rng.uniform(-3, 3), rng.uniform(-3, 3)) if scale == "shift" else (0.0, 0.0)
    sxy = r * math.sqrt(sxx * syy)
    sx, sy = math.sqrt(sxx), math.sqrt(syy)
    if tail and far is None and rng.random() < 0.3:   # one coordinate far, the other moderate or far
        za = rng.choice([-40.0, 40.0, rng.uniform(-2, 2)])
        zb = rng.choice([-40.0, 40.0]) if abs(za) < 10 else rng.choice([-40.0, 40.0, rng.uniform(-2, 2)])
        z = [za, za + rng.uniform(0.1, 1), zb, zb + rng.uniform(0.1, 1)]
    elif tail:                                   # both coordinates far: 38..150 sd (x: 300..1e4 sd), all sign patterns
        lo, hi = (300.0, 1e4) if tail == "x" else (38.0, 150.0)
        ma, mb = (10 ** rng.uniform(math.log10(lo), math.log10(hi)) for _ in range(2))
        sa = rng.choice([-1, 1])
        sb = rng.choice([-1, 1]) if far is None else (-sa if (far == "opposite") == (r > 0) else sa)
        # far == "opposite": the quadrant where h*k -> -inf after the r<0 reflection (masks hk > -100 and asr1 > -100 off)
        za, zb = sa * ma, sb * mb
        z = [za, za + rng.uniform(0.1, 1), zb, zb + rng.uniform(0.1, 1)]
    else:
        w = rng.choice([0.3, 1.0, 2.5])
        za, zb = rng.gauss(0, w), rng.gauss(0, w)
        if rng.random() < 0.3:                   # near the ridge h ~ +-k where the expansion is delicate
            zb = (za if r > 0 else -za) + rng.uniform(0.01, 0.2)
        z = [za, za + abs(rng.gauss(0, w)) + 0.01, zb, zb + abs(rng.gauss(0, w)) + 0.01]
    box = [mx + sx * z[0], mx + sx * z[1], my + sy * z[2], my + sy * z[3]]
    name = ("g_xtail" if tail == "x" else "g_tail") if tail else {"tiny": "g_tiny", "small": "g_smallvar"}.get(scale, cls)
    return {"cls": name, "kind": "gauss", "mu": [mx, my], "sigma": [sxx, sxy, syy], "box": box}


def _zero_case(rng):
    c = _gauss_case(rng, "g_mid3")
    c["sigma"][1] = 0.0
    c["cls"] = "g_zero"
    return c


def _uniform_case(rng, exact):
    if exact:
        g = 2.0 ** -rng.randint(2, 6)
        q = lambda lo, hi: rng.randint(int(lo / g), int(hi / g)) * g
        w, h = 2.0 ** rng.randint(-2, 2), 2.0 ** rng.randint(-2, 2)
        mx, my = q(-2, 2), q(-2, 2)
        xs = sorted([q(-3, 3), q(-3, 3)])
        ys = sorted([q(-3, 3), q(-3, 3)])
        if rng.random() < 0.3:                   # corner exactly on the box edge
            xs[0] = mx - w / 2
            xs[1] = max(xs[1], xs[0])
        if rng.random() < 0.3:
            ys[1] = my + h / 2
            ys[0] = min(ys[0], ys[1])
    else:
        w, h = 10 ** rng.uniform(-2, 2), 10 ** rng.uniform(-2, 2)
        mx, my = rng.uniform(-3, 3), rng.uniform(-3, 3)
        xs = sorted([mx + w * rng.uniform(-1, 1), mx + w * rng.uniform(-1, 1)])
        ys = sorted([my + h * rng.uniform(-1, 1), my + h * rng.uniform(-1, 1)])
    return {"cls": "u_exact" if exact else "u_tol", "kind": "uniform", "mu": [mx, my], "width": w, "height": h,
            "box": [xs[0], xs[1], ys[0], ys[1]]}


def _phi_case(rng):
    x = rng.choice([rng.gauss(0, 1), rng.gauss(0, 3), rng.uniform(-9, 9), 0.0, float(rng.randint(-6, 6))])
    return {"cls": "normcdf", "kind": "phi", "x": x}


_TIER = {"tier": "quick"}
# (quick, thorough) case counts per class; quick is sized for <= ~90 s wall on 16 cores
COUNTS = {"g_high": (4, 100), "g_mid3": (3, 70), "g_mid6": (4, 90), "g_mid10": (4, 90), "g_zero": (3, 60),
          "g_tail": (4, 80), "g_xtail": (2, 40), "g_smallvar": (4, 80), "g_tiny": (3, 60), "u_exact": (8, 140), "u_tol": (4, 70), "normcdf": (4, 70)}
MID = ["g_mid3", "g_mid6", "g_mid10"]


def generate(rng, tier):
    _TIER["tier"] = tier
    n = {k: v[0 if tier == "quick" else 1] for k, v in COUNTS.items()}
    cases = []
    for cls in ("g_high", "g_mid3", "g_mid6", "g_mid10"):
        for _ in range(n[cls]):
            cases.append(_gauss_case(rng, cls))
    for _ in range(n["g_zero"]):
        cases.append(_zero_case(rng))
    for i in range(n["g_tail"]):
        if i % 2 == 0:      # |r| >= 0.925, both coordinates 38..150 sd out, alternating quadrant patterns
            cases.append(_gauss_case(rng, "g_high", tail=True, far=("opposite", "same")[(i // 2) % 2]))
        else:
            cases.append(_gauss_case(rng, rng.choice(MID + ["g_high"]), tail=True))
    for i in range(n["g_xtail"]):
        cases.append(_gauss_case(rng, "g_high" if i % 4 != 3 else rng.choice(MID), tail="x", far=("opposite", "same", "opposite", None)[i % 4]))
    for _ in range(n["g_smallvar"]):
        cases.append(_gauss_case(rng, "g_mid10", r=rng.choice([-1, 1]) * rng.uniform(0.85, 0.9249), scale="small"))
    for i in range(n["g_tiny"]):
        cases.append(_gauss_case(rng, (MID + ["g_high"])[(i + 1) % 4] if tier == "quick" else rng.choice(MID + ["g_high"]), scale="tiny"))
    for _ in range(n["u_exact"]):
        cases.append(_uniform_case(rng, True))
    for _ in range(n["u_tol"]):
        cases.append(_uniform_case(rng, False))
    for _ in range(n["normcdf"]):
        cases.append(_phi_case(rng))
    return cases


def search_generate(rng, n):
    out = []
    for i in range(n):
        t = i % 10
        if t < 4:
            out.append(_gauss_case(rng, "g_high"))
        elif t < 7:
            out.append(_gauss_case(rng, rng.choice(["g_mid3", "g_mid6", "g_mid10"])))
        elif t == 7:
            out.append(_zero_case(rng))
        elif t == 8:
            out.append(_uniform_case(rng, rng.random() < 0.5))
        elif i % 20 == 9:
            out.append(_gauss_case(rng, "g_high", tail=rng.choice([True, "x"]), far=rng.choice(["opposite", "same"])))
        elif i % 20 == 19:
            out.append(_gauss_case(rng, "g_mid10", r=rng.choice([-1, 1]) * rng.uniform(0.85, 0.9249), scale="small"))
        else:
            out.append(_gauss_case(rng, rng.choice(MID + ["g_high"]), scale="tiny"))
    return out


def corpus():
    """corpus/C13/*.json: the witnesses of bvn_legacy_refuted, thresholds hit exactly, minimised failures"""
    import json
    out = []
    d = core.VERIF / "corpus" / PID
    for p in sorted(d.glob("*.json")) if d.is_dir() else []:
        data = json.loads(p.read_text())
        for c in (data if isinstance(data, list) else [data]):
            c = {k: v for k, v in c.items() if k != "name"}
            c["cls"] = "corpus"
            out.append(c)
    return out


# ------------------------------------------------------------------------ implementation side
def _corners(box):
    x1, x2, y1, y2 = box
    return [x1, x2, x1, x2], [y1, y1, y2, y2]


def impl_run(cases):
    import numpy as np
    from persim import images_kernels as K
    outs = []
    for c in cases:
        def call():
            if c["kind"] == "gauss":
                xs, ys = _corners(c["box"])
                sxx, sxy, syy = c["sigma"]
                v = K.gaussian(np.array(xs, dtype=float), np.array(ys, dtype=float),
                               mu=np.array(c["mu"], dtype=float),
                               sigma=np.array([[sxx, sxy], [sxy, syy]], dtype=float))
                return {"vals": [float(t) for t in np.asarray(v, dtype=float).ravel()]}
            if c["kind"] == "uniform":
                xs, ys = _corners(c["box"])
                v = K.uniform(np.array(xs, dtype=float), np.array(ys, dtype=float),
                              mu=np.array(c["mu"], dtype=float), width=c["width"], height=c["height"])
                return {"vals": [float(t) for t in np.asarray(v, dtype=float).ravel()]}
            v = K.norm_cdf(np.array([c["x"]], dtype=float))
            return {"vals": [float(np.asarray(v).ravel()[0])]}
        outs.append(core.guarded(call))
    return outs


# ---------------------------------------------------------------- the spec, independent of the model
def _phi(z):
    return 0.5 * math.erfc(-z / SQ2)


_quad = None


def bvn_reference(a, b, r):
    """P(X <= a, Y <= b), standard bivariate normal with correlation r: Plackett's integral by
    adaptive quadrature (scipy QUADPACK) - independent of the Drezner-Wesolowsky/Genz algorithm."""
    global _quad
    if _quad is None:
        from scipy.integrate import quad
        _quad = quad
    if r == 0.0:
        return _phi(a) * _phi(b)

    def f(t):
        ct = math.cos(t)
        e = -(a * a - 2 * a * b * math.sin(t) + b * b) / (2 * ct * ct)
        return math.exp(e) if e > -745 else 0.0
    import warnings
    with warnings.catch_warnings():
        warnings.simplefilter("ignore")
        top = math.asin(r)
        # split the range so that the peak near asin(r) for |r| -> 1 is resolved
        cuts = [0.0, 0.5 * top, 0.9 * top, 0.99 * top, top]
        v = 0.0
        for lo, hi in zip(cuts[:-1], cuts[1:]):
            v += _quad(f, lo, hi, epsabs=1e-14, epsrel=1e-13, limit=200)[0]
    return _phi(a) * _phi(b) + v / (2 * math.pi)


def _std(c, x, y):
    sxx, sxy, syy = c["sigma"]
    mx, my = c["mu"]
    return (x - mx) / math.sqrt(sxx), (y - my) / math.sqrt(syy), sxy / math.sqrt(sxx * syy)


def _box_cdf(c, x, y):
    mx, my = (Fraction(t) for t in c["mu"])
    w, h = Fraction(c["width"]), Fraction(c["height"])

    def seg(lo, hi, t):
        return min(max(Fraction(t) - lo, 0), hi - lo)
    return seg(mx - w / 2, mx + w / 2, x) * seg(my - h / 2, my + h / 2, y) / (w * h)


def predicate(c, o):
    if "error" in o:
        return False, "error: %s" % o
    vals = o["vals"]
    if any(not (v == v) or abs(v) == float("inf") for v in vals):
        return False, "nan: non-finite kernel value %s" % vals
    if c["kind"] == "phi":
        want = _phi(c["x"])
        if abs(vals[0] - want) > 1e-12:
            return False, "normcdf: norm_cdf(%r) = %r, normal CDF = %r" % (c["x"], vals[0], want)
        return True, ""
    xs, ys = _corners(c["box"])
    if len(vals) != 4:
        return False, "shape: %d values for 4 points" % len(vals)
    for v in vals:
        if not (-ROUND <= v <= 1 + ROUND):
            return False, "range: kernel value %r outside [0,1]" % v
    if c["kind"] == "uniform":
        for x, y, v in zip(xs, ys, vals):
            want = _box_cdf(c, x, y)
            if abs(Fraction(v) - want) > Fraction(1, 10 ** 12):
                return False, "uniform: value %r at (%r,%r), box CDF = %r" % (v, x, y, float(want))
    else:
        for x, y, v in zip(xs, ys, vals):
            a, b, r = _std(c, x, y)
            want = bvn_reference(a, b, r)
            if abs(v - want) > ACC:
                return False, "accuracy: value %r at (%r,%r), reference bivariate normal CDF %r (r=%r)" % (v, x, y, want, r)
            if c["sigma"][1] == 0.0 and abs(v - _phi(a) * _phi(b)) > 1e-12:
                return False, "product: value %r is not Phi*Phi = %r" % (v, _phi(a) * _phi(b))
            if (a <= -37.5 or b <= -37.5) and v > ROUND:
                return False, "tail0: value %r at standardised (%r,%r) should vanish" % (v, a, b)
            if a >= 37.5 and b >= 37.5 and v < 1 - ROUND:
                return False, "tail1: value %r at standardised (%r,%r) should be 1" % (v, a, b)
    v11, v21, v12, v22 = vals
    if v21 < v11 - MONO or v22 < v12 - MONO:
        return False, "mono_x: not non-decreasing in x: %s" % vals
    if v12 < v11 - MONO or v22 < v21 - MONO:
        return False, "mono_y: not non-decreasing in y: %s" % vals
    if v22 - v12 - v21 + v11 < -MONO:
        return False, "rect: negative rectangle mass %r" % (v22 - v12 - v21 + v11)
    return True, ""


def nontrivial(c, o):
    if "error" in o:
        return False
    if c["kind"] == "phi":
        return True
    if c.get("cls") in ("g_tail", "g_xtail"):
        return True
    if c["kind"] == "uniform":
        return any(0 < v < 1 for v in o["vals"]) or c.get("cls") == "u_exact"
    return any(1e-6 < v < 1 - 1e-6 for v in o["vals"])


# ------------------------------------------------------------------ the model, run inside Coq
HEADER = """From Coq Require Import Reals List Lra.
From Coquelicot Require Import Coquelicot.
From Interval Require Import Tactic.
From Persim Require Import Model.KernelM Spec.BvnS Corr.KernelCorr.
Import ListNotations.
Open Scope R_scope.
"""
R = core.coq_R
CERT_CORNER = 3     # (x2, y2)


def _dyadic(c):
    fl = list(c["mu"]) + [c["width"], c["height"]] + list(c["box"])
    return all(Fraction(v).denominator <= 2 ** 12 and abs(v) < 2 ** 12 for v in fl)


def _gauss_stmt(c, v, legacy=False):
    xs, ys = _corners(c["box"])
    sxx, sxy, syy = c["sigma"]
    return "Rabs (%sgaussian_cdf Phi_int (%s, %s) ((%s, %s), (%s, %s)) %s %s - %s) <= %s" % (
        "Legacy." if legacy else "", R(c["mu"][0]), R(c["mu"][1]), R(sxx), R(sxy), R(sxy), R(syy),
        R(xs[CERT_CORNER]), R(ys[CERT_CORNER]), R(v), R(TOL_G))


def _ref_stmt(c, v):
    """accuracy of the implementation against Plackett's integral, certified inside Coq"""
    xs, ys = _corners(c["box"])
    sxx, sxy, syy = c["sigma"]
    return "Rabs (bvn_ref %s %s %s %s %s %s %s - %s) <= %s" % (
        R(c["mu"][0]), R(c["mu"][1]), R(sxx), R(sxy), R(syy), R(xs[CERT_CORNER]), R(ys[CERT_CORNER]), R(v),
        R(Fraction(1, 10 ** 7)))


def _weight(c):
    """rough cost, to start the expensive certificates first"""
    if c["kind"] != "gauss" or c["sigma"][1] == 0.0:
        return 0
    r = abs(c["sigma"][1]) / math.sqrt(c["sigma"][0] * c["sigma"][2])
    return 3 if r >= 0.925 else (2 if r >= 0.75 else 1)


def _amplification(c):
    """d(model)/d(RInt) for the normal CDF at -|h-k|/sqrt(1-r^2) in the high-correlation branch:
    exp(-hk/2) * |h-k| * |polynomial| / (2 pi).  The absolute width of the `integral` enclosure is
    multiplied by it, so it decides how tight that enclosure must be."""
    xs, ys = _corners(c["box"])
    a, b, r = _std(c, xs[CERT_CORNER], ys[CERT_CORNER])
    if abs(r) < 0.925:
        return 0.0
    dh, dk = -a, (-b if r > 0 else b)
    hk = dh * dk
    if hk <= -100:
        return 0.0
    xmy2 = (dh - dk) ** 2
    poly = abs(1 - (4 - hk) / 8 * xmy2 * (1 - (12 - hk) / 16 * xmy2 / 5) / 3)
    return math.exp(-hk / 2) * math.sqrt(xmy2) * poly / (2 * math.pi)


def _plan(c):
    """tactic for a Gaussian case, or a skip verdict"""
    xs, ys = _corners(c["box"])
    a, b, r = _std(c, xs[CERT_CORNER], ys[CERT_CORNER])
    if c["sigma"][1] == 0.0:
        return "gauss_case." if max(abs(a), abs(b)) <= 45 else "skip:point more than 45 sd out; covered by the numerical predicate"
    if max(abs(a), abs(b)) > 45:
        return "skip:point more than 45 sd out (normal CDF through RInt cannot be enclosed cheaply); covered by the numerical predicate"
    if abs(r) >= 0.925 and (a == b or a == -b):
        return "skip:h = +-k exactly (interval cannot enclose sqrt((h-k)^2) at 0); covered by the numerical predicate"
    amp = _amplification(c)
    if amp * 2.0 ** -44 < 1e-10:
        return "gauss_case."
    if amp * 2.0 ** -72 < 1e-10:
        if _TIER["tier"] == "thorough":
            return "gauss_case_deep."
        return "skip:deep-tail amplification %.1e needs the 2^-72 enclosure (thorough tier); covered by the numerical predicate" % amp
    return "skip:deep-tail amplification %.1e beyond the enclosure budget; covered by the numerical predicate" % amp


_state = {}


def coq_jobs(cases, outs):
    return []


def _prove(lemmas, heavy, light_chunk=6):
    """one kernel-checked lemma per entry; heavy ones get a file each (started first), light ones share a
    file (saves the ~1.3 s library load); a failing shared file is re-run one lemma per file"""
    from concurrent.futures import ThreadPoolExecutor

    def render(idx):
        return "\n".join([HEADER] + ["Lemma case_%d : %s.\nProof. %s Qed.\n" % (i, lemmas[i][0], lemmas[i][1]) for i in idx])
    hv = [[i] for i in range(len(lemmas)) if heavy[i]]
    lt = [i for i in range(len(lemmas)) if not heavy[i]]
    chunks = hv + [lt[k:k + light_chunk] for k in range(0, len(lt), light_chunk)]
    res = core.run_coq_jobs(PID, [("lem_%03d" % k, render(c)) for k, c in enumerate(chunks)], timeout=COQ_TIMEOUT)
    ok = [False] * len(lemmas)
    retry = []
    for k, c in enumerate(chunks):
        if res["lem_%03d" % k].ok:
            for i in c:
                ok[i] = True
        elif len(c) > 1:
            retry += c
    if retry:
        def one(i):
            pth = core.WORK / PID / ("lem_one_%d.v" % i)
            pth.write_text(render([i]))
            return i, core.coqc(pth, COQ_TIMEOUT)
        with ThreadPoolExecutor(max_workers=core.NPROC) as ex:
            for i, r in ex.map(one, retry):
                ok[i] = r.ok
    return ok


def coq_judge(cases, outs, results):
    verdicts = ["disagree:not-expressible (exception or non-finite value)"] * len(cases)
    todo = []
    for i, (c, o) in enumerate(zip(cases, outs)):
        if "error" in o or any(not (v == v) or abs(v) == float("inf") for v in o.get("vals", [float("nan")])):
            continue
        if c["kind"] == "gauss":
            pl = _plan(c)
            if pl.startswith("skip"):
                verdicts[i] = pl
                continue
        todo.append(i)
    todo.sort(key=lambda i: -_weight(cases[i]))
    lemmas, owner, heavy = [], [], []
    # accuracy certificates (impl vs Plackett's integral, 1e-7) inside Coq: quick = the two refutation
    # witnesses + the first g_high and g_mid10 case; thorough = every corpus case + 4 per class
    quick = _TIER["tier"] == "quick"
    seen_cls = {}
    for i in sorted(todo):
        c = cases[i]
        if c["kind"] != "gauss" or c["sigma"][1] == 0.0 or c.get("cls") in ("g_tail", "g_xtail"):
            continue
        key = c.get("cls")
        r = abs(_std(c, 0.0, 0.0)[2])
        if key == "corpus":
            want = (not quick) or r >= 0.925
        elif quick:
            want = key in ("g_high", "g_mid10") and seen_cls.get(key, 0) < 1
        else:
            want = seen_cls.get(key, 0) < 4
        if want:
            seen_cls[key] = seen_cls.get(key, 0) + 1
            lemmas.append((_ref_stmt(c, outs[i]["vals"][CERT_CORNER]), "ref_case; enclose_rint; finish_value."))
            owner.append(i)
            heavy.append(True)
    _state["ref_certs"] = len(lemmas)
    for i in todo:
        c, o = cases[i], outs[i]
        if c["kind"] == "gauss":
            lemmas.append((_gauss_stmt(c, o["vals"][CERT_CORNER]), _plan(c)))
            owner.append(i)
            heavy.append(_weight(c) >= 2)
        elif c["kind"] == "uniform":
            xs, ys = _corners(c["box"])
            for k in ((0, 3) if _dyadic(c) else (3,)):
                call = "uniform_cdf (%s, %s) %s %s %s %s" % (R(c["mu"][0]), R(c["mu"][1]), R(c["width"]),
                                                          R(c["height"]), R(xs[k]), R(ys[k]))
                if _dyadic(c):
                    lemmas.append(("%s = %s" % (call, R(o["vals"][k])), "uniform_case."))
                else:
                    lemmas.append(("Rabs (%s - %s) <= %s" % (call, R(o["vals"][k]), R(TOL_U)), "uniform_case."))
                owner.append(i)
                heavy.append(False)
        else:
            lemmas.append(("Rabs (Phi_int %s - %s) <= %s" % (R(c["x"]), R(o["vals"][0]), R(TOL_P)), "phi_case."))
            owner.append(i)
            heavy.append(False)
    ok = _prove(lemmas, heavy)
    good = {}
    for i, g in zip(owner, ok):
        good[i] = good.get(i, True) and g
    bad_gauss = []
    for i in todo:
        if good.get(i, False):
            verdicts[i] = "agree"
        else:
            verdicts[i] = "disagree:certificate |model - impl| <= tol not provable (%s)" % cases[i]["kind"]
            if cases[i]["kind"] == "gauss" and _weight(cases[i]) == 3:   # the variants differ only for |r| >= 0.925
                bad_gauss.append(i)
    if bad_gauss:   # does the implementation behave like the refuted pinned variant?
        lem = [(_gauss_stmt(cases[i], outs[i]["vals"][CERT_CORNER], legacy=True), _plan(cases[i])) for i in bad_gauss]
        ok2, _ = core.prove_lemmas(PID, HEADER, lem, chunk=1, timeout=COQ_TIMEOUT, tag="leg")
        for i, g in zip(bad_gauss, ok2):
            if g:
                verdicts[i] = "legacy:C13-bvn-asr"
    return verdicts


def finding_of(case, out, detail):
    """images_kernels.py:173 (`asr > 100`) was repaired in /repo (fixes/C13_bvn_asr.patch).
    Call site + signature of the far-tail defect (fixes/C13_bvn_far_tail_nan.patch): bvn_cdf lines 199-202 multiply
    ep1 = exp(-hk(1-rs)/(2(1+rs)))/rs = inf by the 0/1 mask -> NaN, i.e. a NaN value at |r| >= 0.925 with h*k (after
    the r<0 reflection) below -5e4.  Only attributed when known_findings.json has an OPEN entry with this id."""
    if case.get("kind") == "gauss" and detail.startswith("nan") and case["sigma"][1] != 0.0:
        xs, ys = _corners(case["box"])
        for x, y, v in zip(xs, ys, out.get("vals", [])):
            a, b, r = _std(case, x, y)
            if v != v and abs(r) >= 0.925 and (a * b if r < 0 else -a * b) > 5e4:
                return "C13-far-tail-nan"
    return None


def shrink_candidates(c):
    if c["kind"] == "gauss":
        x1, x2, y1, y2 = c["box"]
        if (x1, y1) != (x2, y2):
            for p in ((x2, y2), (x1, y1), (x1, y2), (x2, y1)):
                d = dict(c); d["box"] = [p[0], p[0], p[1], p[1]]; yield d
        if c["mu"] != [0.0, 0.0] or c["sigma"][0] != 1.0 or c["sigma"][2] != 1.0:
            sxx, sxy, syy = c["sigma"]
            mx, my = c["mu"]
            r = sxy / math.sqrt(sxx * syy)
            d = dict(c); d["mu"] = [0.0, 0.0]; d["sigma"] = [1.0, r, 1.0]
            d["box"] = [(x1 - mx) / math.sqrt(sxx), (x2 - mx) / math.sqrt(sxx), (y1 - my) / math.sqrt(syy), (y2 - my) / math.sqrt(syy)]
            yield d
        for nd in (2, 3, 4):
            d = dict(c); d["box"] = [round(t, nd) for t in c["box"]]
            d["sigma"] = [c["sigma"][0], round(c["sigma"][1], nd), c["sigma"][2]]
            if d != c and d["box"][0] <= d["box"][1] and d["box"][2] <= d["box"][3]:
                yield d
    elif c["kind"] == "uniform":
        x1, x2, y1, y2 = c["box"]
        if (x1, y1) != (x2, y2):
            for p in ((x2, y2), (x1, y1), (x1, y2), (x2, y1)):
                d = dict(c); d["box"] = [p[0], p[0], p[1], p[1]]; yield d
        for nd in (1, 2, 3):
            d = dict(c); d["box"] = [round(t, nd) for t in c["box"]]; d["mu"] = [round(t, nd) for t in c["mu"]]
            if d != c and d["box"][0] <= d["box"][1] and d["box"][2] <= d["box"][3]:
                yield d
