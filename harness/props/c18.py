"""C18 - transformers: fit+transform == fit_transform, and refits forget the past.

Models: coq/Model/TransformerM.v (landscaper over Q, imager = Model/ImagerM.v over binary64).
Tie: random histories of fit / transform / fit_transform calls on PersistenceLandscaper and
PersistenceImager; after every call the attributes are compared with the model run inside Coq
(Corr/TransformerCorr.v: landscaper exactly over Q incl. get_params and raised exceptions, imager bit
for bit incl. both meshes).  Independent predicate, on the implementation's outputs only: attributes
are the user's parameters or the extremes of the data of the most recent successful fit; transform is
repeatable and leaves attributes and inputs untouched; fit_transform(X) equals fit(X).transform(X) on
a copy and equals what a FRESH estimator with the user's parameters returns (forgets the past);
transform after a history equals transform of a fresh estimator fitted only on the last fitted data
(both transformers); the imager maps a collection element by element, in order.  The imager histories run
with default and with non-default weight / kernel arguments (the images themselves are quantified away in
the Coq model, so the tie is unaffected); a fit that raises leaves the estimator as it was."""
import math
from fractions import Fraction

from .. import core

PID = "C18"
THEOREMS = [
    "landscaper_fit_then_transform_eq_fit_transform", "landscaper_fit_transform_unfolds",
    "landscaper_transform_pure", "landscaper_refit_legacy_refuted", "landscaper_fit_forgets",
    "landscaper_fit_transform_forgets", "landscaper_params_are_users", "landscaper_clone_is_fresh",
    "landscaper_fit_learns_span",
    "imager_fit_then_transform_eq_fit_transform", "imager_transform_pure", "imager_maps_elementwise",
    "imager_fit_forgets", "imager_fit_forgets_history",
]
RULE = ("seeded histories of 3-8 fit / transform / fit_transform calls (landscaper: also sklearn.base.clone) on different "
        "diagram collections; "
        "landscaper: random subset of {start, stop} user-fixed, hom_deg 0/1, flatten on/off, some fits on malformed "
        "input (missing degree, empty diagram); imager: constructor ranges / pixel sizes incl. inexact quotients, "
        "skew on/off, single diagram or list, transform with n_jobs in {1, 2} on 3-6 diagrams of pairwise different sizes, "
        "collections in which the same ndarray object occurs at two or more positions, and (class imager-degenerate) later fits on collections with zero extent on an "
        "axis: all births equal / all persistences equal / a single point / one-point diagrams; "
        "classes *-kw (about 55% of the imager cases): non-default weight / kernel arguments - isotropic Gaussian with "
        "variance != 1 given as float, int, 2x2 list or 2x2 ndarray, diagonal and full covariance matrices (general code "
        "path, |rho| on both sides of 0.925), the uniform kernel, persistence weight with exponent != 1, linear ramp (all or a subset of the "
        "optional arguments of ramp / uniform kernel given); kernel / weight by name or as the callable; every reference estimator gets its own copies of these arguments; "
        "about 15% of the imager cases contain one fit / fit_transform on a collection with an empty diagram (raises "
        "half-way, caught; must leave the estimator as the last successful fit made it) followed by clean calls; "
        "every imager transform is also compared with a new imager (user's arguments) fitted on the last fitted data only; "
        "a case is non-trivial when it contains >= 2 successful fits "
        "(fit or fit_transform) on different data and, for the landscaper, at least one grid end is not user-fixed; "
        "class multi-*: two or three live estimators in one process with interleaved calls (all fitted on fold A, "
        "then all on fold B; user-fixed ends equal to values another estimator learns), each judged on its own sub-history "
        "and required to be untouched by calls on the others; multi-imager-sharedkw: the live imagers are built from the "
        "SAME weight_params / kernel_params dict objects; "
        "classes *-dtype (100 extra cases in quick, 2000 in thorough; 3 of 4 imager, 1 of 4 landscaper histories): every diagram "
        "is an ndarray of dtype float32 / float16 / int64, or the collection mixes float32, float64 and float16 diagrams; all "
        "coordinates are exactly representable in their dtype; half of the imager ones use a 'round' decimal pixel size "
        "(0.05 .. 0.7) so that data extents are near-multiples of it; the same relations as for float64 are demanded between "
        "the calls on the SAME arrays (fit then transform on a copy == fit_transform == a fresh imager; element by element; "
        "inputs keep values and dtype) - nothing is compared with a float64 run; distinct = distinct JSON input")
TRUSTED_BASE = [
    "Coq 8.16.1 kernel, vm_compute (no native_compute)",
    "PrimFloat primitives and their stdlib specification axioms (imager correspondence only; the theorems are closed)",
    "hand-written models Model/TransformerM.v (transformer.py fit/transform, TransformerMixin.fit_transform, "
    "images.py fit/transform/fit_transform) and Model/ImagerM.v",
    "harness: generator, float->rational/hex printers, verdict parser, relational predicate",
]
ASSUMPTIONS = [
    "what PersLandscapeApprox and _transform compute is quantified away in the theorems (section variables); their "
    "values are the subject of C08 / C04.  Here outputs are compared relationally (exact array equality between runs)",
    "infinite deaths and NaN are outside the generated inputs; attribute assignment / set_params between calls is not "
    "part of the histories (the property quantifies over fit / transform / fit_transform calls)",
    "imager histories on diagrams of a dtype other than float64 (classes imager*-dtype) are judged by the relational "
    "predicate only: fit and the range setters then compute in the dtype of the data, the Coq imager model is binary64, "
    "so these cases get the verdict skip in the model tie (landscaper *-dtype cases keep the exact tie over Q)",
    "imager: the only raising call generated is fit / fit_transform on a collection that contains an empty diagram "
    "beside a non-empty one; such a call is no step of the Coq history (the model state must survive it unchanged); "
    "a wholly empty input is outside the generated inputs",
]
COQ_DEPS = ["Corr/TransformerCorr.vo"]
MAXPIX = 12


# ------------------------------------------------------------------------------------ generators
def _ldgm(rng, n=None, lo=0.0, hi=15.0):
    n = n or rng.randint(1, 4)
    out = []
    for _ in range(n):
        b = rng.choice([rng.uniform(lo, hi - 1), float(rng.randint(int(lo), int(hi) - 2)), 0.5 * rng.randint(0, 20)])
        ln = rng.choice([rng.uniform(0.1, 4.0), float(rng.randint(1, 4)), 0.5])
        out.append([b, b + ln])
    return out


def _lX(rng, hom, kind="ok"):
    nd = rng.randint(hom + 1, 3)
    X = [_ldgm(rng) for _ in range(nd)]
    if kind == "short":
        X = X[:hom]                   # X[hom_deg] does not exist
    elif kind == "empty":
        X[hom] = []
    return X


def _landscaper_case(rng):
    hom = rng.choice([0, 0, 1])
    fixed = rng.choice(["none", "none", "start", "stop", "both"])
    start = rng.choice([-1.0, 0.0, 0.25, rng.uniform(-2, 1)]) if fixed in ("start", "both") else None
    stop = rng.choice([20.0, 25.5, rng.uniform(20, 40)]) if fixed in ("stop", "both") else None
    ops = []
    for _ in range(rng.randint(3, 8)):
        k = rng.choice(["fit", "fit", "transform", "transform", "fit_transform"])
        if rng.random() < 0.1:
            ops.append({"op": "clone", "X": []})
            continue
        kind = "ok"
        if k == "fit" and rng.random() < 0.12:
            kind = rng.choice(["short", "empty"])
        ops.append({"op": k, "X": _lX(rng, hom, kind)})
    return {"cls": "landscaper-" + fixed, "kind": "landscaper", "hom": hom, "start": start, "stop": stop,
            "num_steps": rng.randint(3, 12), "flatten": rng.random() < 0.5, "ops": ops}


def _idgms(rng, ps):
    nd = rng.randint(1, 3)
    span = ps * rng.uniform(2, MAXPIX - 2)
    b0 = rng.choice([0.0, -1.0, 0.3, rng.uniform(-2, 2)])
    out = []
    for _ in range(nd):
        d = []
        for _ in range(rng.randint(1, 4)):
            b = b0 + rng.choice([rng.uniform(0, span), ps * rng.randint(0, 6), 0.1 * rng.randint(0, 9)])
            p = rng.choice([rng.uniform(0.01, span), ps * rng.randint(1, 6), 0.1 * rng.randint(1, 9)])
            d.append([b, b + p])
        out.append(d)
    pts = [q for d in out for q in d]
    if len({q[0] for q in pts}) < 2 or len({q[1] - q[0] for q in pts}) < 2 or len({q[1] for q in pts}) < 2:
        out[0].append([b0 + span, b0 + span + span * 0.75])
        out[0].append([b0 - ps * 0.5, b0 - ps * 0.5 + ps * 0.3])
    return out


def _idgms_degenerate(rng, ps, skew):
    """Collections with zero extent on an axis: all births equal (e.g. H0 born at 0), all persistences
    equal, a single point, or several one-point diagrams; coordinates are dyadic multiples so that
    'equal' survives the skew subtraction exactly."""
    kind = rng.choice(["births_equal", "pers_equal", "single_point", "one_point_dgms", "both_equal"])
    g = rng.choice([0.25, 0.5, 0.125])
    b0 = g * rng.randint(-4, 8)
    p0 = g * rng.randint(1, 8)

    def pt(b, p):                      # second coordinate as the call will read it
        return [b, b + p] if skew else [b, p]
    nmax = max(2, int(min(MAXPIX - 2, 8)))
    if kind == "single_point":
        return kind, [[pt(b0, p0)]]
    if kind == "both_equal":
        return kind, [[pt(b0, p0)] * rng.randint(2, 3), [pt(b0, p0)]][:rng.randint(1, 2)]
    n = rng.randint(2, 5)
    pts = []
    for _ in range(n):
        if kind == "births_equal":
            pts.append(pt(b0, p0 + ps * rng.randint(0, nmax) * rng.choice([1.0, 0.5])))
        elif kind == "pers_equal":
            pts.append(pt(b0 + ps * rng.randint(0, nmax) * rng.choice([1.0, 0.5]), p0))
        else:
            pts.append(pt(b0 + g * rng.randint(0, 8), p0 + g * rng.randint(0, 8)))
    if kind == "one_point_dgms":
        return kind, [[q] for q in pts[:3]]
    cut = rng.randint(1, len(pts))
    return kind, [d for d in (pts[:cut], pts[cut:]) if d]


def _ikw(rng, ps):
    """Non-default weight / kernel parameters, as a user writes them: an isotropic Gaussian with variance != 1
    given as a float, an int, a 2x2 list or a 2x2 ndarray; a diagonal or a full covariance matrix (the general
    code path, |rho| below and above the 0.925 switch of the bivariate normal CDF); the uniform kernel; persistence
    weighting with exponent != 1; the linear ramp.  Kernel and weight are given by name or as the callables."""
    kw = {}
    r = rng.random()
    if r < 0.6:
        v = rng.choice([0.25, 4.0, 0.5, 2.0, 0.01, ps * ps, rng.uniform(0.05, 3.0)])
        form = rng.choice(["scalar", "scalar", "matrix", "matrix", "int", "diag", "cov"])
        if form == "scalar":
            sg = v
        elif form == "int":
            sg = rng.choice([2, 4, 9])
        elif form == "matrix":
            sg = [[v, 0.0], [0.0, v]]
        elif form == "diag":
            sg = [[v, 0.0], [0.0, v * rng.choice([0.25, 2.0, 3.0])]]
        else:
            w = v * rng.choice([1.0, 0.5, 2.0])
            rho = rng.choice([rng.uniform(-0.9, 0.9), 0.5, -0.5, 0.95, -0.95])
            cv = rho * math.sqrt(v * w)
            sg = [[v, cv], [cv, w]]
        kw["kernel_params"] = {"sigma": sg}
        if isinstance(sg, list) and rng.random() < 0.4:
            kw["sigma_np"] = True
        if rng.random() < 0.3:
            kw["kernel"] = "gaussian"
    elif r < 0.75:
        kw["kernel"] = "uniform"
        kw["kernel_params"] = {"width": ps * rng.choice([1.0, 0.5, 2.5, rng.uniform(0.3, 4.0)]),
                               "height": ps * rng.choice([1.0, 0.5, 2.5, rng.uniform(0.3, 4.0)])}
    if "kernel" in kw and rng.random() < 0.5:
        kw["kernel_fn"] = True             # the callable itself instead of its name
    r = rng.random()
    if r < 0.3 or (not kw and r < 0.7):
        kw["weight_params"] = {"n": rng.choice([2.0, 0.5, 1.5, 2, 3])}
        if rng.random() < 0.3:
            kw["weight"] = "persistence"
    elif r < 0.45 or not kw:
        lo = rng.choice([0.0, 0.0, 0.1])
        st = rng.choice([0.0, 0.25, ps, rng.uniform(0.0, 1.0)])
        kw["weight"] = "linear_ramp"
        kw["weight_params"] = {"low": lo, "high": lo + rng.choice([1.0, 2.0, 0.5]), "start": st,
                               "end": st + rng.choice([1.0, 0.5, 3.0, rng.uniform(0.2, 3.0)])}
    if "weight" in kw and rng.random() < 0.5:
        kw["weight_fn"] = True
    # any subset of the optional arguments fixed by the user, the rest left to the function's defaults
    for name in ("weight_params", "kernel_params"):
        d = kw.get(name, {})
        if len(d) >= 2 and rng.random() < 0.35:
            for k in rng.sample(sorted(d), rng.randint(1, len(d) - 1)):
                del d[k]
    return kw


def _imager_case(rng, round_pixels=False):
    ps = rng.choice([0.25, 0.5, 1.0, 0.1, 0.3, 0.7, 1.0 / 3.0, rng.uniform(0.1, 1.5), rng.uniform(0.1, 1.5)])
    if round_pixels and rng.random() < 0.5:
        ps = rng.choice([0.1, 0.1, 0.2, 0.3, 0.05, 0.7])     # extents of 'round' decimal data are near-multiples
    def rng_for():
        lo = rng.choice([0.0, -1.0, 0.5, rng.uniform(-2, 2)])
        ext = rng.choice([ps * rng.randint(1, 8), ps * rng.uniform(0.5, 8), 0.3, 0.7, 1.0])
        if ext / ps >= MAXPIX:
            ext = ps * 3
        return [lo, lo + ext]
    ctor = {"br": rng_for(), "pr": rng_for(), "ps": ps}
    if rng.random() < 0.55:
        ctor["kw"] = _ikw(rng, ps)
    ops = []
    degenerate = rng.random() < 0.4
    fault_at = rng.randint(1, 6) if rng.random() < 0.15 else -1
    for _ in range(rng.randint(3, 8)):
        k = rng.choice(["fit", "transform", "transform", "fit_transform", "fit_transform"])
        skew = rng.random() < 0.6
        if len(ops) == fault_at:
            # a fit that raises half-way (an empty diagram somewhere in the collection), caught by the caller
            d = _idgms(rng, ps)
            d.insert(rng.randint(0, len(d)), [])
            ops.append({"op": rng.choice(["fit", "fit", "fit_transform"]), "dgms": d, "skew": skew, "single": False,
                        "fault": True})
        if degenerate and ops and rng.random() < 0.6:
            # a LATER fit / fit_transform / transform on a collection with zero extent on an axis
            dk, d = _idgms_degenerate(rng, ps, skew)
            ops.append({"op": k, "dgms": d, "skew": skew, "single": len(d) == 1 and rng.random() < 0.6, "deg": dk})
            continue
        if k == "transform" and rng.random() < 0.5:
            # the joblib branch: 3-6 diagrams of different sizes, n_jobs 1 (mostly) or 2
            ops.append({"op": k, "dgms": _idgms_sized(rng, ps), "skew": skew, "single": False,
                        "n_jobs": 2 if rng.random() < 0.08 else 1})
            continue
        d = _idgms(rng, ps)
        if rng.random() < 0.3:
            # the SAME ndarray object at two or more positions (resampling with replacement, [d] * k)
            same = [rng.randrange(len(d)) for _ in range(rng.randint(2, 5))]
            same[rng.randrange(1, len(same))] = same[0]
            ops.append({"op": k, "dgms": [d[g] for g in same], "same": same,
                        "skew": True if rng.random() < 0.8 else skew, "single": False})
            continue
        ops.append({"op": k, "dgms": d, "skew": skew, "single": len(d) == 1 and rng.random() < 0.6})
    if degenerate and not any("deg" in o and o["op"] != "transform" for o in ops):
        skew = rng.random() < 0.6
        dk, d = _idgms_degenerate(rng, ps, skew)
        ops.append({"op": rng.choice(["fit", "fit_transform"]), "dgms": d, "skew": skew,
                    "single": len(d) == 1 and rng.random() < 0.6, "deg": dk})
    cls = ("imager-degenerate" if degenerate else "imager") + ("-kw" if "kw" in ctor else "")
    return {"cls": cls, "kind": "imager", "ctor": ctor, "ops": ops}


def _idgms_sized(rng, ps):
    """3-6 diagrams of pairwise different sizes, in an order that is not sorted by size."""
    n = rng.randint(3, 6)
    sizes = rng.sample(range(1, 8), n)
    span = ps * rng.uniform(2, MAXPIX - 2)
    b0 = rng.choice([0.0, -1.0, 0.3])
    out = []
    for k in sizes:
        out.append([[b0 + rng.uniform(0, span), 0.0] for _ in range(k)])
        for q in out[-1]:
            q[1] = q[0] + rng.uniform(0.05, span)
    return out


def _multi_case(rng):
    """Two or three LIVE estimators in one process, calls interleaved (e.g. one landscaper per homological
    degree, all fitted on fold A, then all on fold B)."""
    what = rng.choice(["landscaper", "landscaper", "imager"])
    n_est = rng.randint(2, 3) if what == "landscaper" else 2
    ops = []
    if what == "landscaper":
        folds = [_lX(rng, 1) for _ in range(rng.randint(2, 3))]
        ests = []
        for i in range(n_est):
            e = _landscaper_case(rng)
            e.pop("ops"); e.pop("cls"); e.pop("kind")
            if e["start"] is not None and rng.random() < 0.5:
                # a user-fixed start that equals what another estimator will learn from a fold
                e["start"] = min(float(b) for b, _ in rng.choice(folds)[e["hom"]])
            ests.append(e)
        for X in folds:
            order = list(range(n_est)); rng.shuffle(order)
            for i in order:
                ops.append({"op": rng.choice(["fit", "fit", "fit_transform"]), "X": X, "est": i})
            for i in order:
                if rng.random() < 0.6:
                    ops.append({"op": "transform", "X": rng.choice(folds), "est": i})
        for _ in range(rng.randint(0, 3)):
            ops.append({"op": rng.choice(["fit", "transform", "fit_transform"]), "X": _lX(rng, 1), "est": rng.randrange(n_est)})
    else:
        ests = []
        for i in range(n_est):
            e = _imager_case(rng)
            ests.append({"ctor": e["ctor"]})
        ps = max(e["ctor"]["ps"] for e in ests)
        share = False
        if rng.random() < 0.5:
            # one weight_params / kernel_params dict (the SAME objects) handed to every estimator, as in a loop
            # over pixel sizes with the remaining parameters held in one dict
            kw = _ikw(rng, ps)
            for e in ests:
                e["ctor"]["kw"] = kw
            share = True
        folds = [_idgms(rng, ps) for _ in range(2)]
        for d in folds:
            for i in rng.sample(range(n_est), n_est):
                ops.append({"op": rng.choice(["fit", "fit_transform"]), "dgms": d, "skew": True, "single": False, "est": i})
            for i in range(n_est):
                ops.append({"op": "transform", "dgms": rng.choice(folds), "skew": True, "single": False, "est": i})
    c = {"cls": "multi-" + what, "kind": "multi", "what": what, "ests": ests, "ops": ops}
    if what == "imager" and share:
        c["cls"] += "-sharedkw"
        c["share_kw"] = True
    return c


DTYPES = ("float32", "float16", "int64", "mixed")
_MIXED = ("float32", "float64", "float16")


def _narrow(x, dt):
    """The double nearest to x that the dtype holds exactly (so that the JSON input IS the array's content)."""
    import struct
    if dt == "float32":
        return struct.unpack("f", struct.pack("f", x))[0]
    if dt in ("float16", "mixed"):
        return struct.unpack("e", struct.pack("e", x))[0]
    if dt == "int64":
        return float(round(x))
    return x


def _dtypes_of(c, o, n):
    """dtype name of each of the n diagrams of one call ('mixed': the collection mixes float32 / float64 / float16)."""
    dt = c.get("dtype")
    if dt is None:
        return ["float64"] * n
    if dt == "mixed":
        k = len(o.get("dgms", o.get("X", [])))
        return [_MIXED[(i + k) % 3] for i in range(n)]
    return [dt] * n


def _narrow_case(rng, what=None):
    """Classes *-dtype: the diagrams are arrays of a dtype other than float64 (float32, float16, int64, or a
    collection that mixes float widths); every value is exactly representable in its dtype.  Nothing is compared
    with a float64 run: the same relations between fit / transform / fit_transform on the SAME arrays are demanded."""
    what = what or rng.choice(["imager", "imager", "imager", "landscaper"])
    dt = rng.choice(["float32", "float32", "float16", "float16", "int64", "mixed"])
    if what == "landscaper":
        c = _landscaper_case(rng)
        for o in c["ops"]:
            o["X"] = [[[_narrow(b, dt), _narrow(e, dt)] for b, e in d] for d in o["X"]]
    else:
        c = _imager_case(rng, round_pixels=True)
        for o in c["ops"]:
            o["dgms"] = [[[_narrow(b, dt), _narrow(e, dt)] for b, e in d] for d in o["dgms"]]
    c["dtype"] = dt
    c["cls"] += "-dtype"
    return c


def _one(rng, i):
    if i % 5 == 4:
        return _multi_case(rng)
    if i % 10 == 7:
        return _narrow_case(rng)
    return _landscaper_case(rng) if i % 2 == 0 else _imager_case(rng)


def _base(rng, i):
    if i % 5 == 4:
        return _multi_case(rng)
    return _landscaper_case(rng) if i % 2 == 0 else _imager_case(rng)


def generate(rng, tier):
    n, m = (400, 100) if tier == "quick" else (8000, 2000)
    return [_base(rng, i) for i in range(n)] + [_narrow_case(rng) for _ in range(m)]


def search_generate(rng, n):
    return [_one(rng, i) for i in range(n)]


def corpus():
    """Refutation witnesses and the suite's own examples, stored under corpus/C18/*.json."""
    import json
    d = core.VERIF / "corpus" / PID
    out = []
    for p in sorted(d.glob("*.json")):
        c = json.loads(p.read_text())
        c.pop("_id", None)
        c["cls"] = "corpus"
        out.append(c)
    return out


# ------------------------------------------------------------------------------------ implementation
def _arr(v):
    import numpy as np
    a = np.asarray(v, dtype=float)
    return {"shape": [int(x) for x in a.shape], "data": [float(x) for x in a.ravel()]}


def _try(fn):
    try:
        return {"ret": fn()}
    except Exception as e:  # noqa
        return {"error": type(e).__name__, "msg": str(e)[:160]}


def _num(v):
    return None if v is None else float(v)


def _l_runner(c):
    """One live PersistenceLandscaper: returns (step(op) -> record, state() -> attributes)."""
    import numpy as np
    from persim import PersistenceLandscaper

    def mk():
        return PersistenceLandscaper(hom_deg=c["hom"], start=c["start"], stop=c["stop"],
                                     num_steps=c["num_steps"], flatten=c["flatten"])

    def X_of(o):
        return [np.array(d, dtype=float).reshape(-1, 2).astype(dt)
                for d, dt in zip(o["X"], _dtypes_of(c, o, len(o["X"])))]

    def attrs(e):
        gp = e.get_params()
        return {"start": _num(e.start), "stop": _num(e.stop), "hom": int(e.hom_deg), "num_steps": int(e.num_steps),
                "flatten": bool(e.flatten), "pstart": _num(gp["start"]), "pstop": _num(gp["stop"])}

    st = {"est": mk(), "last_fit": None}     # last_fit: data of the most recent fit that did not raise

    def step(o):
        est = st["est"]
        X = X_of(o)
        rec = {}
        if o["op"] == "clone":
            from sklearn.base import clone
            st["est"] = est = clone(est)
            r = {"ret": None}
            st["last_fit"] = None
        elif o["op"] == "fit":
            r = _try(lambda: est.fit(X) and None)
            if "error" not in r:
                st["last_fit"] = o
        elif o["op"] == "transform":
            r = _try(lambda: _arr(est.transform(X)))
            rec["again"] = _try(lambda: _arr(est.transform(X)))

            def ref():
                f = mk()
                if st["last_fit"] is not None:
                    f.fit(X_of(st["last_fit"]))
                return _arr(f.transform(X))
            rec["ref"] = _try(ref)
        else:
            r = _try(lambda: _arr(est.fit_transform(X)))
            if "error" not in r:
                st["last_fit"] = o
            rec["ref"] = _try(lambda: _arr(mk().fit(X).transform(X)))
        rec.update(r)
        rec["attrs"] = attrs(est)
        return rec
    return step, (lambda: attrs(st["est"]))


def _run_landscaper(c):
    step, _ = _l_runner(c)
    return {"calls": [step(o) for o in c["ops"]]}


def _isnap(p):
    import numpy as np
    s = {"ps": float(p.pixel_size), "br": [float(x) for x in p.birth_range], "pr": [float(x) for x in p.pers_range],
         "width": float(p.width), "height": float(p.height), "res": [int(x) for x in p.resolution],
         "bp": [float(x) for x in p._bpnts], "pp": [float(x) for x in p._ppnts],
         "wk": repr((p.weight.__name__, p.weight_params, p.kernel.__name__, p.kernel_params))}
    t = _try(lambda: [int(v) for v in np.asarray(p.transform(np.array([[s["br"][0], s["pr"][0]]]), skew=False)).shape])
    s["shape"] = t.get("ret")
    return s


def _ikwargs(ct):
    """The user's weight / kernel arguments as NEW objects (every estimator built from them owns its dicts)."""
    import copy
    import numpy as np
    from persim import images_kernels, images_weights
    kw = ct.get("kw") or {}
    out = {}
    if "kernel" in kw:
        out["kernel"] = getattr(images_kernels, kw["kernel"]) if kw.get("kernel_fn") else kw["kernel"]
    if "weight" in kw:
        out["weight"] = getattr(images_weights, kw["weight"]) if kw.get("weight_fn") else kw["weight"]
    if "kernel_params" in kw:
        kp = copy.deepcopy(kw["kernel_params"])
        if kw.get("sigma_np") and isinstance(kp.get("sigma"), list):
            kp["sigma"] = np.array(kp["sigma"], dtype=float)
        out["kernel_params"] = kp
    if "weight_params" in kw:
        out["weight_params"] = copy.deepcopy(kw["weight_params"])
    return out


def _i_runner(c, kwargs=None):
    """One live PersistenceImager: returns (initial record, step(op) -> record, state() -> snapshot).
    `kwargs`: weight / kernel argument objects shared with other live estimators (default: own objects)."""
    import copy
    import numpy as np
    from persim import PersistenceImager
    ct = c["ctor"]
    p = PersistenceImager(birth_range=tuple(ct["br"]), pers_range=tuple(ct["pr"]), pixel_size=ct["ps"],
                          **(_ikwargs(ct) if kwargs is None else kwargs))
    st = {"last_fit": None}             # the most recent fit / fit_transform that did not raise

    def build(o):
        arrs = [np.array(d, dtype=float).reshape(-1, 2).astype(dt)
                for d, dt in zip(o["dgms"], _dtypes_of(c, o, len(o["dgms"])))]
        if "same" in o:                 # positions with the same group id hold the same array OBJECT
            first = {}
            arrs = [first.setdefault(g, a) for g, a in zip(o["same"], arrs)]
        return arrs, (arrs[0] if o["single"] else arrs)

    def step(o):
        arrs, arg = build(o)
        before = [a.copy() for a in arrs]
        skew = o["skew"]
        rec = {}

        def imgs(v):
            return [_arr(v)] if o["single"] else [_arr(x) for x in v]
        if o["op"] == "fit":
            r = _try(lambda: p.fit(arg, skew=skew))
            r.pop("ret", None)
        elif o["op"] == "transform":
            nj = o.get("n_jobs")
            r = _try(lambda: imgs(p.transform(arg, skew=skew, n_jobs=nj)))
            rec["again"] = _try(lambda: imgs(p.transform(arg, skew=skew)))        # serial branch
            rec["each"] = _try(lambda: [_arr(p.transform(a, skew=skew)) for a in arrs])

            def ref():                  # a NEW estimator with the user's arguments, fitted on the last fitted data only
                f = PersistenceImager(birth_range=tuple(ct["br"]), pers_range=tuple(ct["pr"]), pixel_size=ct["ps"],
                                      **_ikwargs(ct))
                if st["last_fit"] is not None:
                    f.fit(build(st["last_fit"])[1], skew=st["last_fit"]["skew"])
                return imgs(f.transform(build(o)[1], skew=skew))
            rec["ref"] = _try(ref)
        else:
            q = copy.deepcopy(p)
            r = _try(lambda: imgs(p.fit_transform(arg, skew=skew)))

            def ref():
                q.fit(arg, skew=skew)
                return imgs(q.transform(arg, skew=skew))
            rec["ref"] = _try(ref)
            rec["each"] = _try(lambda: [_arr(p.transform(a, skew=skew)) for a in arrs])
        if o["op"] != "transform":
            fresh = PersistenceImager(pixel_size=ct["ps"], **_ikwargs(ct))       # default ranges: a different past
            if o["op"] == "fit":
                rec["fresh"] = _try(lambda: fresh.fit(arg, skew=skew) and None)
            else:
                rec["fresh"] = _try(lambda: imgs(fresh.fit_transform(arg, skew=skew)))
            rec["fresh_snap"] = _isnap(fresh)
        rec.update(r)
        if o["op"] != "transform" and "error" not in r:
            st["last_fit"] = o
        rec["inputs_unchanged"] = all(np.array_equal(a, b) and a.dtype == b.dtype for a, b in zip(arrs, before))
        rec["snap"] = _isnap(p)
        return rec
    return {"snap": _isnap(p)}, step, (lambda: _isnap(p))


def _run_imager(c):
    first, step, _ = _i_runner(c)
    return {"calls": [first] + [step(o) for o in c["ops"]]}


def _sub_cases(c):
    """The per-estimator view of a multi case: estimator i with the calls made on it, in order."""
    kind = c["what"]
    return [dict(e, kind=kind, ops=[o for o in c["ops"] if o["est"] == i]) for i, e in enumerate(c["ests"])]


def _run_multi(c):
    subs = _sub_cases(c)
    if c["what"] == "landscaper":
        runners = [_l_runner(sc) for sc in subs]
        per = [{"calls": []} for _ in subs]
    else:
        shared = _ikwargs(subs[0]["ctor"]) if c.get("share_kw") else None
        trip = [_i_runner(sc, shared) for sc in subs]
        runners = [(t[1], t[2]) for t in trip]
        per = [{"calls": [t[0]]} for t in trip]
    digest = [core.sha(st()) for _, st in runners]
    cross = []
    for k, o in enumerate(c["ops"]):
        i = o["est"]
        per[i]["calls"].append(runners[i][0](o))
        for j, (_, st) in enumerate(runners):
            d = core.sha(st())
            if j != i and d != digest[j]:
                cross.append({"call": k, "on": i, "changed": j, "state": st()})
            digest[j] = d
    return {"calls": [], "per": per, "cross": cross}


def impl_run(cases):
    outs = []
    for c in cases:
        try:
            outs.append(_run_multi(c) if c["kind"] == "multi" else
                        _run_landscaper(c) if c["kind"] == "landscaper" else _run_imager(c))
        except Exception as e:  # noqa
            outs.append({"error": type(e).__name__, "msg": str(e)[:200]})
    return outs


# ------------------------------------------------------------------------------------ the spec
def _same(a, b):
    """Exact equality of two recorded results (arrays, lists of arrays, or exceptions)."""
    if ("error" in a) != ("error" in b):
        return False
    if "error" in a:
        return a["error"] == b["error"]
    return _eq_nan(a["ret"], b["ret"])


def _eq_nan(x, y):
    if isinstance(x, float) and isinstance(y, float):
        return x == y or (x != x and y != y)
    if isinstance(x, dict) and isinstance(y, dict):
        return x.keys() == y.keys() and all(_eq_nan(x[k], y[k]) for k in x)
    if isinstance(x, list) and isinstance(y, list):
        return len(x) == len(y) and all(_eq_nan(a, b) for a, b in zip(x, y))
    return x == y


def _lfit_expect(c, X):
    """What fit(X) must do on an estimator with the user's parameters: ('ok', start, stop) or ('err', type)."""
    if c["hom"] >= len(X):
        return ("err", "IndexError")
    d = X[c["hom"]]
    if not d and (c["start"] is None or c["stop"] is None):
        return ("err", "ValueError")
    start = c["start"] if c["start"] is not None else min(float(b) for b, _ in d)
    stop = c["stop"] if c["stop"] is not None else max(float(e) for _, e in d)
    return ("ok", start, stop)


def _pred_landscaper(c, o):
    cur = (c["start"], c["stop"])            # attributes an estimator with this history must show
    for k, (op, rec) in enumerate(zip(c["ops"], o["calls"])):
        where = "call %d (%s)" % (k, op["op"])
        a = rec["attrs"]
        if op["op"] == "clone":
            cur = (c["start"], c["stop"])       # an unfitted estimator with the user's parameters
        if op["op"] in ("fit", "fit_transform"):
            exp = _lfit_expect(c, op["X"])
            if exp[0] == "err":
                if rec.get("error") != exp[1]:
                    return False, "error: %s: expected %s, got %s" % (where, exp[1], rec.get("error", "no exception"))
            else:
                if "error" in rec:
                    return False, "error: %s: unexpected %s %s" % (where, rec["error"], rec.get("msg"))
                cur = (exp[1], exp[2])
        if (a["start"], a["stop"]) != cur:
            return False, ("refit: %s: start/stop = %s/%s, but the user's parameters and the most recent fit give %s/%s"
                           % (where, a["start"], a["stop"], cur[0], cur[1]))
        if (a["hom"], a["num_steps"], a["flatten"]) != (c["hom"], c["num_steps"], c["flatten"]):
            return False, "attrs: %s: constructor parameters changed: %s" % (where, a)
        if (a["pstart"], a["pstop"]) != (c["start"], c["stop"]):
            return False, "params: %s: get_params() reports start/stop %s/%s, the user gave %s/%s" % (
                where, a["pstart"], a["pstop"], c["start"], c["stop"])
        if op["op"] == "transform":
            if "error" in rec:
                return False, "error: %s: unexpected %s %s" % (where, rec["error"], rec.get("msg"))
            if not _same(rec, rec["again"]):
                return False, "repeat: %s: transform twice gives different values" % where
            if not _same(rec, rec["ref"]):
                return False, "forgets: %s: transform differs from a fresh estimator fitted on the last fitted data only" % where
        if op["op"] == "fit_transform" and "error" not in rec:
            if not _same(rec, rec["ref"]):
                return False, "fit_transform: %s: fit_transform(X) differs from fit(X).transform(X) on a fresh estimator" % where
        if "ret" in rec and rec["ret"] is not None:
            nd = len(rec["ret"]["shape"])
            if nd != (1 if c["flatten"] else 2):
                return False, "flatten: %s: output has %d dimensions" % (where, nd)
    return True, ""


def _pred_imager(c, o):
    calls = o["calls"]
    for k, op in enumerate(c["ops"]):
        rec, prev = calls[k + 1], calls[k]
        where = "call %d (%s)" % (k, op["op"])
        if not rec["inputs_unchanged"]:
            return False, "inputs: %s: the caller's diagrams were modified" % where
        if op.get("fault") and "error" in rec:
            # a fit on a collection with an empty diagram may raise; then a fresh estimator raises as well and
            # the estimator still is what the most recent SUCCESSFUL fit made it
            if "error" not in rec["fresh"]:
                return False, "error: %s: raised %s, a fresh imager accepts the same collection" % (where, rec["error"])
            if not _eq_nan(rec["snap"], prev["snap"]):
                return False, ("atomic: %s: the call raised %s and left the fitted state changed: %s, before %s"
                               % (where, rec["error"], _brief(rec["snap"]), _brief(prev["snap"])))
            continue
        if "error" in rec:
            return False, "error: %s: unexpected %s %s" % (where, rec["error"], rec.get("msg"))
        n = 1 if op["single"] else len(op["dgms"])
        if op["op"] == "transform":
            if not _eq_nan(rec["snap"], prev["snap"]):
                return False, "pure: %s: transform changed the fitted state (fields %s)" % (
                    where, _differs(rec["snap"], prev["snap"]))
            if not _same(rec, rec["ref"]):
                return False, ("forgets: %s: transform differs from a new imager (same arguments) fitted on the last "
                               "fitted data only" % where)
            if not _same(rec, rec["again"]):
                return False, ("repeat: %s: transform%s differs from a second (serial) transform"
                               % (where, "" if op.get("n_jobs") is None else " with n_jobs=%s" % op["n_jobs"]))
            if "error" in rec["each"] or len(rec["ret"]) != n:
                return False, "elementwise: %s: %d images for %d diagrams" % (where, len(rec.get("ret", [])), n)
            for i in range(n):
                if not _eq_nan(rec["ret"][i], rec["each"]["ret"][i]):
                    return False, "elementwise: %s: image %d differs from transforming diagram %d alone" % (where, i, i)
        else:
            if not _eq_nan(rec["snap"], rec["fresh_snap"]):
                return False, ("forgets: %s: fitted attributes (fields %s) differ from a fresh imager (same pixel size) fitted on "
                               "the same data: %s vs %s" % (where, _differs(rec["snap"], rec["fresh_snap"]),
                                                            _brief(rec["snap"]), _brief(rec["fresh_snap"])))
            if op["op"] == "fit_transform":
                if not _same(rec, rec["ref"]):
                    return False, "fit_transform: %s: fit_transform(X) differs from fit(X); transform(X) on a copy" % where
                if not _same(rec, rec["fresh"]):
                    return False, "forgets: %s: fit_transform(X) differs from a fresh imager's" % where
                if "error" in rec["each"] or len(rec["ret"]) != n:
                    return False, "elementwise: %s: %d images for %d diagrams" % (where, len(rec.get("ret", [])), n)
                for i in range(n):
                    if not _eq_nan(rec["ret"][i], rec["each"]["ret"][i]):
                        return False, ("elementwise: %s: image %d differs from transforming diagram %d alone on the "
                                       "fitted imager" % (where, i, i))
        for im in rec.get("ret") or []:
            if im["shape"] != rec["snap"]["res"]:
                return False, "shape: %s: image shape %s, resolution %s" % (where, im["shape"], rec["snap"]["res"])
    return True, ""


def _brief(s):
    return {k: s[k] for k in ("br", "pr", "res")}


def _differs(a, b):
    """Names of the snapshot fields in which two snapshots differ (bp / pp: the pixel boundaries)."""
    return ",".join(k for k in sorted(set(a) | set(b)) if not _eq_nan(a.get(k), b.get(k)))


def predicate(c, o):
    if "error" in o and "calls" not in o:
        return False, "harness: runner raised %s %s" % (o["error"], o.get("msg"))
    if c["kind"] == "multi":
        for x in o["cross"]:
            return False, "cross: call %d (%s on estimator %d) changed estimator %d, now %s" % (
                x["call"], c["ops"][x["call"]]["op"], x["on"], x["changed"],
                {k: v for k, v in x["state"].items() if k in ("start", "stop", "pstart", "pstop", "br", "pr", "res")})
        for i, (sc, so) in enumerate(zip(_sub_cases(c), o["per"])):
            ok, d = (_pred_landscaper if c["what"] == "landscaper" else _pred_imager)(sc, so)
            if not ok:
                key, rest = d.split(":", 1)
                return False, "%s: estimator %d of %d live ones:%s" % (key, i, len(c["ests"]), rest)
        return True, ""
    return _pred_landscaper(c, o) if c["kind"] == "landscaper" else _pred_imager(c, o)


def nontrivial(c, o):
    if "calls" not in o:
        return False
    if c["kind"] == "multi":
        subs = _sub_cases(c)
        fitted = [sc for sc in subs if any(op["op"] != "transform" for op in sc["ops"])]
        key = "X" if c["what"] == "landscaper" else "dgms"
        return len(fitted) >= 2 and len({core.sha(op[key]) for op in c["ops"] if op["op"] != "transform"}) >= 2
    if c["kind"] == "landscaper":
        if c["start"] is not None and c["stop"] is not None:
            return False
        fits = [core.sha(op["X"]) for op in c["ops"]
                if op["op"] in ("fit", "fit_transform") and _lfit_expect(c, op["X"])[0] == "ok"]
    else:
        fits = [core.sha(op["dgms"]) for op in c["ops"] if op["op"] != "transform" and not op.get("fault")]
    return len(set(fits)) >= 2


# ------------------------------------------------------------------------------------ the models, in Coq
HEADER = """From Coq Require Import ZArith QArith List Bool PrimFloat.
From Persim Require Import Model.ImagerM Model.TransformerM Corr.ImagerCorr Corr.TransformerCorr.
Import ListNotations.
Open Scope Z_scope.
"""


def _oq(v):
    return "None" if v is None else "(Some %s)" % core.coq_Q(float(v))


def _lterm(c, o):
    ops, snaps = [], []
    ctor = {"fit": "LFit", "transform": "LTransform", "fit_transform": "LFitTransform"}
    for op, rec in zip(c["ops"], o["calls"]):
        if op["op"] == "clone":
            a = rec["attrs"]
            ops.append("LClone")
            snaps.append("mkLS %s %s %s %s 0" % (_oq(a["start"]), _oq(a["stop"]), _oq(a["pstart"]), _oq(a["pstop"])))
            continue
        X = core.coq_list([core.coq_list(["(%s, %s)" % (core.coq_Q(float(b)), core.coq_Q(float(e))) for b, e in d])
                           for d in op["X"]])
        ops.append("%s %s" % (ctor[op["op"]], X))
        a = rec["attrs"]
        err = {None: 0, "IndexError": 1, "ValueError": 2}.get(rec.get("error"), 9)
        snaps.append("mkLS %s %s %s %s %d" % (_oq(a["start"]), _oq(a["stop"]), _oq(a["pstart"]), _oq(a["pstop"]), err))
    return "check_lhistory %d%%nat %s %s %d %s %s %s" % (
        c["hom"], _oq(c["start"]), _oq(c["stop"]), c["num_steps"], "true" if c["flatten"] else "false",
        core.coq_list(ops, sep=";\n  "), core.coq_list(snaps, sep=";\n  "))


def _iterm(c, o):
    from .c12 import fl, _coq_dgm, _coq_snap
    ct = c["ctor"]
    ctor = {"fit": "IFit", "transform": "ITransform", "fit_transform": "IFitTransform"}
    ops = []
    snaps = [_coq_snap(dict(o["calls"][0]["snap"], land=None))]
    for op, rec in zip(c["ops"], o["calls"][1:]):
        if op.get("fault") and "error" in rec:
            continue                    # a fit that raised is no step of the model: the next snapshot must not show it
        ds = [_coq_dgm(d) for d in op["dgms"]]
        ops.append("@%s FNum (%s, %s) %s" % (ctor[op["op"]], ds[0], core.coq_list(ds[1:]), "true" if op["skew"] else "false"))
        snaps.append(_coq_snap(dict(rec["snap"], land=None)))
    return "check_ihistory %s %s %s %s %s %s %s" % (
        fl(ct["br"][0]), fl(ct["br"][1]), fl(ct["pr"][0]), fl(ct["pr"][1]), fl(ct["ps"]),
        core.coq_list(ops, sep=";\n  "), core.coq_list(snaps, sep=";\n  "))


LFIELDS = {1: "start", 2: "stop", 3: "get_params start", 4: "get_params stop", 5: "raised exception", 99: "history length"}


def coq_jobs(cases, outs):
    return []


def _one_verdict(kind, tok):
    from .c12 import FIELDS as IFIELDS
    try:
        code = int(tok.replace("%Z", "").strip("() "))
    except ValueError:
        return "disagree:model run failed (%s)" % tok[:40]
    if kind == "imager":
        return "agree" if code == 0 else "disagree:imager float model differs at call %d field %s" % (
            code // 100 - 2, IFIELDS.get(code % 100, code % 100))
    intended, legacy = code % 100000, code // 100000
    if intended == 0:
        return "agree"
    if legacy == 0:
        return "legacy:C18-landscaper-refit-keeps-grid"
    return "disagree:landscaper model differs at call %d field %s (legacy model: call %d field %s)" % (
        intended // 100 - 1, LFIELDS.get(intended % 100), legacy // 100 - 1, LFIELDS.get(legacy % 100))


def coq_judge(cases, outs, results):
    verdicts = ["disagree:implementation runner raised"] * len(cases)
    owner, kinds, terms = [], [], []
    for i, (c, o) in enumerate(zip(cases, outs)):
        if "calls" not in o:
            continue
        if c["kind"] == "imager" and c.get("dtype"):
            # fit / the range setters then compute in the dtype of the data, the Coq imager model is binary64 only
            verdicts[i] = "skip:diagram dtype %s is outside the binary64 imager model (judged by the predicate)" % c["dtype"]
            continue
        pairs = list(zip(_sub_cases(c), o["per"])) if c["kind"] == "multi" else [(c, o)]
        if any(sc["kind"] == "imager" and any("snap" not in r for r in so["calls"]) for sc, so in pairs):
            continue
        if any(sc["kind"] == "imager" and any(op.get("fault") and "error" not in r
                                              for op, r in zip(sc["ops"], so["calls"][1:])) for sc, so in pairs):
            verdicts[i] = "disagree:imager model: fit on a collection with an empty diagram raises, the implementation did not"
            continue
        for sc, so in pairs:
            owner.append(i)
            kinds.append(sc["kind"])
            terms.append(_lterm(sc, so) if sc["kind"] == "landscaper" else _iterm(sc, so))
    toks, _ = core.eval_cases(PID, HEADER, terms, chunk=max(1, (len(terms) + core.NPROC - 1) // core.NPROC))
    per_case = {}
    for i, k, t in zip(owner, kinds, toks):
        per_case.setdefault(i, []).append(_one_verdict(k, t))
    for i, vs in per_case.items():
        bad = [v for v in vs if v.startswith("disagree")]
        leg = [v for v in vs if v.startswith("legacy")]
        verdicts[i] = bad[0] if bad else leg[0] if leg else "agree"
    return verdicts


def finding_of(case, out, detail):
    # the refit defect is repaired in /repo (fixed entry): nothing is attributed to an open finding
    return None


def shrink_candidates(c):
    n = len(c["ops"])
    if c.get("dtype"):
        d = {k: v for k, v in c.items() if k != "dtype"}      # the same values as float64 arrays
        yield d
        if c["dtype"] == "mixed":
            for dt in ("float32", "float16"):
                yield dict(c, dtype=dt)
    for k in range(n - 1, -1, -1):
        d = dict(c); d["ops"] = c["ops"][:k] + c["ops"][k + 1:]
        yield d
    if c["kind"] == "imager" and "kw" in c["ctor"]:
        d = dict(c); d["ctor"] = {k: v for k, v in c["ctor"].items() if k != "kw"}
        yield d
        for part in (("kernel", "kernel_fn", "kernel_params", "sigma_np"), ("weight", "weight_fn", "weight_params")):
            if any(k in c["ctor"]["kw"] for k in part):
                d = dict(c); d["ctor"] = dict(c["ctor"], kw={k: v for k, v in c["ctor"]["kw"].items() if k not in part})
                yield d
    key = "X" if c.get("what", c["kind"]) == "landscaper" else "dgms"
    for k, o in enumerate(c["ops"]):
        if "same" in o or o.get("fault"):
            continue                    # aliased positions must keep equal values
        for i, dg in enumerate(o[key]):
            if len(dg) > 1:
                for j in range(len(dg)):
                    d = dict(c); d["ops"] = list(c["ops"])
                    nd = [list(x) for x in o[key]]; nd[i] = dg[:j] + dg[j + 1:]
                    d["ops"][k] = dict(o, **{key: nd})
                    yield d
