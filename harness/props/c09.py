"""C09 - landscape arithmetic is pointwise and leaves operands untouched.

Model: coq/Model/LandArithM.v (over Q); runner coq/Corr/LandArithCorr.v.  A case is a HISTORY:
2-4 leaf landscapes (from diagrams or from explicit critical pairs / values), then 6-12 operations
that reuse earlier objects.  The implementation executes the history; after every step the result
and a byte-level fingerprint of EVERY live object are recorded.  Coq runs the model over the whole
history from the leaves (vm_compute) and compares every step; the predicate below evaluates the
property itself (pointwise evaluation with Fractions, fingerprints unchanged) independently of
the model."""
import hashlib
from fractions import Fraction

from .. import core

PID = "C09"
THEOREMS = [
    "add_pointwise", "add_missing_depth_is_zero", "neg_pointwise", "scale_pointwise", "div_pointwise",
    "div_by_zero_rejected", "sub_pointwise", "add_degree_mismatch_rejected", "expr_pointwise",
    "add_legacy_refuted", "add_first_ordinate_pointwise_partial", "add_variants_agree_on_wf",
    "add_first_ordinate_pointwise", "add_pointwise_iff_ends_compatible", "ends_compatible_decidable",
    "add_first_ordinate_total", "add_ends_incompatible_refuted",   # Proofs/LandArithEndsP.v: exact boundary of the Fixed sum
    "approx_add_pointwise", "approx_add_mismatch_rejected", "approx_neg_scale_div_pointwise",
    "approx_sub_pointwise", "snap_is_interp", "resample_is_linear_interpolation", "snap_defaults_are_min_max",
    "snap_succeeds", "lc_is_combination", "average_is_mean",
    "sweep_output_wf", "exact_landscape_output_wf", "arith_on_diagram_landscapes", "diagram_environment_exists",  # cross-property glue (Proofs/LandscapeGlue*.v, LandscapeStabP.v), "add_empty_depth_is_error",
]
RULE = ("seeded random histories: 2-4 leaves (exact family: PersLandscapeExact from diagrams and from explicit "
        "well-formed critical pairs with coincident abscissae between operands, different depth counts, sign "
        "changes, shared-support lists with non-zero end ordinates; approximate family: PersLandscapeApprox from "
        "diagrams and from explicit values= arrays of dtype int64 / float64 on equal and unequal grids, with different depth "
        "counts in all four dtype combinations and fractional values on the float side; exact landscapes also from "
        "critical_pairs given as Python ints vs floats; landscapes built with compute=False whose first use is an "
        "operation, in both operand positions, against operands of other depth counts; NEAR-TIES: exact landscapes whose "
        "breakpoints would coincide between operands are moved apart by a per-leaf shift of 2^-8..2^-24 (exact family) / "
        "1e-9..6e-6 relative (tolerance family), at common offsets 0, +-2^10, 2^12 / 1e3..1e5 and, in the exact family, scales "
        "2^10 .. 2^-50 (all still dyadic with < 53 bits, compared exactly); NEAR-EQUAL GRIDS: grid landscapes whose start / "
        "stop differ by 1 ulp .. 1e-7 relative, which must still be rejected as mismatched; tiny magnitudes: float values= "
        "scaled by 2^-30 / 2^-40; SIZES: exact landscapes with 33..130 (thorough: ..520) breakpoints per depth and grids of "
        "17..129 / 33..130 (thorough: ..1025) nodes, in short histories of 3-5 operations), then 6-12 operations (+, -, neg, c*, *c, "
        "/c; approximate also snap_pl, lc_approx, average_approx; plus degree / grid mismatches and division by "
        "0) reusing operands.  dyadic inputs are compared exactly, random doubles within 1e-9.  A history is "
        "non-trivial when a binary operation on two different operands, a re-sampling onto a different grid or "
        "an error step occurs; distinct = distinct JSON input")
TRUSTED_BASE = [
    "Coq 8.16.1 kernel and vm_compute (no native_compute)",
    "hand-written model Model/LandArithM.v of auxiliary.py 9-131, exact.py 137-213, approximate.py 252-333, "
    "tools.py 43-163; runner Corr/LandArithCorr.v (stores coordinates in lowest terms between steps)",
    "harness: history generator, float->exact-rational printer, exception->error-enum mapping, fingerprints",
]
ASSUMPTIONS = [
    "numpy semantics of np.pad, np.linspace, np.interp (constant extension outside the source grid), "
    "element-wise + and * and np.sum over an object array (left-to-right __add__) are as modelled",
    "outside the exact (dyadic) family binary64 rounding is bounded by the 1e-9 tolerance, not proved",
    "a critical-pair list is read as the function that interpolates its points and is 0 outside them; sums in "
    "which a non-zero end ordinate of one operand falls strictly inside the support of the other have a jump and "
    "no critical-pair representation: they are outside the domain and are not generated",
    "snap_pl outside the source grid: the property text does not fix the value; model and predicate use np.interp's "
    "constant extension (equal to 0 for landscapes built from diagrams on their default grid)",
    "lc_approx with a single coefficient for several landscapes (numpy broadcasting) is not modelled",
    "class exact/tol/long (30+ random-double breakpoints per depth): the Coq model is NOT run (its unreduced rational "
    "quotients exceed any time-out; verdict skip); the spec predicate is evaluated on them and the model runs on the "
    "exact/exact/long histories of the same sizes up to 140 breakpoints per depth (thorough-tier lists of 260 / 520 breakpoints are judged by the spec predicate only: three vm_compute files ran past 900 s each)",
    "leaves are taken as the critical_pairs / values the constructor produced (their correctness is C03 / C08)",
]
TOL = Fraction(1, 10 ** 9)
COQ_DEPS = ["Corr/LandArithCorr.vo"]
FINDING = "C09-nonzero-first-ordinate"
# The element-wise operators of PersLandscapeApprox do not call compute_landscape(): on the unchanged tree a grid
# landscape built with compute=False raises ValueError when + - neg * / is its first use (see
# fixes/C09_lazy_approx_operators.patch).  Enable with C09_LAZY_GRID_ELEMENTWISE=1 (or make it the default) once that patch is in /repo.
import os as _os
LAZY_GRID_ELEMENTWISE = _os.environ.get("C09_LAZY_GRID_ELEMENTWISE", "1") == "1"   # default on since the fix 43ec130


# =====================================================================================  generators
def _pow2_gaps(rng, total=None, n=None):
    if total is None:
        return [rng.choice([0.25, 0.5, 0.5, 1.0, 1.0, 2.0]) for _ in range(n)]
    gaps, rem = [], total
    while rem > 0:
        g = rng.choice([g for g in (0.5, 1.0, 2.0) if g <= rem])
        gaps.append(g)
        rem -= g
    return gaps


def _cp_depth(rng, mode, x0=None, total=None, ends=(0.0, 0.0), n=None):
    n = rng.randint(1, 5) if n is None else n
    if mode == "exact":
        if x0 is None:
            x0 = rng.randint(-6, 6) / 2
        gaps = _pow2_gaps(rng, total=total, n=n)
        ys = [rng.randint(-12, 12) / 4 for _ in gaps]
    else:
        if x0 is None:
            x0 = rng.uniform(-3, 3)
        if total is None:
            gaps = [rng.uniform(0.05, 2.0) for _ in range(n)]
        else:
            cuts = sorted(rng.uniform(0.1, total - 0.1) for _ in range(n - 1))
            cuts = [c for i, c in enumerate(cuts) if i == 0 or c - cuts[i - 1] > 0.05]
            pts = [0.0] + cuts + [total]
            gaps = [b - a for a, b in zip(pts, pts[1:])]
        ys = [rng.uniform(-3, 3) for _ in gaps]
    xs = [x0]
    for g in gaps:
        xs.append(xs[-1] + g)
    if total is not None:
        xs[-1] = x0 + total
    ys = [ends[0]] + ys[:-1] + [ends[1]]
    return [[float(x), float(y)] for x, y in zip(xs, ys)]


def _bars(rng, mode):
    n = rng.randint(1, 5)
    out = []
    for _ in range(n):
        if mode == "exact":
            b = rng.randint(-4, 8) / 2
            ln = rng.randint(1, 8) / 2
        else:
            b = rng.uniform(-2, 4)
            ln = rng.uniform(0.1, 4)
        out.append([float(b), float(b + ln)])
    if rng.random() < 0.25:
        out.append(list(rng.choice(out)))
    return out


def _nested_bars(rng, mode, k):
    if mode == "exact":
        b0, w, h = rng.randint(-4, 2) / 2, rng.randint(1, 3) / 2, rng.randint(1, 4) / 2
    else:
        b0, w, h = rng.uniform(-2, 1), rng.uniform(0.2, 1.5), rng.uniform(0.2, 2)
    bars = [[float(b0 + i * w), float(b0 + (2 * k - 1 - i) * w + h)] for i in range(k)]
    rng.shuffle(bars)
    return bars


# ---- near-ties, offsets, scales (class "nearties") ------------------------------------------------------
# Leaves are first drawn in unit coordinates so that breakpoints of DIFFERENT leaves coincide (exact mode: the
# half-integer grid of the wf class; tol mode: a common pool of abscissae), then every leaf is moved by its own
# tiny shift delta_j and all leaves by a common offset / scale:  x -> s*(off + x + delta_j),  y -> s*y.
# Coincident breakpoints become NEAR-ties (relative gaps 1e-3 .. 1e-10), at offsets up to 1e5 and scales down to
# 2^-30.  In exact mode everything stays dyadic with < 53 significant bits (off <= 2^12, delta >= 2^-24,
# s a power of two), so the comparison remains exact and any fusing / snapping of close abscissae shows.
def _near_pool(rng):
    pool = []
    while len(pool) < rng.randint(6, 10):
        x = rng.uniform(-3, 5)
        if all(abs(x - p) > 0.1 for p in pool):
            pool.append(x)
    return sorted(pool)


def _near_leaf(rng, mode, pool):
    if mode == "exact":
        if rng.random() < 0.4:
            return {"kind": "dgm", "dgm": _bars(rng, mode), "hom_deg": 0}
        x0 = rng.choice([None, 0.0, 1.0])
        return {"kind": "cp", "cp": [_cp_depth(rng, mode, x0=x0) for _ in range(rng.randint(1, 3))], "hom_deg": 0}
    if rng.random() < 0.4:
        bars = []
        for _ in range(rng.randint(1, 4)):
            b, d = sorted(rng.sample(pool, 2))
            bars.append([b, d])
        return {"kind": "dgm", "dgm": bars, "hom_deg": 0}
    cp = []
    for _ in range(rng.randint(1, 3)):
        xs = sorted(rng.sample(pool, rng.randint(2, min(6, len(pool)))))
        ys = [0.0] + [rng.uniform(-3, 3) for _ in xs[2:]] + [0.0]
        cp.append([[x, y] for x, y in zip(xs, ys)])
    return {"kind": "cp", "cp": cp, "hom_deg": 0}


def _near_map(rng, mode, leaves):
    if mode == "exact":
        off = rng.choice([0.0, 0.0, 1024.0, 4096.0, -1024.0])
        s = rng.choice([1.0, 1.0, 2.0 ** -10, 2.0 ** -27, 2.0 ** -30, 2.0 ** -40, 2.0 ** -50, 2.0 ** 10])
        deltas = [0.0] + [rng.choice([-1, 1]) * 2.0 ** -rng.choice([8, 12, 16, 17, 20, 24]) for _ in leaves[1:]]
    else:
        off = rng.choice([0.0, 1e3, 1e4, 1e5, -1e3, 12345.678])
        s = 1.0
        deltas = [0.0] + [rng.choice([-1, 1]) * 10 ** rng.uniform(-9, -5.2) * max(1.0, abs(off)) for _ in leaves[1:]]
    rng.shuffle(deltas)
    for l, dl in zip(leaves, deltas):
        f = lambda x: float(s * (off + x + dl))
        if l["kind"] == "dgm":
            l["dgm"] = [[f(b), f(d)] for b, d in l["dgm"]]
        else:
            l["cp"] = [[[f(x), float(s * y)] for x, y in d] for d in l["cp"]]
            for d in l["cp"]:
                assert all(p[0] < q[0] for p, q in zip(d, d[1:]))
        l["near"] = [off, s, dl]


def _scalar(rng, mode, div=False):
    if mode == "exact":
        if div:
            return rng.choice([2.0, -2.0, 4.0, 0.5, -1.0, -0.5, 1.0])
        return rng.choice([2.0, -1.0, 0.5, -0.5, -2.0, 0.25, 4.0, 0.0, 1.0, 3.0, -1.5])
    return rng.choice([rng.uniform(-3, 3), 3.0, 0.7, -1.0 / 3, 1e-3, 7.0, 0.1])


def _pick(rng, pool):
    # favour recent objects, but every live object can be reused
    if rng.random() < 0.4:
        return pool[-1 - min(int(rng.expovariate(1.0)), len(pool) - 1)]
    return rng.choice(pool)


LONG_SIZES = ([33, 49, 50, 65, 70, 130], [49, 65, 70, 130, 260, 520])   # breakpoints per depth: quick, thorough


def _gen_exact(rng, mode, cls, big=False):
    leaves, live = [], []          # live: (index, deg)
    nl = rng.randint(2, 4)
    shared = None
    int_depths = rng.sample([1, 2, 3, 4], 4)
    if cls == "ends_nonzero":
        shared = (rng.randint(-4, 4) / 2 if mode == "exact" else rng.uniform(-2, 2), 4.0)
    pool = _near_pool(rng) if cls == "nearties" else None
    for _ in range(nl):
        if cls == "nearties":
            leaves.append(_near_leaf(rng, mode, pool))
        elif cls == "long":
            # one or two depths with many breakpoints (just above typical block sizes)
            ns = [rng.choice(LONG_SIZES[1] if big else LONG_SIZES[0]) for _ in range(rng.randint(1, 2))]
            leaves.append({"kind": "cp", "cp": [_cp_depth(rng, mode, x0=rng.choice([None, 0.0, 1.0]), n=k) for k in ns],
                           "hom_deg": 0})
        elif cls == "ends_nonzero":
            nd = rng.randint(1, 3)
            cp = []
            for _ in range(nd):
                if mode == "exact":
                    e = (rng.choice([1.0, -0.5, 2.0, 0.25]), rng.choice([0.0, 1.0, -1.5]))
                else:
                    e = (rng.uniform(-2, 2), rng.choice([0.0, rng.uniform(-2, 2)]))
                cp.append(_cp_depth(rng, mode, x0=shared[0], total=shared[1], ends=e))
            leaves.append({"kind": "cp", "cp": cp, "hom_deg": 0})
        elif cls == "lazy" and (len(leaves) == 0 or rng.random() < 0.4):
            # built with compute=False from a diagram of k nested bars (k depths); its first use is arithmetic
            leaves.append({"kind": "dgm", "dgm": _nested_bars(rng, mode, rng.randint(2, 4)), "hom_deg": 0, "lazy": True})
        elif cls == "lazy" and (len(leaves) == 1 or rng.random() < 0.6):
            leaves.append({"kind": "cp", "cp": [_cp_depth(rng, mode, x0=rng.choice([None, 0.0, 1.0]))
                                                for _ in range(rng.randint(1, 2))], "hom_deg": 0})
        elif cls == "ints" and (len(leaves) == 0 or rng.random() < 0.5):
            # critical_pairs given as Python ints (integer abscissae with gaps 1, 2, 4, integer ordinates)
            cp = []
            for _ in range(int_depths.pop()):
                xs = [rng.randint(-3, 3)]
                for _ in range(rng.randint(1, 5)):
                    xs.append(xs[-1] + rng.choice([1, 1, 2, 4]))
                ys = [0] + [rng.randint(-4, 4) for _ in xs[2:]] + [0]
                cp.append([[float(x), float(y)] for x, y in zip(xs, ys)])
            leaves.append({"kind": "cp", "cp": cp, "hom_deg": 0, "ints": True})
        elif cls == "ints":
            leaves.append({"kind": "cp", "cp": [_cp_depth(rng, mode, x0=rng.choice([None, 0.0, 1.0]))
                                                for _ in range(int_depths.pop())], "hom_deg": 0, "ints": False})
        elif rng.random() < 0.45:
            leaves.append({"kind": "dgm", "dgm": _bars(rng, mode), "hom_deg": 0})
        else:
            nd = rng.randint(1, 3)
            x0 = rng.choice([None, 0.0, 1.0])
            leaves.append({"kind": "cp", "cp": [_cp_depth(rng, mode, x0=x0) for _ in range(nd)], "hom_deg": 0,
                           "ints": rng.random() < 0.2})
    if cls == "errors":
        leaves.append({"kind": "cp", "cp": [_cp_depth(rng, mode)], "hom_deg": 1})
    if cls == "nearties":
        _near_map(rng, mode, leaves)
    for i, l in enumerate(leaves):
        live.append((i, l["hom_deg"]))
    steps = []
    nsteps = rng.randint(6, 12) if cls != "long" else rng.randint(3, 5)
    nobj = len(leaves)
    if cls == "lazy":
        # every lazy leaf enters + / - as its first use, in either operand position
        lz = [i for i, l in enumerate(leaves) if l.get("lazy")]
        eager = [i for i, l in enumerate(leaves) if not l.get("lazy")]
        for j in lz:
            p = rng.choice(eager) if eager and rng.random() < 0.8 else rng.randrange(len(leaves))
            a, b = (j, p) if rng.random() < 0.5 else (p, j)
            steps.append({"op": rng.choice(["add", "sub"]), "a": a, "b": b, "nout": 1})
            live.append((nobj, 0))
            nobj += 1
    for _ in range(nsteps - len(steps)):
        r = rng.random()
        d0 = [i for i, d in live if d == 0]
        d1 = [i for i, d in live if d == 1]
        if cls == "errors" and r < 0.2 and d1:
            a, b = rng.choice(d0), rng.choice(d1)
            if rng.random() < 0.5:
                a, b = b, a
            steps.append({"op": rng.choice(["add", "sub"]), "a": a, "b": b, "nout": 1})
            nobj += 1
            continue
        if cls == "errors" and r < 0.35:
            steps.append({"op": "div", "a": _pick(rng, d0), "c": rng.choice([0.0, 0, -0.0]), "nout": 1})
            nobj += 1
            continue
        op = rng.choice(["add", "add", "add", "sub", "sub", "neg", "mul", "mul", "rmul", "div"])
        a = _pick(rng, d0)
        st = {"op": op, "a": a, "nout": 1}
        if op in ("add", "sub"):
            st["b"] = a if rng.random() < 0.2 else _pick(rng, d0)
        elif op in ("mul", "rmul"):
            st["c"] = _scalar(rng, mode)
        elif op == "div":
            st["c"] = _scalar(rng, mode, div=True)
        steps.append(st)
        live.append((nobj, 0))
        nobj += 1
    return {"cls": "exact/%s/%s" % (mode, cls), "fam": "exact", "mode": mode, "leaves": leaves, "steps": steps}


def _is_pow2(x):
    import math
    return x > 0 and math.frexp(x)[0] == 0.5


BIG_GRIDS = {"exact": ([17, 33, 65, 129], [65, 129, 257, 513, 1025]),     # 2^k+1 nodes: the step stays a power of two
             "tol": ([33, 49, 50, 65, 130], [65, 130, 260, 513, 1030])}


def _near_grid(rng, mode, g):
    """a grid that differs from g by a tiny amount in start, stop or both (still a DIFFERENT grid)"""
    import math

    def nudge(x):
        k = rng.choice([0, 1, 2, 3])
        if k == 0:
            return math.nextafter(x, math.inf if rng.random() < 0.5 else -math.inf)
        if mode == "exact":
            return x + rng.choice([-1, 1]) * 2.0 ** -[0, 40, 30, 20][k]
        return x + rng.choice([-1, 1]) * max(1.0, abs(x)) * [0, 1e-13, 1e-10, 1e-7][k]
    w = rng.choice(["start", "stop", "both"])
    g1 = (nudge(g[0]) if w != "stop" else g[0], nudge(g[1]) if w != "start" else g[1], g[2])
    assert g1 != g and g1[0] < g1[1]
    return g1


def _grid(rng, mode, big=None):
    n = rng.choice([2, 3, 5, 5, 9])
    if big is not None:
        n = rng.choice(BIG_GRIDS[mode][1 if big else 0])
        if mode == "exact":
            start, h = rng.randint(-4, 4) / 2, rng.choice([0.25, 0.5, 1.0])
            return (float(start), float(start + (n - 1) * h), n)
        start = rng.uniform(-2, 2)
        return (start, start + rng.uniform(0.5, 6), n)
    if mode == "exact":
        start = rng.randint(-4, 4) / 2
        h = rng.choice([0.25, 0.5, 1.0])
        return (float(start), float(start + (n - 1) * h), n)
    n = rng.choice([2, 3, 4, 6, 7, 10])
    start = rng.uniform(-2, 2)
    return (start, start + rng.uniform(0.5, 6), n)


def _vals(rng, mode, n, zero_ends, nd=None, integer=False, fractional=False):
    nd = rng.randint(1, 3) if nd is None else nd
    rows = []
    for _ in range(nd):
        if integer:
            row = [rng.randint(-4, 4) for _ in range(n)]
        elif mode == "exact":
            # fractional: odd multiples of 1/4, so that a cast to an integer dtype would change every value
            row = [(2 * rng.randint(-8, 7) + 1) / 4 if fractional else rng.randint(-8, 8) / 4 for _ in range(n)]
        else:
            row = [rng.uniform(-3, 3) for _ in range(n)]
        if zero_ends:
            row[0] = 0.0
            row[-1] = 0.0
        rows.append([float(v) for v in row])
    return rows


def _gen_approx(rng, mode, cls, big=False):
    leaves, objs = [], []          # objs: (start, stop, n, deg) or None for a failed slot
    nl = rng.randint(2, 4)
    g0 = _grid(rng, mode, big=big if cls == "biggrid" else None)
    depth_counts = rng.sample([1, 2, 3, 4], 4)
    for li in range(nl):
        g = g0 if (cls in ("samegrid", "dtypes") or rng.random() < 0.5) else _grid(rng, mode)
        if cls == "neargrid":
            # the same grid or one that differs from it by a few ulps .. 1e-7 relative (must still be rejected)
            g = g0 if (li == 0 or rng.random() < 0.4) else _near_grid(rng, mode, g0)
        deg = 1 if (cls == "errors" and rng.random() < 0.25) else 0
        if cls == "lazy":
            while g[2] < (3 if mode == "exact" else 4):
                g = _grid(rng, mode)
        if cls == "dtypes":
            # explicit values= arrays of dtype int64 / float64, pairwise different depth counts,
            # fractional values on the float side
            dt = rng.choice(["int64", "float64"]) if li else rng.choice(["int64", "int64", "float64"])
            if li == 1:
                dt = "float64" if leaves[0]["dtype"] == "int64" or rng.random() < 0.5 else "int64"
            leaves.append({"kind": "vals", "dtype": dt, "start": g[0], "stop": g[1], "num_steps": g[2], "hom_deg": 0,
                           "values": _vals(rng, mode, g[2], False, nd=depth_counts[li], integer=(dt == "int64"),
                                           fractional=True)})
        elif (cls == "lazy" or rng.random() < 0.35) and cls != "neargrid" and g[2] >= (3 if mode == "exact" else 4):
            # bars inside the grid so that values is not the 'empty' array (that case is C08's)
            if mode == "exact":
                h = (g[1] - g[0]) / (g[2] - 1)
                bars = []
                for _ in range(rng.randint(1, 3)):
                    i = rng.randint(0, g[2] - 3)
                    j = rng.randint(i + 2, g[2] - 1)
                    bars.append([g[0] + i * h, g[0] + j * h])
            else:
                bars = []
                for _ in range(rng.randint(1, 3)):
                    b = rng.uniform(g[0], g[0] + 0.1 * (g[1] - g[0]))
                    bars.append([b, rng.uniform(g[0] + 0.9 * (g[1] - g[0]), g[1])])
            leaves.append({"kind": "dgm", "dgm": bars, "start": g[0], "stop": g[1], "num_steps": g[2], "hom_deg": deg})
            if cls == "lazy" and (li == 0 or rng.random() < 0.5):
                leaves[-1]["lazy"] = True        # compute=False; first use is in the forced steps below
        else:
            dt = "int64" if rng.random() < 0.2 else "float64"
            leaves.append({"kind": "vals", "dtype": dt,
                           "values": _vals(rng, mode, g[2], rng.random() < 0.5, integer=(dt == "int64")),
                           "start": g[0], "stop": g[1], "num_steps": g[2], "hom_deg": deg})
        objs.append((g[0], g[1], g[2], deg))
    if mode == "exact" and cls in ("samegrid", "mixed", "biggrid") and rng.random() < 0.35:
        # tiny magnitudes: explicit float values scaled by a power of two (still exact); catches clean-ups that
        # treat |v| below some epsilon as 0
        sc = 2.0 ** -rng.choice([30, 40])
        for l in leaves:
            if l["kind"] == "vals" and l.get("dtype") != "int64":
                l["values"] = [[v * sc for v in row] for row in l["values"]]
                l["vscale"] = sc
    steps = []
    nsteps = rng.randint(6, 12) if cls != "biggrid" else rng.randint(3, 5)

    def liveidx():
        return [i for i, o in enumerate(objs) if o is not None]

    forced = []
    if cls == "lazy":
        first = ["snap", "lc", "avg"] + (["add", "sub", "neg", "mul", "div"] if LAZY_GRID_ELEMENTWISE else [])
        forced = [(rng.choice(first), j) for j, l in enumerate(leaves) if l.get("lazy")]
    if cls == "dtypes":
        pairs = [(i, j) for i in range(nl) for j in range(nl) if i != j]
        rng.shuffle(pairs)
        for i, j in pairs[:rng.randint(2, 4)]:
            steps.append({"op": rng.choice(["add", "sub"]), "a": i, "b": j, "nout": 1})
            objs.append(objs[i])
    for _ in range(nsteps - len(steps)):
        live = liveidx()
        r = rng.random()
        if cls in ("errors", "neargrid") and r < 0.3:
            a = _pick(rng, live)
            others = [i for i in live if objs[i] != objs[a]]
            if others:
                steps.append({"op": rng.choice(["add", "sub"]), "a": a, "b": rng.choice(others), "nout": 1})
                objs.append(None)
                continue
        if cls == "errors" and r < 0.4:
            steps.append({"op": "div", "a": _pick(rng, live), "c": 0.0, "nout": 1})
            objs.append(None)
            continue
        ops = ["add", "add", "sub", "neg", "mul", "rmul", "div"]
        if cls not in ("samegrid", "dtypes", "neargrid"):
            ops += ["snap", "snap", "lc", "lc", "avg"]
        op = rng.choice(ops)
        a = _pick(rng, live)
        if forced:
            op, a = forced.pop(0)
        st = {"op": op, "a": a, "nout": 1}
        if op in ("add", "sub"):
            same = [i for i in live if objs[i] == objs[a]]
            st["b"] = rng.choice(same)
            objs.append(objs[a])
        elif op == "neg":
            objs.append(objs[a])
        elif op in ("mul", "rmul"):
            st["c"] = _scalar(rng, mode)
            objs.append(objs[a])
        elif op == "div":
            st["c"] = _scalar(rng, mode, div=True)
            objs.append(objs[a])
        else:
            deg0 = objs[a][3]
            cand = [i for i in live if objs[i][3] == deg0]
            k = rng.choice([1, 2, 2, 3, 4]) if op != "avg" or mode != "exact" else rng.choice([1, 2, 2, 4])
            args = [a] + [rng.choice(cand) for _ in range(k - 1)]
            rng.shuffle(args)
            st = {"op": op, "args": args, "start": None, "stop": None, "num_steps": None}
            if rng.random() < 0.35:
                g = _grid(rng, mode)
                if rng.random() < 0.7:
                    st["start"] = g[0]
                if rng.random() < 0.7:
                    st["stop"] = g[1] if st["start"] is not None else None
                if rng.random() < 0.7:
                    st["num_steps"] = g[2]
            s0 = st["start"] if st["start"] is not None else min(objs[i][0] for i in args)
            s1 = st["stop"] if st["stop"] is not None else max(objs[i][1] for i in args)
            nn = st["num_steps"] if st["num_steps"] is not None else max(objs[i][2] for i in args)
            if not s0 < s1:      # keep the target grid non-degenerate
                st["start"], st["stop"] = None, None
                s0 = min(objs[i][0] for i in args)
                s1 = max(objs[i][1] for i in args)
            if mode == "exact" and not _is_pow2((s1 - s0) / (nn - 1)):
                # exact family: every grid step is a power of two, so that np.interp divides exactly
                g = _grid(rng, mode)
                st["start"], st["stop"], st["num_steps"] = g
                s0, s1, nn = g
            if op == "snap":
                st["nout"] = len(args)
                for i in args:
                    objs.append((s0, s1, nn, objs[i][3]))
            else:
                st["nout"] = 1
                if op == "lc":
                    st["coeffs"] = [_scalar(rng, mode) for _ in args]
                objs.append((s0, s1, nn, deg0))
        steps.append(st)
    return {"cls": "approx/%s/%s" % (mode, cls), "fam": "approx", "mode": mode, "leaves": leaves, "steps": steps}


def generate(rng, tier):
    n = 64 if tier == "quick" else 1280
    big = tier != "quick"
    plan = ([("exact", "exact", "wf")] * 4 + [("exact", "tol", "wf")] * 2 + [("exact", "exact", "errors")]
            + [("exact", "exact", "ends_nonzero")] + [("exact", "tol", "ends_nonzero")]
            + [("approx", "exact", "samegrid")] * 2 + [("approx", "exact", "mixed")] * 3
            + [("approx", "tol", "mixed")] * 2 + [("approx", "exact", "errors")] + [("approx", "tol", "errors")]
            + [("approx", "exact", "dtypes")] * 2 + [("approx", "tol", "dtypes")]
            + [("exact", "exact", "ints")] + [("exact", "tol", "ints")]
            + [("exact", "exact", "lazy")] * 2 + [("exact", "tol", "lazy")] + [("approx", "exact", "lazy")]
            + [("exact", "exact", "nearties")] * 2 + [("exact", "tol", "nearties")]
            + [("approx", "exact", "neargrid")] + [("approx", "tol", "neargrid")])
    # size classes: few and short histories (they are the expensive ones)
    sizes = [("exact", "exact", "long"), ("approx", "exact", "biggrid"), ("exact", "tol", "long"), ("approx", "tol", "biggrid")]
    cases = []
    for i in range(n * 27 // 8):
        fam, mode, cls = plan[i % len(plan)]
        if i % 36 == 35:
            fam, mode, cls = sizes[(i // 36) % len(sizes)]
        cases.append(_gen_exact(rng, mode, cls, big) if fam == "exact" else _gen_approx(rng, mode, cls, big))
    return cases


def search_generate(rng, n):
    out = []
    while len(out) < n:
        out += generate(rng, "quick")
    return out[:n]


def corpus():
    import json
    E = lambda cp, deg=0: {"kind": "cp", "cp": cp, "hom_deg": deg}
    stored = []
    for p in sorted((core.VERIF / "corpus" / PID).glob("*.json")):
        c = json.loads(p.read_text())
        c.pop("note", None)
        stored.append(c)
    V = lambda vals, dt: {"kind": "vals", "dtype": dt, "values": vals, "start": 0.0, "stop": 4.0, "num_steps": 5, "hom_deg": 0}
    B = lambda op, a, b: {"op": op, "a": a, "b": b, "nout": 1}
    stored.append({"fam": "approx", "mode": "exact", "cls": "corpus/dtypes",
                   "leaves": [V([[0.0, 1.0, 2.0, 1.0, 0.0], [0.0, 0.0, 1.0, 0.0, 0.0]], "int64"),
                              V([[0.5, 0.25, 1.5, 0.75, 0.5]], "float64"),
                              V([[0.25, 0.5, 0.75, 1.25, 1.5], [0.5, 0.5, 0.5, 0.5, 0.5], [0.0, 0.25, 0.0, -0.25, 0.0]], "float64"),
                              V([[1.0, -2.0, 3.0, -1.0, 2.0]], "int64")],
                   "steps": [B("add", 0, 1), B("add", 1, 0), B("sub", 0, 1), B("sub", 1, 0), B("add", 2, 3), B("sub", 3, 2),
                             B("add", 0, 3), B("sub", 3, 0), B("add", 2, 1), B("sub", 1, 2), B("add", 4, 9)]})
    # compute=False: a 3-depth diagram landscape whose first use is + / - with a 1-depth operand, both positions
    lz = lambda: {"kind": "dgm", "dgm": [[0.0, 8.0], [1.0, 7.0], [2.0, 6.0]], "hom_deg": 0, "lazy": True}
    stored.append({"fam": "exact", "mode": "exact", "cls": "corpus/lazy",
                   "leaves": [lz(), E([[[0.0, 0.0], [1.0, 1.0], [2.0, 0.0]]]), lz(), lz(), lz()],
                   "steps": [B("add", 0, 1), B("add", 1, 2), B("sub", 3, 1), B("sub", 1, 4), B("add", 0, 2)]})
    return stored + [
        # the suite's own example shapes
        {"fam": "exact", "mode": "exact", "leaves": [E([[[0.0, 0.0], [1.0, 1.0], [2.0, 0.0]]]),
                                                      E([[[0.0, 0.0], [2.0, 2.0], [4.0, 0.0]], [[1.0, 0.0], [2.0, 1.0], [3.0, 0.0]]])],
         "steps": [{"op": "add", "a": 0, "b": 1, "nout": 1}, {"op": "sub", "a": 0, "b": 1, "nout": 1},
                   {"op": "mul", "a": 2, "c": 2.5, "nout": 1}, {"op": "div", "a": 3, "c": 2.0, "nout": 1},
                   {"op": "neg", "a": 4, "nout": 1}, {"op": "add", "a": 2, "b": 2, "nout": 1},
                   {"op": "sub", "a": 6, "b": 0, "nout": 1}]},
        {"fam": "exact", "mode": "exact", "cls": "exact/exact/errors",
         "leaves": [E([[[0.0, 0.0], [1.0, 1.0], [2.0, 0.0]]]), E([[[0.0, 0.0], [1.0, 0.0]]], 1)],
         "steps": [{"op": "add", "a": 0, "b": 1, "nout": 1}, {"op": "div", "a": 0, "c": 0.0, "nout": 1},
                   {"op": "sub", "a": 1, "b": 0, "nout": 1}]},
        {"fam": "approx", "mode": "exact",
         "leaves": [{"kind": "vals", "values": [[0.0, 1.0, 2.0, 1.0, 0.0], [0.0, 0.0, 1.0, 0.0, 0.0]], "start": 0.0, "stop": 4.0,
                     "num_steps": 5, "hom_deg": 0},
                    {"kind": "vals", "values": [[1.0, 1.0, 1.0]], "start": 1.0, "stop": 5.0, "num_steps": 3, "hom_deg": 0}],
         "steps": [{"op": "snap", "args": [0, 1], "start": None, "stop": None, "num_steps": None, "nout": 2},
                   {"op": "add", "a": 2, "b": 3, "nout": 1},
                   {"op": "lc", "args": [0, 1], "coeffs": [2.0, -1.0], "start": None, "stop": None, "num_steps": None, "nout": 1},
                   {"op": "avg", "args": [0, 1], "start": None, "stop": None, "num_steps": None, "nout": 1},
                   {"op": "add", "a": 0, "b": 1, "nout": 1}, {"op": "div", "a": 0, "c": 0.0, "nout": 1},
                   {"op": "sub", "a": 0, "b": 0, "nout": 1}]},
    ]


# =====================================================================================  implementation
def _canon(x):
    """byte-level canonical form of nested lists / tuples / numbers / arrays"""
    import numpy as np
    if isinstance(x, np.ndarray):
        return "A(%s,%s,%s)" % (x.dtype, x.shape, x.tobytes().hex())
    if isinstance(x, (list, tuple)):
        return ("L[" if isinstance(x, list) else "T[") + ",".join(_canon(v) for v in x) + "]"
    if isinstance(x, (bool, int)):
        return "i%d" % x
    if isinstance(x, float):
        return type(x).__name__ + x.hex()
    if isinstance(x, np.generic):
        return "%s:%s" % (x.dtype, x.tobytes().hex())
    return repr(x)


def _fingerprint(o, fam):
    if fam == "exact":
        s = _canon([o.hom_deg, o.max_depth, o.critical_pairs])
    else:
        s = _canon([o.hom_deg, o.max_depth, o.start, o.stop, o.num_steps, o.values])
    return hashlib.sha256(s.encode()).hexdigest()[:20]


def _snap_obj(o, fam):
    import numpy as np
    if fam == "exact":
        return {"hom_deg": int(o.hom_deg), "cp": [[[float(x), float(y)] for x, y in d] for d in o.critical_pairs]}
    v = np.asarray(o.values)
    return {"hom_deg": int(o.hom_deg), "start": float(o.start), "stop": float(o.stop), "num_steps": int(o.num_steps),
            "values": [[float(x) for x in row] for row in v]}


def _ints(cp):
    return [[[int(x) if float(x).is_integer() else x, int(y) if float(y).is_integer() else y] for x, y in d] for d in cp]


def _run_one(c):
    import numpy as np
    from persim.landscapes import PersLandscapeExact, PersLandscapeApprox
    from persim.landscapes import snap_pl, lc_approx, average_approx
    fam = c["fam"]
    objs, fp0 = [], []
    twins = {}     # leaf index -> eager twin (its critical_pairs / values are the leaf's value for model and spec)
    lazy = {}      # id(lazy object) -> (fingerprint of its eagerly computed twin, canonical form of its diagram)

    def fprint(o):
        info = lazy.get(id(o))
        if info is not None:
            untouched = (not o.critical_pairs) if fam == "exact" else (np.asarray(o.values).size == 0)
            if untouched:
                # not computed yet: unchanged iff the stored diagram is; afterwards it must equal the eager twin
                return info[0] if _canon([o.hom_deg, o.dgms]) == info[1] else "lazy-object-modified"
        return _fingerprint(o, fam)

    def new(o):
        objs.append(o)
        fp0.append(fprint(o) if o is not None else None)

    for l in c["leaves"]:
        deg = l["hom_deg"]
        if l["kind"] == "dgm":
            dg = [np.zeros((0, 2))] * deg + [np.array(l["dgm"], dtype=float).reshape(-1, 2)]
            kw = {} if fam == "exact" else dict(start=l["start"], stop=l["stop"], num_steps=l["num_steps"])
            cls_ = PersLandscapeExact if fam == "exact" else PersLandscapeApprox
            if l.get("lazy"):
                twin = cls_(dgms=[d.copy() for d in dg], hom_deg=deg, **kw)
                o = cls_(dgms=dg, hom_deg=deg, compute=False, **kw)
                lazy[id(o)] = (_fingerprint(twin, fam), _canon([o.hom_deg, o.dgms]))
                twins[len(objs)] = twin
                new(o)
            else:
                new(cls_(dgms=dg, hom_deg=deg, **kw))
        elif fam == "exact":
            cp = [[[float(x), float(y)] for x, y in d] for d in l["cp"]]
            if l.get("ints"):
                cp = _ints(cp)
            new(PersLandscapeExact(critical_pairs=cp, hom_deg=deg))
        else:
            dt = np.int64 if l.get("dtype") == "int64" else np.float64
            new(PersLandscapeApprox(values=np.array(l["values"], dtype=dt), start=l["start"], stop=l["stop"],
                                    num_steps=l["num_steps"], hom_deg=deg))
    out = {"leaves": [_snap_obj(twins.get(j, o), fam) for j, o in enumerate(objs)], "fp0": list(fp0), "steps": []}
    for st in c["steps"]:
        op = st["op"]
        nout = st.get("nout", 1)

        def call():
            if op in ("snap", "lc", "avg"):
                if any(objs[i] is None for i in st["args"]):
                    raise LookupError("operand missing")
                pls = [objs[i] for i in st["args"]]
                kw = dict(start=st["start"], stop=st["stop"], num_steps=st["num_steps"])
                if op == "snap":
                    return list(snap_pl(pls, **kw))
                if op == "lc":
                    return [lc_approx(pls, st["coeffs"], **kw)]
                return [average_approx(pls, **kw)]
            a = objs[st["a"]]
            if a is None or ("b" in st and objs[st["b"]] is None):
                raise LookupError("operand missing")
            if op == "add":
                return [a + objs[st["b"]]]
            if op == "sub":
                return [a - objs[st["b"]]]
            if op == "neg":
                return [-a]
            if op == "mul":
                return [a * st["c"]]
            if op == "rmul":
                return [st["c"] * a]
            if op == "div":
                return [a / st["c"]]
            raise KeyError(op)
        try:
            rs = call()
            if len(rs) != nout:
                raise RuntimeError("step produced %d objects, %d expected" % (len(rs), nout))
            rec = {"res": [_snap_obj(r, fam) for r in rs]}
            for r in rs:
                new(r)
        except Exception as e:  # noqa
            rec = {"error": type(e).__name__, "msg": str(e)[:200]}
            for _ in range(nout):
                new(None)
        # every live object, fingerprinted again after the step
        rec["fp"] = [None if o is None else fprint(o) for o in objs]
        out["steps"].append(rec)
    out["fp0"] = list(fp0)
    return out


def impl_run(cases):
    outs = []
    for c in cases:
        try:
            outs.append(_run_one(c))
        except Exception as e:  # noqa  (a leaf could not be built)
            outs.append({"error": type(e).__name__, "msg": str(e)[:300]})
    return outs


# =====================================================================================  the spec (predicate)
class SpecError(Exception):
    pass


def _F(x):
    return Fraction(float(x))


def _pl(depth, t):
    """the function of one breakpoint list: linear interpolation, 0 outside"""
    if not depth or t < depth[0][0] or t > depth[-1][0]:
        return Fraction(0)
    for (x0, y0), (x1, y1) in zip(depth, depth[1:]):
        if x0 <= t <= x1:
            if t == x0:
                return y0
            return y0 + (y1 - y0) * (t - x0) / (x1 - x0)
    return depth[-1][1] if t == depth[-1][0] else Fraction(0)


def _land_fun(cp):
    cpq = [[(_F(x), _F(y)) for x, y in d] for d in cp]
    return lambda k, t: _pl(cpq[k], t) if k < len(cpq) else Fraction(0)


def _close(mode, a, b):
    if mode == "exact":
        return a == b
    return abs(a - b) <= TOL * (1 + abs(b))


def _pred_exact(c, o):
    mode = c["mode"]
    # spec objects, from the leaves: ("leaf", cpq) | (op, a, b, scalar); evaluated pointwise with memoisation
    spec = [("leaf", [[(_F(x), _F(y)) for x, y in d] for d in l["cp"]]) for l in o["leaves"]]
    degs = [l["hom_deg"] for l in o["leaves"]]
    snaps = [l["cp"] for l in o["leaves"]]
    memo = {}

    def ev(j, k, t):
        key = (j, k, t)
        if key in memo:
            return memo[key]
        sp = spec[j]
        if sp[0] == "leaf":
            v = _pl(sp[1][k], t) if k < len(sp[1]) else Fraction(0)
        elif sp[0] == "add":
            v = ev(sp[1], k, t) + ev(sp[2], k, t)
        elif sp[0] == "sub":
            v = ev(sp[1], k, t) - ev(sp[2], k, t)
        elif sp[0] == "neg":
            v = -ev(sp[1], k, t)
        elif sp[0] == "mul":
            v = sp[3] * ev(sp[1], k, t)
        else:
            v = ev(sp[1], k, t) / sp[3]
        memo[key] = v
        return v

    for si, (st, rec) in enumerate(zip(c["steps"], o["steps"])):
        op = st["op"]
        ia, ib = st["a"], st.get("b")
        if spec[ia] is None or (ib is not None and spec[ib] is None):
            return False, "harness: step=%d refers to a missing operand" % si
        expect_err = None
        if op in ("add", "sub") and degs[ia] != degs[ib]:
            expect_err = "degree"
        if op == "div" and st["c"] == 0:
            expect_err = "zero"
        if expect_err:
            if "error" not in rec or rec["error"] != "ValueError":
                return False, "no-error: step=%d (%s) should be rejected (%s), got %s" % (si, op, expect_err, str(rec)[:120])
            spec.append(None)
            degs.append(None)
            snaps.append(None)
        else:
            if "error" in rec:
                return False, "unexpected-error: step=%d (%s): %s" % (si, op, rec)
            spec.append(("mul" if op == "rmul" else op, ia, ib, _F(st["c"]) if "c" in st else None))
            degs.append(degs[ia])
            me = len(spec) - 1
            res = rec["res"][0]
            if res["hom_deg"] != degs[ia]:
                return False, "degree: step=%d result degree %s" % (si, res["hom_deg"])
            r = _land_fun(res["cp"])
            ops = [snaps[ia]] + ([snaps[ib]] if ib is not None else [])
            depth_n = max([len(res["cp"])] + [len(x) for x in ops])
            for k in range(depth_n + 1):
                xs = set()
                for lst in ops + [res["cp"]]:
                    if k < len(lst):
                        xs.update(_F(p[0]) for p in lst[k])
                xs = sorted(xs)
                if not xs:
                    continue
                ts = list(xs) + [(u + v) / 2 for u, v in zip(xs, xs[1:])] + [xs[0] - 1, xs[-1] + 1]
                for t in ts:
                    want, got = ev(me, k, t), r(k, t)
                    if not _close(mode, got, want):
                        return False, ("pointwise: step=%d (%s) depth %d t=%s: result %s, operands give %s"
                                       % (si, op, k, float(t), float(got), float(want)))
            snaps.append(res["cp"])
        ok, d = _unchanged(o, si)
        if not ok:
            return False, d
    return True, ""


def _unchanged(o, si):
    fp = o["steps"][si]["fp"]
    for j, (f0, f1) in enumerate(zip(o["fp0"], fp)):
        if f0 != f1:
            return False, "operand-changed: object %d differs after step=%d from what it was when created" % (j, si)
    return True, ""


def _linspaceQ(start, stop, n):
    if n == 1:
        return [start]
    return [start + i * (stop - start) / (n - 1) for i in range(n)]


def _interpQ(xp, fp, x):
    if x <= xp[0]:
        return fp[0]
    if x >= xp[-1]:
        return fp[-1]
    import bisect
    j = bisect.bisect_right(xp, x) - 1          # xp[j] <= x < xp[j+1]   (xp strictly increasing, xp[0] < x < xp[-1])
    if not (0 <= j < len(xp) - 1 and xp[j] <= x <= xp[j + 1]):
        raise SpecError("interp")
    return fp[j] + (fp[j + 1] - fp[j]) * (x - xp[j]) / (xp[j + 1] - xp[j])


class _A:
    def __init__(self, deg, start, stop, n, rows):
        self.deg, self.start, self.stop, self.n, self.rows = deg, start, stop, n, rows


def _a_of_snapshot(s):
    return _A(s["hom_deg"], _F(s["start"]), _F(s["stop"]), s["num_steps"], [[_F(v) for v in row] for row in s["values"]])


def _a_add(a, b, sign=1):
    if a.deg != b.deg or a.start != b.start or a.stop != b.stop or a.n != b.n:
        raise SpecError("mismatch")
    nd = max(len(a.rows), len(b.rows))
    zero = [Fraction(0)] * a.n
    rows = []
    for k in range(nd):
        ra = a.rows[k] if k < len(a.rows) else zero
        rb = b.rows[k] if k < len(b.rows) else zero
        rows.append([x + sign * y for x, y in zip(ra, rb)])
    return _A(a.deg, a.start, a.stop, a.n, rows)


def _a_scale(a, c):
    return _A(a.deg, a.start, a.stop, a.n, [[c * v for v in row] for row in a.rows])


def _a_snap(pls, st):
    if not pls:
        raise SpecError("empty")
    start = _F(st["start"]) if st["start"] is not None else min(p.start for p in pls)
    stop = _F(st["stop"]) if st["stop"] is not None else max(p.stop for p in pls)
    n = st["num_steps"] if st["num_steps"] is not None else max(p.n for p in pls)
    grid = _linspaceQ(start, stop, n)
    out = []
    for p in pls:
        xp = _linspaceQ(p.start, p.stop, p.n)
        out.append(_A(p.deg, start, stop, n, [[_interpQ(xp, row, g) for g in grid] for row in p.rows]))
    return out


def _a_same(mode, got, want):
    if (got.deg, got.n) != (want.deg, want.n) or not _close(mode, got.start, want.start) or not _close(mode, got.stop, want.stop):
        return "grid/degree (%s,%s,%s,%s) expected (%s,%s,%s,%s)" % (got.deg, float(got.start), float(got.stop), got.n,
                                                                      want.deg, float(want.start), float(want.stop), want.n)
    if len(got.rows) < len(want.rows):
        return "depths: %d rows, expected %d" % (len(got.rows), len(want.rows))
    zero = [Fraction(0)] * want.n
    for k in range(len(got.rows)):
        w = want.rows[k] if k < len(want.rows) else zero
        if len(got.rows[k]) != len(w):
            return "row %d has %d values, expected %d" % (k, len(got.rows[k]), len(w))
        for i, (x, y) in enumerate(zip(got.rows[k], w)):
            if not _close(mode, x, y):
                return "depth %d node %d: result %s, operands give %s" % (k, i, float(x), float(y))
    return None


def _pred_approx(c, o):
    mode = c["mode"]
    objs = [_a_of_snapshot(s) for s in o["leaves"]]
    for si, (st, rec) in enumerate(zip(c["steps"], o["steps"])):
        op = st["op"]
        nout = st.get("nout", 1)
        try:
            if op in ("snap", "lc", "avg"):
                pls = [objs[i] for i in st["args"]]
                if any(p is None for p in pls):
                    return False, "harness: step=%d refers to a missing operand" % si
                snapped = _a_snap(pls, st)
                if op == "snap":
                    want = snapped
                else:
                    cs = [_F(x) for x in st["coeffs"]] if op == "lc" else [Fraction(1, len(pls))] * len(pls)
                    acc = _a_scale(snapped[0], cs[0])
                    for p, cc in zip(snapped[1:], cs[1:]):
                        acc = _a_add(acc, _a_scale(p, cc))
                    want = [acc]
            else:
                a = objs[st["a"]]
                b = objs[st["b"]] if "b" in st else None
                if a is None or ("b" in st and b is None):
                    return False, "harness: step=%d refers to a missing operand" % si
                if op == "add":
                    want = [_a_add(a, b)]
                elif op == "sub":
                    want = [_a_add(a, b, -1)]
                elif op == "neg":
                    want = [_a_scale(a, Fraction(-1))]
                elif op in ("mul", "rmul"):
                    want = [_a_scale(a, _F(st["c"]))]
                else:
                    if st["c"] == 0:
                        raise SpecError("zero")
                    want = [_a_scale(a, 1 / _F(st["c"]))]
        except SpecError as e:
            if "error" not in rec or rec["error"] != "ValueError":
                return False, "no-error: step=%d (%s) should be rejected (%s), got %s" % (si, op, e, str(rec)[:120])
            objs += [None] * nout
        else:
            if "error" in rec:
                return False, "unexpected-error: step=%d (%s): %s" % (si, op, rec)
            if len(rec["res"]) != len(want):
                return False, "count: step=%d returned %d landscapes" % (si, len(rec["res"]))
            for j, (r, w) in enumerate(zip(rec["res"], want)):
                d = _a_same(mode, _a_of_snapshot(r), w)
                if d:
                    return False, "pointwise: step=%d (%s) output %d %s" % (si, op, j, d)
            objs += want
        ok, d = _unchanged(o, si)
        if not ok:
            return False, d
    return True, ""


def _nonfinite(o):
    """first non-finite number in the implementation's output, as (where, value)"""
    import math

    def walk(x):
        if isinstance(x, float):
            return None if math.isfinite(x) else x
        if isinstance(x, list):
            for v in x:
                r = walk(v)
                if r is not None:
                    return r
        if isinstance(x, dict):
            for k in ("cp", "values", "start", "stop"):
                if k in x:
                    r = walk(x[k])
                    if r is not None:
                        return r
        return None
    for j, l in enumerate(o.get("leaves", [])):
        r = walk(l)
        if r is not None:
            return "leaf %d" % j, r
    for si, rec in enumerate(o.get("steps", [])):
        r = walk(rec.get("res", []))
        if r is not None:
            return "step=%d" % si, r
    return None


def predicate(c, o):
    if "error" in o:
        return False, "unexpected-error: a leaf could not be built: %s" % o
    nf = _nonfinite(o)
    if nf:
        return False, "non-finite: %s contains %r" % nf
    if len(o["steps"]) != len(c["steps"]):
        return False, "harness: %d step records for %d steps" % (len(o["steps"]), len(c["steps"]))
    return _pred_exact(c, o) if c["fam"] == "exact" else _pred_approx(c, o)


def nontrivial(c, o):
    if "error" in o:
        return False
    for st, rec in zip(c["steps"], o["steps"]):
        if "error" in rec:
            return True
        if st["op"] in ("add", "sub") and st["a"] != st["b"]:
            return True
        if st["op"] in ("snap", "lc", "avg") and len(set(st["args"])) > 1:
            return True
    return False


def finding_of(c, o, detail):
    """C09-nonzero-first-ordinate: the first failing step is a sum / difference of exact landscapes in which
    an operand has, at a depth present in both, a non-zero first ordinate."""
    import re
    m = re.match(r"pointwise: step=(\d+) \((add|sub)\)", detail or "")
    if not m or c.get("fam") != "exact" or "error" in o:
        return None
    si = int(m.group(1))
    snaps = [l["cp"] for l in o["leaves"]]
    for rec in o["steps"]:
        snaps.append(rec["res"][0]["cp"] if "res" in rec else None)
    st = c["steps"][si]
    a, b = snaps[st["a"]], snaps[st["b"]]
    if a is None or b is None:
        return None
    for da, db in zip(a, b):
        if da and db and (da[0][1] != 0 or db[0][1] != 0):
            return FINDING
    return None


# =====================================================================================  the model, in Coq
HEADER = """From Coq Require Import QArith List ZArith.
From Persim Require Import Model.LandArithM Corr.LandArithCorr.
Import ListNotations.
Open Scope Q_scope.
"""
Q = core.coq_Q


def _qf(x):
    return Q(Fraction(float(x)))


def _coq_e(s):
    return "(mkE %s %s)" % (core.coq_Z(s["hom_deg"]), core.coq_list(
        [core.coq_list(["(%s,%s)" % (_qf(x), _qf(y)) for x, y in d]) for d in s["cp"]]))


def _coq_a(s):
    return "(mkA %s %s %s %d%%nat %s)" % (core.coq_Z(s["hom_deg"]), _qf(s["start"]), _qf(s["stop"]), s["num_steps"],
                                          core.coq_list([core.coq_list([_qf(v) for v in row]) for row in s["values"]]))


def _coq_err(rec):
    msg = rec.get("msg", "")
    if rec.get("error") == "ValueError":
        if "degree" in msg:
            return "ErrDegree"
        if "Start values" in msg:
            return "ErrStart"
        if "Stop values" in msg:
            return "ErrStop"
        if "Number of steps" in msg:
            return "ErrSteps"
        if "divide by zero" in msg:
            return "ErrDivZero"
        if "iterable argument is empty" in msg or "empty sequence" in msg:
            return "ErrEmpty"
    return None


def _opt(x, f):
    return "None" if x is None else "(Some %s)" % f(x)


def _nats(l):
    return core.coq_list(["%d%%nat" % i for i in l])


def _term(c, o):
    """closed Coq term of type verdict, or None when the outcome cannot be expressed"""
    if "error" in o or _nonfinite(o):
        return None
    exact = c["fam"] == "exact"
    tol = "0" if c["mode"] == "exact" else Q(TOL)
    steps, impl = [], []
    for st, rec in zip(c["steps"], o["steps"]):
        op = st["op"]
        if op == "add":
            s = "%s %d %d" % ("SAdd" if exact else "AAdd", st["a"], st["b"])
        elif op == "sub":
            s = "%s %d %d" % ("SSub" if exact else "ASub", st["a"], st["b"])
        elif op == "neg":
            s = "%s %d" % ("SNeg" if exact else "ANeg", st["a"])
        elif op in ("mul", "rmul"):
            s = "%s %s %d" % ("SMul" if exact else "AMul", _qf(st["c"]), st["a"])
        elif op == "div":
            s = "%s %d %s" % ("SDiv" if exact else "ADiv", st["a"], _qf(st["c"]))
        else:
            grid = "%s %s %s" % (_opt(st["start"], _qf), _opt(st["stop"], _qf),
                                 _opt(st["num_steps"], lambda n: "%d%%nat" % n))
            if op == "snap":
                s = "ASnap %s %s" % (_nats(st["args"]), grid)
            elif op == "lc":
                s = "ALc %s %s %s" % (_nats(st["args"]), core.coq_list([_qf(x) for x in st["coeffs"]]), grid)
            else:
                s = "AAvg %s %s" % (_nats(st["args"]), grid)
        steps.append(s)
        if "error" in rec:
            e = _coq_err(rec)
            if e is None:
                return None
            impl.append(e)
        elif exact:
            impl.append("Ok %s" % _coq_e(rec["res"][0]))
        else:
            impl.append("Ok %s" % core.coq_list([_coq_a(r) for r in rec["res"]]))
    leaves = core.coq_list([(_coq_e if exact else _coq_a)(l) for l in o["leaves"]], sep=";\n  ")
    return "%s %s\n %s\n %s\n %s" % ("check_ehist" if exact else "check_ahist", tol, leaves,
                                     core.coq_list(steps), core.coq_list(impl, sep=";\n  "))


def coq_jobs(cases, outs):
    return []


def coq_judge(cases, outs, results):
    verdicts = ["disagree:outcome not expressible (unknown exception, non-finite value or leaf failure)"] * len(cases)
    terms, idx = [], []
    for i, (c, o) in enumerate(zip(cases, outs)):
        def _max_depth_len(case):
            return max([len(d) for lf in case.get("leaves", []) for d in lf.get("cp", [])] or [0])
        if c.get("cls") == "exact/exact/long" and _max_depth_len(c) > 140 and "error" not in o and not _nonfinite(o):
            # thorough-tier sizes (up to 520 breakpoints per depth): even on dyadic inputs three vm_compute files ran past
            # 900 s each; the model still runs on the exact/exact/long histories of up to 140 breakpoints per depth
            verdicts[i] = "skip:model not run on exact histories with more than 140 breakpoints per depth; spec predicate only"
            continue
        if c.get("cls") == "exact/tol/long" and "error" not in o and not _nonfinite(o):
            # random doubles on lists of 30+ breakpoints: the Q model's unreduced quotients grow beyond any time-out
            # (measured: > 900 s for one history).  The spec predicate is still evaluated on these; the model runs on
            # the exact/exact/long histories of the same sizes.
            verdicts[i] = "skip:model not run on long random-double histories (rational blow-up); spec predicate only"
            continue
        t = _term(c, o)
        if t is not None and len(t) > 200000:
            # a single history whose Coq term exceeds 200 kB (thorough-tier sizes: long lists / big grids with full-mantissa
            # rationals) does not evaluate within the per-file limit; it is judged by the spec predicate only
            verdicts[i] = "skip:model term of %d kB exceeds the evaluation budget; spec predicate only" % (len(t) // 1000)
            continue
        if t is not None:
            idx.append(i)
            terms.append(t)
    toks, _ = core.eval_cases(PID, HEADER, terms, chunk=12, timeout=900)
    for i, t in zip(idx, toks):
        if t == "VAgree":
            verdicts[i] = "agree"
        elif t == "VLegacy":
            verdicts[i] = "legacy:" + FINDING
        elif t.startswith("VDisagree"):
            verdicts[i] = "disagree:model and implementation differ at step %s" % t.split()[-1]
        else:
            verdicts[i] = "disagree:coq evaluation failed (%s)" % t[:40]
    return verdicts


# =====================================================================================  shrinking
def _slots(c):
    """object index ranges: leaves first, then nout per step"""
    starts, n = [], len(c["leaves"])
    for st in c["steps"]:
        starts.append(n)
        n += st.get("nout", 1)
    return starts, n


def _refs(st):
    r = []
    if "a" in st:
        r.append(st["a"])
    if "b" in st:
        r.append(st["b"])
    r += st.get("args", [])
    return r


def _remap(st, f):
    d = dict(st)
    if "a" in d:
        d["a"] = f(d["a"])
    if "b" in d:
        d["b"] = f(d["b"])
    if "args" in d:
        d["args"] = [f(i) for i in d["args"]]
    return d


def shrink_candidates(c):
    steps = c["steps"]
    # shorter prefixes first
    for k in range(1, len(steps)):
        d = dict(c)
        d["steps"] = steps[:k]
        yield d
    starts, _ = _slots(c)
    # drop one step whose outputs nobody uses
    for s in range(len(steps) - 1, -1, -1):
        lo, hi = starts[s], starts[s] + steps[s].get("nout", 1)
        if any(lo <= r < hi for st in steps[s + 1:] for r in _refs(st)):
            continue
        w = hi - lo
        d = dict(c)
        d["steps"] = steps[:s] + [_remap(st, lambda i: i - w if i >= hi else i) for st in steps[s + 1:]]
        yield d
    # drop an unused leaf
    for l in range(len(c["leaves"])):
        if len(c["leaves"]) <= 1 or any(r == l for st in steps for r in _refs(st)):
            continue
        d = dict(c)
        d["leaves"] = c["leaves"][:l] + c["leaves"][l + 1:]
        d["steps"] = [_remap(st, lambda i: i - 1 if i > l else i) for st in steps]
        yield d
    # fewer depths in a leaf
    for l, leaf in enumerate(c["leaves"]):
        key = "cp" if "cp" in leaf else ("values" if "values" in leaf else None)
        if key and len(leaf[key]) > 1:
            d = dict(c)
            d["leaves"] = list(c["leaves"])
            nl = dict(leaf)
            nl[key] = leaf[key][:-1]
            d["leaves"][l] = nl
            yield d
