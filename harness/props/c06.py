"""C06 - Returned matchings certify the reported bottleneck / Wasserstein distance.

Theorems: coq/Properties/C06.v (for every maximum-matching routine resp. every optimal-assignment
solver the rows returned by the models of bottleneck.py:120-133 and wasserstein.py:98-108 are a
certificate for the returned distance, the distance does not depend on the flag, and the boolean
certificate checkers are sound).

Tie: on every run persim.bottleneck and persim.wasserstein are called with matching=False and
matching=True on the same seeded diagram pairs, under several PYTHONHASHSEEDs (the matching that
HopcroftKarp returns depends on set order).  The implementation's rows are never compared with a
model matching (any optimal matching is acceptable); they are judged
  * by the certificate predicate of the property text in pure Python (c01.bneck_cert_ok,
    c02.wass_cert_ok), and
  * by the verified checkers evaluated inside Coq on the exact rationals
    (Corr/BneckCorr.bneck_cert_case: exactly in the exact family, within 2^-50 relative in the
    tolerance family; Corr/WassCorr.cert_case: sqrt enclosures, 1e-9 relative).
"""
import math
from fractions import Fraction as Fr

from .. import core, history
from . import c01, c02

PID = "C06"
THEOREMS = [
    "bottleneck_matching_cert", "bottleneck_matching_flag_irrelevant", "bottleneck_cert_checker_sound",
    "wasserstein_matching_flag_irrelevant", "wasserstein_matching_cert", "wasserstein_cert_checker_sound",
]
RULE = ("seeded generator shared with C01: exact family (coordinates (k/4)*2^s) and tolerance family (random doubles), "
        "classes {generic, empty_side, both_empty, repeated, diagonal, ties, inf, scale, near_tie, permuted, big, tol} "
        "plus C02's input-dtype class (integer-valued diagrams as uint8..float64 arrays, spec on the values), "
        "sizes 0-6 per side (quick) / up to 16 (thorough); plus class sized: the total M+N, or one diagram alone, "
        "at B-1..B+3 for block sizes B in {16,32,48,64} (quick, 10 pairs: every block balanced, 48 and 64 also with "
        "one diagram alone next to the block as dgm1 and as dgm2, the other side 0-7 points or about B/2) / "
        "{16,..,128} (thorough, 56 pairs), exact quarter grid, narrow half-integer grid (many ties) or random doubles, "
        "half of the smaller diagram moved copies of points of the other, now and then an infinite bar or a "
        "diagonal point; plus class xcols (24 quick / 300 thorough): diagrams of the shared classes with 1-3 additional "
        "columns after (birth, death) - flavours const (one value everywhere, handed to both distances), side, index, "
        "mult, big, near (differ between the points of a pair: bottleneck only, wasserstein gets the two-column "
        "diagrams) - as array / list / tuple / Fortran / read-only / strided view, the spec being evaluated on the "
        "(birth, death) columns; plus call histories (harness/history.py; 15 quick / 150 thorough, 5-7 calls each, every "
        "history in its own forked interpreter, every kind in every run): again (one pair on the same objects, on fresh "
        "equal copies, exchanged), pairwise (pairs over a pool of 3-5 diagrams incl. a diagram against itself, first pairs "
        "asked again), nearby (a diagram and three almost-equal variants of it - points exchanged, deaths exchanged, one "
        "grid step, sc*2^-20..2^-40, last / first point replaced - against one partner, on either side), slot (the "
        "caller's buffer overwritten in place between calls), fault (a malformed argument, or non-finite deaths while "
        "warnings are errors, between clean calls); a third of the pools carry extra columns; in histories and xcols "
        "cases matching=True is called before or after matching=False, and after EVERY call the values are copied out and "
        "the returned objects are overwritten in place (history.scribble) - every call of a history must satisfy the "
        "predicate; every batch under PYTHONHASHSEED 0,1,2; both distances are "
        "called with matching=False and matching=True. A case is non-trivial when both calls succeed and either one of "
        "the two returned matchings contains a cross pairing and a diagonal pairing, or an empty-diagram / "
        "infinite-death branch is exercised; a history when at least two of its calls are; distinct = distinct JSON input")
TRUSTED_BASE = [
    "Coq 8.16.1 kernel, vm_compute (no native_compute)",
    "bottleneck half: closed under the global context; Wasserstein half: stdlib axioms of the classical reals "
    "(ClassicalDedekindReals.sig_forall_dec, sig_not_dec, functional_extensionality_dep) and Classical_Prop.classic",
    "hand-written models Model/BneckM.v (bottleneck.py lines 50-135) and Model/WassM.v (wasserstein.py lines 46-110)",
    "hypotheses on external code: HopcroftKarp returns a maximum matching; linear_sum_assignment returns an optimal "
    "assignment (both monitored on every real call by the C01 / C02 runners reused here)",
    "harness: generator, float->exact-rational printer, verdict parser; the certificate predicate in Python; "
    "call histories (harness/history.py) and extra-column cases run through this module's own runner (no monitor of "
    "the external routines there): each call judged by the same predicate and the same Coq checkers, nothing recorded",
]
ASSUMPTIONS = [
    "numpy semantics of the row re-indexing (boolean masks, fancy indexing) are as modelled",
    "diagrams have birth <= death (the property speaks of persistence diagrams)",
    "additional columns after (birth, death): the bottleneck cost rule reads (birth, death) only (its docstring: other "
    "columns are allowed); persim.wasserstein's point-to-point cost reads every column, so it is given extra columns "
    "only when they are one constant row on every point of two non-empty diagrams (they then cancel)",
    "bottleneck exact family: every float operation is exact on the dyadic grid (costs compared exactly); "
    "tolerance family and all Wasserstein costs: rounding bounded by the stated tolerances, not proved",
]
HASHSEEDS = ["0", "1", "2"]
HASHSEEDS_THOROUGH = ["0", "1", "2", "3", "7", "11", "42", "1234"]
COQ_DEPS = ["Corr/BneckCorr.vo", "Corr/WassCorr.vo"]


# ------------------------------------------------------------------------------------ cases
def _dtype_case(rng, nmax):
    """C02's input-dtype class (integer-valued diagrams as uint8 ... float64 arrays) in C01's case format."""
    c = c02._dtype_case(rng, nmax)
    return {"cls": "dtype", "family": "exact", "S": c["S"], "T": c["T"], "rep": "array", "dtype": c["dtype"]}


# ---- sizes just above typical block sizes -------------------------------------------------------
# Both routines work on the (M+N) x (M+N) augmented matrix, so a size-dependent code path (a compiled
# matching / assignment routine from some node count on, chunked row extraction, a blocked cost matrix)
# can key on M+N as well as on M or N alone.  `sized` cases put the total, or one side on its own, at
# B-1, B, B+1, B+2, B+3 for B in BLOCKS, in three shapes: balanced, lopsided (0-5 points on the small
# side; 0 = the empty-diagram stand-in) and one side alone above the block.
BLOCKS_QUICK = (16, 32, 48, 64)
BLOCKS_THOROUGH = (16, 32, 48, 64, 96, 128)
SIZED_FLAVOURS = ("grid", "grid", "ties", "tol")


def _sized_shape(rng, B, shape):
    K = B + rng.choice([-1, 0, 1, 1, 2, 3])
    if shape == "balanced":
        m = K // 2 + rng.choice([0, 0, 1, -1])
        n = K - m
    elif shape == "lopsided":
        n = rng.choice([0, 1, 2, 3, 5])
        m = K - max(1, n)            # an empty side counts as the one-point stand-in
    else:                            # "side": one diagram alone crosses the block
        m = K
        n = rng.choice([rng.randint(2, 7), B // 2 + 1, B // 4])
    return m, n


def _sized_case(rng, B, shape, flavour=None, big_first=None):
    """One diagram pair with M+N (or M alone) next to the block size B.  About half of the smaller diagram
    are moved copies of points of the other one and the rest is independent, so that the optimal matchings
    mix cross and diagonal pairings.  Flavours: grid = exact family on the quarter grid (wide range, few
    ties); ties = exact family on a narrow half-integer grid (many equal costs, many optimal matchings);
    tol = random doubles."""
    flavour = flavour or rng.choice(SIZED_FLAVOURS)
    m, n = _sized_shape(rng, B, shape)
    if flavour == "tol":
        def pt():
            b = rng.uniform(-5, 35)
            return [b, b + rng.choice([rng.uniform(0, 10), rng.uniform(0, 0.05), rng.uniform(0, 2)])]

        def moved(p):
            e = rng.choice([0.3, 0.02, 1.5])
            return [p[0] + rng.uniform(-e, e), p[1] + abs(rng.uniform(-e, e))]
    else:
        kr, ml, q = ((0, 160), 40, 4.0) if flavour == "grid" else ((0, 40), 40, 2.0)

        def pt():
            b = rng.randint(*kr)
            return [b / q, (b + rng.randint(0, ml)) / q]

        def moved(p):
            return [p[0] + rng.randint(-4, 4) / q, p[1] + rng.randint(0, 4) / q]
    S = [pt() for _ in range(m)]
    T = [moved(p) for p in rng.sample(S, min(m, n) // 2)] if m and n else []
    T += [pt() for _ in range(n - len(T))]
    rng.shuffle(T)
    r = rng.random()
    if r < 0.15 and flavour != "tol":          # a point on the diagonal keeps its own row and index
        A = rng.choice([S, T])
        A.insert(rng.randint(0, len(A)), [3.0, 3.0])
    elif r < 0.3:                               # an infinite bar is dropped first: the indices shift
        A = rng.choice([S, T])
        A.insert(rng.randint(0, len(A)), [1.0, "inf"])
    if (rng.random() < 0.5) if big_first is None else (not big_first):
        S, T = T, S
    return {"cls": "sized", "family": "tol" if flavour == "tol" else "exact", "S": S, "T": T,
            "rep": rng.choice(["array", "array", "array", "list"]), "block": B, "shape": shape}


def _sized_cases(rng, tier):
    out = []
    if tier == "quick":
        # every block once balanced (cycling through the flavours), plus lopsided / one-side cases
        for k, B in enumerate(BLOCKS_QUICK):
            out.append(_sized_case(rng, B, "balanced", flavour=("grid", "ties", "grid", "tol")[(k + rng.randint(0, 3)) % 4]))
        # one diagram alone next to the block, as dgm1 and as dgm2
        for B in (48, 64):
            first = rng.choice(["lopsided", "side"])
            out.append(_sized_case(rng, B, first, big_first=True))
            out.append(_sized_case(rng, B, "side" if first == "lopsided" else "lopsided", big_first=False))
        out.append(_sized_case(rng, rng.choice([16, 32]), rng.choice(["lopsided", "side"])))
        out.append(_sized_case(rng, 48, "balanced", flavour="grid"))
    else:
        for B in BLOCKS_THOROUGH:
            for shape in ("balanced", "balanced", "lopsided", "side"):
                for _ in range(3 if B <= 64 else 1):
                    out.append(_sized_case(rng, B, shape))
    return out


# ---- additional columns after (birth, death) ----------------------------------------------------
# Both docstrings allow "other coordinate columns"; the bottleneck cost rule reads (birth, death) only.  An
# `xcols` case carries, beside S and T (the (birth, death) points the specification is evaluated on), the
# rows of k extra columns per diagram (xS, xT).  Flavours of the extra columns:
#   const : one value everywhere (a homology-dimension column) - handed to BOTH distances
#   side  : constant within a diagram, different between the two (a "which diagram" label)
#   index : the row number (a generator index)          mult : small integers (multiplicities)
#   big   : values far larger than the bars             near : the birth or death column plus a small offset
# Anything but `const` differs between the points of a pair, and persim.wasserstein's point-to-point cost
# reads every column, so those go to the bottleneck only (wasserstein gets the two-column diagrams).
XCOL_FLAVOURS = ("const", "const", "side", "index", "mult", "mult", "big", "near")
XCOL_BASES = ("generic", "generic", "repeated", "ties", "permuted", "permuted", "diagonal", "inf", "empty_side", "tol", "near_tie")
OWN_REPS = ("array", "array", "array", "list", "tuple", "fortran", "readonly", "view")


def _xrows(rng, P, flavour, k, which):
    rows = []
    for i, (b, d) in enumerate(P):
        if flavour == "const":
            r = [1.0] * k
        elif flavour == "side":
            r = [float(which + c) for c in range(k)]
        elif flavour == "index":
            r = [float(i + c) for c in range(k)]
        elif flavour == "mult":
            r = [float(rng.randint(0, 4)) for _ in range(k)]
        elif flavour == "big":
            r = [float(rng.randint(-4000, 4000)) / 4.0 for _ in range(k)]
        else:           # near
            r = [float(b) + rng.choice([-0.5, 0.25, 1.0, 3.0]) for _ in range(k)]
        rows.append(r)
    return rows


def _xcols_case(rng, maxn, base=None, flavour=None):
    c = c01._gen_case(rng, base or rng.choice(XCOL_BASES), maxn)
    flavour = flavour or rng.choice(XCOL_FLAVOURS)
    k = rng.choice([1, 1, 1, 2, 3])
    return {"cls": "xcols", "own": True, "family": c["family"], "S": c["S"], "T": c["T"],
            "xS": _xrows(rng, c["S"], flavour, k, 0), "xT": _xrows(rng, c["T"], flavour, k, 1),
            "xw": flavour == "const", "xflavour": flavour, "rep": rng.choice(OWN_REPS),
            "order": rng.choice(["FM", "MF"])}


# ---- call histories ------------------------------------------------------------------------------
# (harness/history.py)  All calls of one history run in one interpreter (a forked copy of the runner, so that a
# history's outcome depends on its own steps only).  Equal-valued diagrams of different steps are THE SAME
# objects unless a step asks for a fresh copy; after every single call the values are copied out and whatever
# persim returned is overwritten in place (history.scribble): the caller owns what it got back, so a result
# cache that hands out its stored array, or a view of internal state, shows in a later call.
VARIANTS = ("swap", "repair", "grid", "tiny", "tail", "head")


def _variant(rng, P, sc, fam, mode=None):
    """An almost-equal diagram of the same shape.  swap: two points exchanged (same multiset, other indices);
    repair: two points exchange their deaths (same column sums); grid / tiny: one death moved by a grid step / by
    sc*2^-20..2^-40 (exactly representable); tail / head: the last / first point replaced."""
    Q = [list(p) for p in P]
    fin = [i for i, p in enumerate(Q) if p[1] != "inf"]
    if not fin:
        return Q + [[0.0, sc]]
    mode = mode or rng.choice(VARIANTS)
    if mode in ("swap", "repair") and len(fin) >= 2:
        pairs = [(i, j) for i in fin for j in fin if i < j and Q[i] != Q[j]]
        rng.shuffle(pairs)
        for i, j in pairs:
            if mode == "swap":
                Q[i], Q[j] = Q[j], Q[i]
                return Q
            if Q[i][1] != Q[j][1] and Q[i][0] <= Q[j][1] and Q[j][0] <= Q[i][1]:
                Q[i][1], Q[j][1] = Q[j][1], Q[i][1]
                return Q
    if mode in ("tail", "head"):
        i = fin[-1] if mode == "tail" else fin[0]
        b = Q[i][0] + rng.choice([-2, -1, 1, 2]) * sc / 4.0
        Q[i] = [b, b + rng.randint(0, 8) * sc / 4.0]
        if Q != P:
            return Q
    i = rng.choice(fin)
    Q[i][1] = Q[i][1] + (sc / 4.0 if mode != "tiny" else sc * 2.0 ** -rng.choice([20, 30, 40]))
    return Q


def _pool(rng):
    fam = "tol" if rng.random() < 0.2 else "exact"
    sc = 2.0 ** rng.randint(-3, 3)
    if fam == "tol":
        def rp():
            b = rng.uniform(-2, 5)
            return [b, b + rng.choice([rng.uniform(0, 3), rng.uniform(0, 0.05)])]
        pool = [[rp() for _ in range(rng.randint(1, 5))] for _ in range(rng.randint(2, 3))]
        if rng.random() < 0.4:
            pool.append([])
    else:
        pool = [c01._side(rng, rng.choice(c01.SIDE_KINDS), sc) for _ in range(rng.randint(1, 2))]
        pool += [c01._dgm(rng, rng.randint(1, 5), sc) for _ in range(rng.randint(1, 2))]
        if rng.random() < 0.5:
            pool.append(c01._dgm(rng, rng.randint(2, 4), sc, krange=(0, 4), maxlen=4))     # many equal costs
    base = rng.choice([P for P in pool if P] or pool)
    pool.append(_variant(rng, base, sc, fam))
    rng.shuffle(pool)
    return fam, sc, pool


def _histories(rng, n):
    """Kinds
      again    : one pair asked for again and again - on the same objects, on fresh equal-valued copies, with the
                 arguments exchanged, matching=True before / after matching=False
      pairwise : ordered pairs over a pool of 3-5 diagrams (one of them an almost-equal variant of another,
                 one pair being a diagram against itself), the first pairs asked again at the end
      nearby   : a diagram P, two or three almost-equal variants of it (VARIANTS) and another diagram Q:
                 (P,Q), (V1,Q), (V2,Q), (P,Q), (Q,V1), (Q,P), (V3,Q) - equal shapes, equal sums, equal first or last
                 points, differences far below single precision
      slot     : the caller's own buffer overwritten in place between calls (same object, new values, and back)
      fault    : a call that raises half-way (malformed argument; or non-finite deaths while warnings are errors)
                 between clean calls on the same objects
    A pool either has no extra columns or every diagram of it carries k of them (see xcols)."""
    hs = []
    kinds = ["again", "pairwise", "nearby", "slot", "fault"]
    off = rng.randrange(5)
    for h in range(n):
        kind = kinds[(h + off) % 5]          # every kind in every run
        fam, sc, pool = _pool(rng)
        k = rng.choice([0, 0, 0, 1, 2]) if kind != "slot" else 0
        xfl = rng.choice(XCOL_FLAVOURS)
        xs = [(_xrows(rng, P, xfl, k, w) if k else None) for w, P in enumerate(pool)]
        reps = [rng.choice(OWN_REPS) for _ in pool]
        K = len(pool)

        def st(i, j, **kw):
            c = {"cls": "step", "own": True, "family": fam, "S": pool[i], "T": pool[j], "repS": reps[i], "repT": reps[j],
                 "order": rng.choice(["FM", "MF"])}
            if k:
                c["xS"], c["xT"], c["xw"], c["xflavour"] = xs[i], xs[j], xfl == "const", xfl
            c.update(kw)
            return c
        i, j = rng.randrange(K), rng.randrange(K)
        if kind == "again":
            steps = [st(i, j), st(i, j), st(i, j, fresh=[True, True]), st(j, i), st(i, j, fresh=[rng.random() < 0.5, False]),
                     st(rng.randrange(K), j)]
        elif kind == "pairwise":
            pairs = [(a, b) for a in range(K) for b in range(K)]
            rng.shuffle(pairs)
            pairs = pairs[:4]
            a = rng.randrange(K)
            pairs.insert(rng.randint(1, len(pairs)), (a, a))
            steps = [st(a, b) for a, b in pairs] + [st(*pairs[0]), st(*pairs[1], fresh=[True, True])]
        elif kind == "nearby":
            cand = [a for a in range(K) if len(c01.finite_points(pool[a])) >= 2] or list(range(K))
            i = rng.choice(cand)
            modes = rng.sample(VARIANTS, 3)
            for md in modes:
                pool.append(_variant(rng, pool[i], sc, fam, md))
                xs.append(_xrows(rng, pool[-1], xfl, k, i) if k else None)
                reps.append(reps[i])
            v1, v2, v3 = K, K + 1, K + 2
            steps = [st(i, j), st(v1, j), st(v2, j), st(i, j), st(j, v1), st(j, i), st(v3, j)]
        elif kind == "slot":
            m = rng.randint(1, 4)
            if fam == "tol":
                vals = [[[b, b + rng.uniform(0, 3)] for b in (rng.uniform(-2, 5) for _ in range(m))] for _ in range(2)]
            else:
                vals = [c01._dgm(rng, m, sc) for _ in range(2)]
            vals.append(_variant(rng, vals[0], sc, fam))
            vals = [v for v in vals if len(v) == m and not c01._has_inf(v)]
            side = rng.choice([0, 1])
            order = [0, 1, 0, 2 % len(vals), 1]

            def sl(v):
                c = st(j, j, order=rng.choice(["FM", "MF"]))
                c["ST"[side]] = vals[v]
                c["rep" + "ST"[side]] = "array"
                c["slots"] = ["buf", None] if side == 0 else [None, "buf"]
                return c
            steps = [sl(v) for v in order]
        else:
            P = pool[i]
            if rng.random() < 0.35:
                # non-finite deaths while the caller runs with warnings as errors: the call raises after part of the work
                Pi = [list(p) for p in P] + [[0.0, "inf"]]
                f = st(i, j, fault=True, warn_error=True)
                f["S"] = Pi
                if k:
                    f["xS"] = (xs[i] or []) + [[0.0] * k]
            else:
                bad = rng.choice([[[0.0, 1.0], [2.0]], [0.0, 1.0, 2.0], [["a", "b"]], None, [[0.0], [1.0]], 3.5,
                                  [[0.0, 1.0], [2.0, None]]])
                f = st(i, j, fault=True)
                f["raw" + rng.choice("ST")] = bad
            steps = [st(i, j), f, st(i, j), st(j, i), st(rng.randrange(K), rng.randrange(K))]
        hs.append(history.make(kind, steps))
    return hs


def generate(rng, tier):
    n_cases, maxn = (200, 6) if tier == "quick" else (2000, 16)
    cases = [_dtype_case(rng, 5) for _ in range(24 if tier == "quick" else 240)]
    for _ in range(n_cases):
        cls = rng.choice(c01.CLASSES)
        mx = maxn
        if tier != "quick" and rng.random() < 0.7:
            mx = 7
        cases.append(c01._gen_case(rng, cls, mx))
    # last, so that the stream of the classes above is the one the earlier evidence was produced with
    cases += _sized_cases(rng, tier)
    quick = tier == "quick"
    cases += [_xcols_case(rng, 5 if quick else 8) for _ in range(24 if quick else 300)]
    cases += _histories(rng, 15 if quick else 150)
    return cases


def search_generate(rng, n):
    out = []
    for i in range(n):
        if i % 6 == 5:
            out.append(_dtype_case(rng, 3))
        elif i % 8 == 3:
            out.append(_xcols_case(rng, rng.choice([2, 3, 4])))
        elif i % 16 == 7:
            out += _histories(rng, 1)
        else:
            out.append(c01._gen_case(rng, rng.choice(c01.CLASSES), rng.choice([1, 2, 3, 4])))
    return out


def corpus():
    import json
    out = [
        {"S": [], "T": [], "family": "exact", "rep": "array"},
        {"S": [[0.0, 2.0]], "T": [], "family": "exact", "rep": "array"},
        {"S": [], "T": [[-3.0, -1.0], [2.0, 2.0]], "family": "exact", "rep": "list"},
        # identical diagrams: every optimal matching is a permutation with all costs 0
        {"S": [[0.0, 2.0], [1.0, 4.0], [1.0, 4.0]], "T": [[1.0, 4.0], [0.0, 2.0], [1.0, 4.0]], "family": "exact", "rep": "array"},
        # zero-persistence points must keep their own row and index
        {"S": [[1.0, 1.0], [0.0, 3.0], [2.0, 2.0]], "T": [[0.0, 3.5], [5.0, 5.0]], "family": "exact", "rep": "array"},
        # mixed cross / diagonal pairings, unequal sizes
        {"S": [[0.0, 4.0], [1.0, 1.25]], "T": [[3.0, 3.5], [0.25, 4.0], [2.0, 2.5]], "family": "exact", "rep": "array"},
        {"S": [[0.0, 4.0], [1.0, "inf"]], "T": [[0.5, 4.5], [0.0, "inf"], [2.0, "inf"]], "family": "exact", "rep": "array"},
        {"S": [[0.0, "inf"]], "T": [[0.0, 2.0]], "family": "exact", "rep": "array"},
        # narrow / unsigned input dtypes: |3-100| wraps to 159 in uint8, 100-(-100) overflows int8
        {"S": [[3.0, 200.0]], "T": [[100.0, 120.0]], "family": "exact", "rep": "array", "dtype": ["uint8", "uint8"]},
        {"S": [[-100.0, 100.0]], "T": [[90.0, 110.0]], "family": "exact", "rep": "array", "dtype": ["int8", "int8"]},
        {"S": [[-100.0, 100.0]], "T": [], "family": "exact", "rep": "array", "dtype": ["int8", "int8"]},
    ]
    d = core.VERIF / "corpus" / PID
    if d.is_dir():
        for p in sorted(d.glob("*.json")):
            try:
                c = json.loads(p.read_text())
                out.append(c.get("case", c))
            except Exception:
                pass
    return out


# ------------------------------------------------------------------------------------ implementation
def _w_case(c):
    w = {"S": c["S"], "T": c["T"], "as_list": c.get("rep") == "list"}
    if c.get("dtype"):
        w["dtype"] = c["dtype"]
        w["as_list"] = False
    return w


def _is_own(c):
    return history.is_hist(c) or bool(c.get("own"))


OWN_TIMEOUT_S = 8.0


class _OwnTimeout(BaseException):
    pass


def _on_alarm(signum, frame):
    raise _OwnTimeout()


def _mk(P, X, rep):
    """The diagram P (with the rows X of extra columns, if any) in the container / layout `rep`."""
    import numpy as np
    rows = [[float(b), float("inf") if d == "inf" else float(d)] + ([float(x) for x in X[i]] if X else [])
            for i, (b, d) in enumerate(P)]
    if rep == "list":
        return rows
    if rep == "tuple":
        return tuple(tuple(r) for r in rows)
    w = len(rows[0]) if rows else 2
    A = np.array(rows, dtype=float).reshape(-1, w)
    if rep == "fortran":
        return np.asfortranarray(A)
    if rep == "view":           # rows 1,3,5,.. and columns 1..w of a larger buffer
        big = np.full((2 * A.shape[0] + 1, w + 2), 777.25)
        big[1::2, 1:1 + w] = A
        return big[1::2, 1:1 + w]
    if rep == "readonly":
        A.setflags(write=False)
    return A


def _x_for_wass(c):
    """The extra columns go to wasserstein only when they cannot enter its point-to-point cost: one and the same
    row of extra values on every point of both diagrams, and no empty side (the (0,0) stand-in has two columns)."""
    if not c.get("xw"):
        return False
    fin = [[x for p, x in zip(c[k], c.get("x" + k) or []) if p[1] != "inf"] for k in ("S", "T")]
    if not fin[0] or not fin[1] or len(fin[0]) != len(c01.finite_points(c["S"])) or len(fin[1]) != len(c01.finite_points(c["T"])):
        return False
    return all(x == fin[0][0] for x in fin[0] + fin[1])


def _own_args(c, memo, wass):
    import numpy as np
    out = []
    rS, rT = c.get("repS", c.get("rep", "array")), c.get("repT", c.get("rep", "array"))
    with_x = (not wass) or _x_for_wass(c)
    for side, (key, rep) in enumerate((("S", rS), ("T", rT))):
        P = c[key]
        X = c.get("x" + key) if with_x else None
        X = X if X and len(X) == len(P) else None
        slot = (c.get("slots") or [None, None])[side]
        if slot is not None:
            new = _mk(P, X, "array")
            old = memo.get("slot:" + slot)
            if isinstance(old, np.ndarray) and old.shape == new.shape and old.flags.writeable:
                if not np.array_equal(old, new):
                    old[...] = new
                out.append(old)
            else:
                memo["slot:" + slot] = new
                out.append(new)
        elif (c.get("fresh") or [False, False])[side]:
            out.append(_mk(P, X, rep))
        else:
            out.append(history.intern(memo, ["dgm", P, X, rep], lambda: _mk(P, X, rep)))
    if c.get("fault"):
        if "rawS" in c:
            out[0] = c["rawS"]
        if "rawT" in c:
            out[1] = c["rawT"]
    return out


def _own_half(fn, A, B, c):
    """fn(A, B) and fn(A, B, matching=True) in the order the case asks for; after each call the values are copied
    out and everything persim returned is overwritten in place."""
    import warnings
    import numpy as np
    o = {}
    try:
        with warnings.catch_warnings():
            warnings.simplefilter("error" if c.get("warn_error") else "ignore")
            for flag in c.get("order", "FM"):
                if flag == "F":
                    r = fn(A, B)
                    o["dist"] = float(r)
                else:
                    r = fn(A, B, matching=True)
                    d1, rows = r
                    o["dist_m"] = float(d1)
                    o["rows"] = [[float(x) for x in row] for row in np.asarray(rows, dtype=float).reshape(-1, 3)]
                history.scribble(r)
                del r
    except Exception as e:  # noqa  (_OwnTimeout is not an Exception: it ends the whole case)
        return {"error": type(e).__name__, "msg": str(e)[:300]}
    return o


def _own_call(c, memo=None):
    """One case of the module's own runner (call histories, extra columns): both distances on the case's diagrams."""
    import signal
    import sys
    memo = {} if memo is None else memo
    bfun = sys.modules["persim.bottleneck"].bottleneck
    wfun = sys.modules["persim.wasserstein"].wasserstein
    signal.signal(signal.SIGALRM, _on_alarm)
    signal.setitimer(signal.ITIMER_REAL, OWN_TIMEOUT_S)
    try:
        Ab, Bb = _own_args(c, memo, False)
        Aw, Bw = _own_args(c, memo, True)
        return {"b": _own_half(bfun, Ab, Bb, c), "w": _own_half(wfun, Aw, Bw, c)}
    except _OwnTimeout:
        e = {"error": "Timeout", "msg": "no result within %g s (the search loop did not terminate)" % OWN_TIMEOUT_S}
        return {"b": e, "w": e}
    except Exception as e:  # noqa
        e = {"error": type(e).__name__, "msg": str(e)[:300]}
        return {"b": e, "w": e}
    finally:
        signal.setitimer(signal.ITIMER_REAL, 0)


def _impl_plain(cases):
    """Both distances, with and without the matching (the C01 / C02 runners: they also monitor the
    external routines and guard against a non-terminating search).  Cases of class dtype hand the
    diagrams over as arrays of the requested dtype (to both functions)."""
    import numpy as np
    want = {}
    for c in cases:
        if c.get("dtype"):
            want[id(c["S"])] = c["dtype"][0]
            want[id(c["T"])] = c["dtype"][1]
    real_arr = c01._arr

    def arr(P, rep):
        dt = want.get(id(P))
        if dt is None or any(d == "inf" for _, d in P):
            return real_arr(P, rep)
        dt = np.dtype(dt)
        vals = [[float(b), float(d)] for b, d in P] if dt.kind == "f" else [[int(b), int(d)] for b, d in P]
        return np.array(vals, dtype=dt).reshape(-1, 2) if P else np.array([], dtype=dt)
    # The plain cases of a batch share one interpreter, so what one of them leaves behind can show in a later one,
    # and such a failure does not reproduce from its replay file.  Overwriting returned objects is therefore done
    # where it reproduces - in the call histories above (own interpreter each) - and switched off for this batch.
    real_scribble = history.scribble
    c01._arr = arr
    history.scribble = lambda *a, **k: None
    try:
        ob = c01.impl_run(cases)
        ow = c02.impl_run([_w_case(c) for c in cases])
    finally:
        c01._arr = real_arr
        history.scribble = real_scribble
    return [{"b": b, "w": w} for b, w in zip(ob, ow)]


def impl_run(cases):
    """Call histories and extra-column cases go through this module's own runner (_own_call), every history in a
    forked copy of the interpreter as it is before the first call; all other cases through the C01 / C02 runners."""
    import persim  # noqa: F401
    outs = [None] * len(cases)
    for i, c in enumerate(cases):
        if history.is_hist(c):
            outs[i] = c02._isolated(lambda c=c: history.run(c, _own_call))
        elif _is_own(c):
            outs[i] = c02._isolated(lambda c=c: _own_call(c))
    plain = [i for i, c in enumerate(cases) if not _is_own(c)]
    if plain:
        for i, o in zip(plain, _impl_plain([cases[i] for i in plain])):
            outs[i] = o
    return outs


# ------------------------------------------------------------------------------------ the property text
def _tol_b(c):
    return c01._tol(c)


def _rows_ok_shape(rows):
    return isinstance(rows, list) and all(isinstance(r, list) and len(r) == 3 for r in rows)


def predicate(c, o):
    if history.is_hist(c):
        return history.predicate(c, o, predicate)
    if "b" not in o or "w" not in o:
        return False, "error: %s: %s" % (o.get("error"), o.get("msg"))
    b, w = o["b"], o["w"]
    # ---- bottleneck
    if "error" in b:
        return False, "bottleneck-error: %s: %s" % (b["error"], b.get("msg"))
    if not _rows_ok_shape(b.get("rows")) or b.get("dist_m") is None or b.get("dist") is None:
        return False, "bottleneck-error: matching=True failed: %s" % (b.get("rows"),)
    if not (math.isfinite(b["dist"]) and math.isfinite(b["dist_m"])):
        return False, "bottleneck-flag: distances %r / %r are not finite" % (b["dist"], b["dist_m"])
    if abs(Fr(b["dist_m"]) - Fr(b["dist"])) > _tol_b(c):
        return False, "bottleneck-flag: matching=True returns %r, matching=False %r" % (b["dist_m"], b["dist"])
    ok, det = c01.bneck_cert_ok(c["S"], c["T"], b["dist_m"], b["rows"], tol=_tol_b(c))
    if not ok:
        return False, "bottleneck-" + det
    if b.get("oracle_bad"):
        return False, "bottleneck-oracle: HopcroftKarp %s" % b["oracle_bad"]
    # ---- Wasserstein
    if "error" in w:
        return False, "wasserstein-error: %s: %s" % (w["error"], w.get("msg"))
    if not _rows_ok_shape(w.get("rows")) or w.get("dist") is None or w.get("dist_m") is None:
        return False, "wasserstein-error: incomplete output %s" % (str(w)[:120],)
    if not (math.isfinite(w["dist"]) and math.isfinite(w["dist_m"])):
        return False, "wasserstein-flag: distances %r / %r are not finite" % (w["dist"], w["dist_m"])
    tolw = c02.tol_of(_w_case(c))
    if abs(Fr(w["dist_m"]) - Fr(w["dist"])) > tolw:
        return False, "wasserstein-flag: matching=True returns %r, matching=False %r" % (w["dist_m"], w["dist"])
    ok, det = c02.wass_cert_ok(c["S"], c["T"], w["dist_m"], w["rows"])
    if not ok:
        return False, "wasserstein-" + det
    if not str(w.get("oracle", "ok")).startswith("ok"):
        return False, "wasserstein-oracle: linear_sum_assignment monitor says %s" % w["oracle"]
    return True, ""


def nontrivial(c, o):
    if history.is_hist(c):
        return history.nontrivial(c, o, nontrivial)
    if "b" not in o or "w" not in o:
        return False
    b, w = o["b"], o["w"]
    if "error" in b or "error" in w or not _rows_ok_shape(b.get("rows")):
        return False
    if not c01.finite_points(c["S"]) or not c01.finite_points(c["T"]) or c01._has_inf(c["S"]) or c01._has_inf(c["T"]):
        return True
    for rows in (b["rows"], w["rows"]):
        cross = any(r[0] >= 0 and r[1] >= 0 for r in rows)
        dg = any(r[0] < 0 or r[1] < 0 for r in rows)
        if cross and dg:
            return True
    return False


# ------------------------------------------------------------------------------------ the checkers, run inside Coq
def _int_rows(rows):
    return _rows_ok_shape(rows) and all(all(math.isfinite(x) for x in r) and r[0] == int(r[0]) and r[1] == int(r[1])
                                        for r in rows)


def coq_jobs(cases, outs):
    return []


def coq_judge(cases, outs, results):
    """One verdict per case; a call history gets the worst verdict of its (non-fault) steps."""
    units, owner = [], []
    for i, (c, o) in enumerate(zip(cases, outs)):
        if history.is_hist(c):
            for u in history.flatten([c], [o]):
                units.append(u)
                owner.append(i)
        else:
            units.append((c, o))
            owner.append(i)
    uv = _judge_units([u[0] for u in units], [_norm_out(u[1]) for u in units])
    per = {}
    for i, v in zip(owner, uv):
        per.setdefault(i, []).append(v)
    verdicts = []
    for i, c in enumerate(cases):
        vs = per.get(i, [])
        if not history.is_hist(c):
            verdicts.append(vs[0])
            continue
        bad = [v for v in vs if v.startswith("disagree")] or [v for v in vs if v.startswith("skip")]
        if not vs:
            verdicts.append("disagree:history produced no step outputs")
        elif bad:
            verdicts.append(bad[0].replace(":", ":history step: ", 1))
        else:
            verdicts.append("agree")
    return verdicts


def _norm_out(o):
    if isinstance(o, dict) and "b" in o and "w" in o:
        return o
    e = {"error": (o or {}).get("error", "harness"), "msg": (o or {}).get("msg")} if isinstance(o, dict) else {"error": "harness"}
    return {"b": e, "w": e}


def _judge_units(cases, outs):
    n = len(cases)
    vb = ["disagree:bottleneck rows not expressible (%s)" % str(o["b"])[:100] for o in outs]
    vw = ["disagree:wasserstein rows not expressible (%s)" % str(o["w"])[:100] for o in outs]
    tb, ib, tw, iw = [], [], [], []
    for i, (c, o) in enumerate(zip(cases, outs)):
        b, w = o["b"], o["w"]
        if "error" not in b and b.get("dist_m") is not None and math.isfinite(b["dist_m"]) and _int_rows(b.get("rows")):
            tb.append(c01.coq_cert_term(c, b["dist_m"], b["rows"], tol=_tol_b(c)))
            ib.append(i)
        t = c02.cert_term(_w_case(c), w)
        if t is not None:
            tw.append(t)
            iw.append(i)
    chunk_b = max(8, (len(tb) + core.NPROC - 1) // core.NPROC)
    toks, _ = core.eval_cases(PID, c01.HEADER, tb, chunk=chunk_b, tag="bcert")
    for i, t in zip(ib, toks):
        vb[i] = "agree" if t == "true" else ("disagree:bottleneck rows are not a certificate for the distance (Coq checker)"
                                              if t == "false" else "skip:coq evaluation failed (%s)" % t)
    chunk_w = max(8, (len(tw) + core.NPROC - 1) // core.NPROC)
    toks, _ = core.eval_cases(PID, c02.HEADER, tw, chunk=chunk_w, tag="wcert")
    for i, t in zip(iw, toks):
        vw[i] = "agree" if t == "true" else ("disagree:wasserstein rows are not a certificate for the distance (Coq checker)"
                                              if t == "false" else "skip:coq evaluation failed (%s)" % t)
    out = []
    for i in range(n):
        for v in (vb[i], vw[i]):
            if v.startswith("disagree"):
                out.append(v)
                break
        else:
            out.append(vb[i] if vb[i].startswith("skip") else vw[i])
    return out


def finding_of(c, o, detail):
    """Bottleneck computed in the input dtype (unsigned wrap-around / narrow-int overflow): only an
    instance of the finding when the case is of the dtype class and the bottleneck half is what fails."""
    if c.get("dtype") and any(d in ("uint8", "uint16", "int8", "int16", "int32") for d in c["dtype"]) \
            and detail.startswith("bottleneck-"):
        return "C01-bottleneck-input-dtype"
    return None


# ------------------------------------------------------------------------------------ shrinking
def _drop(c, key, i, w):
    """c without the points i..i+w-1 of one diagram (and their extra-column rows); None when that would empty a
    diagram that carries extra columns (an empty diagram has no columns: a different situation)."""
    if c.get("x" + key) and len(c[key]) <= w:
        return None
    d = dict(c)
    d[key] = c[key][:i] + c[key][i + w:]
    x = c.get("x" + key)
    if x and len(x) == len(c[key]):
        d["x" + key] = x[:i] + x[i + w:]
    return d


def shrink_candidates(c):
    if history.is_hist(c):
        yield from history.shrink(c)
        if len(c["seq"]) == 1 and not c["seq"][0].get("fault"):
            yield c["seq"][0]          # one step left: not a history effect, report the single call
        # plainer steps: no extra columns, default order, no fresh copies
        for k in ("xS", "order", "fresh", "repS"):
            if any(k in s for s in c["seq"]):
                d = dict(c)
                drop = {"xS": ("xS", "xT", "xw", "xflavour"), "repS": ("repS", "repT")}.get(k, (k,))
                d["seq"] = [{a: b for a, b in s.items() if a not in drop or (s.get("fault") and a in ("xS", "xT"))}
                            for s in c["seq"]]
                if d["seq"] != c["seq"]:
                    yield d
        return
    if c.get("xS") is not None or c.get("xT") is not None:
        # without the extra columns: then it is not an effect of them
        yield {k: v for k, v in c.items() if k not in ("xS", "xT", "xw", "xflavour")}
    # large diagrams first lose blocks of points (halves, quarters, ...), then single points: a failure that
    # needs a minimum size ends at that size after a logarithmic number of runs plus one scan
    for key in ("S", "T"):
        n = len(c[key])
        w = n // 2
        while w >= 2:
            for i in range(0, n, w):
                d = _drop(c, key, i, w)
                if d is not None:
                    yield d
            w //= 2
    for key in ("S", "T"):
        if len(c[key]) > 16:        # small blocks have been tried; a point-by-point scan of a large diagram
            continue                # costs one interpreter start per point and gains little
        for i in range(len(c[key])):
            d = _drop(c, key, i, 1)
            if d is not None:
                yield d
    if c.get("rep", "array") != "array" or c.get("repS") or c.get("repT"):
        d = {k: v for k, v in c.items() if k not in ("repS", "repT")}
        d["rep"] = "array"
        yield d
    if c.get("own") and c.get("order", "FM") != "FM":
        d = dict(c)
        d["order"] = "FM"
        yield d
    for key in ("xS", "xT"):        # fewer extra columns
        x = c.get(key)
        if x and len(x[0]) > 1:
            d = dict(c)
            d["xS"] = [r[:1] for r in c.get("xS") or []]
            d["xT"] = [r[:1] for r in c.get("xT") or []]
            yield d
            break
    if c.get("dtype"):
        for side in (0, 1):
            if c["dtype"][side] != "float64":
                d = dict(c)
                d["dtype"] = list(c["dtype"])
                d["dtype"][side] = "float64"
                yield d
