"""C06 - Returned matchings certify the reported bottleneck / Wasserstein distance.

Theorems: coq/Properties/C06.v (for every maximum-matching routine resp. every optimal-assignment
solver the rows returned by the models of bottleneck.py:120-133 and wasserstein.py:98-108 are a
certificate for the returned distance, the distance does not depend on the flag, and the boolean
certificate checkers are sound).

Tie: on every run persim.bottleneck and persim.wasserstein are called with matching=False and
matching=True on the same seeded diagram pairs, under several PYTHONHASHSEEDs (the matching that
HopcroftKarp returns depends on set order).  The implementation's rows are never compared with a
model matching (any optimal matching is acceptable); they are judged
  * by the certificate predicate of the property text in pure Python (c01.bneck_cert_ok,
    c02.wass_cert_ok), and
  * by the verified checkers evaluated inside Coq on the exact rationals
    (Corr/BneckCorr.bneck_cert_case: exactly in the exact family, within 2^-50 relative in the
    tolerance family; Corr/WassCorr.cert_case: sqrt enclosures, 1e-9 relative).
"""
import math
from fractions import Fraction as Fr

from .. import core
from . import c01, c02

PID = "C06"
THEOREMS = [
    "bottleneck_matching_cert", "bottleneck_matching_flag_irrelevant", "bottleneck_cert_checker_sound",
    "wasserstein_matching_flag_irrelevant", "wasserstein_matching_cert", "wasserstein_cert_checker_sound",
]
RULE = ("seeded generator shared with C01: exact family (coordinates (k/4)*2^s) and tolerance family (random doubles), "
        "classes {generic, empty_side, both_empty, repeated, diagonal, ties, inf, scale, near_tie, permuted, big, tol} "
        "plus C02's input-dtype class (integer-valued diagrams as uint8..float64 arrays, spec on the values), "
        "sizes 0-6 per side (quick) / up to 16 (thorough); plus class sized: the total M+N, or one diagram alone, "
        "at B-1..B+3 for block sizes B in {16,32,48,64} (quick, 10 pairs: every block balanced, 48 and 64 also with "
        "one diagram alone next to the block as dgm1 and as dgm2, the other side 0-7 points or about B/2) / "
        "{16,..,128} (thorough, 56 pairs), exact quarter grid, narrow half-integer grid (many ties) or random doubles, "
        "half of the smaller diagram moved copies of points of the other, now and then an infinite bar or a "
        "diagonal point; every batch under PYTHONHASHSEED 0,1,2; both distances are "
        "called with matching=False and matching=True. A case is non-trivial when both calls succeed and either one of "
        "the two returned matchings contains a cross pairing and a diagonal pairing, or an empty-diagram / "
        "infinite-death branch is exercised; distinct = distinct JSON input")
TRUSTED_BASE = [
    "Coq 8.16.1 kernel, vm_compute (no native_compute)",
    "bottleneck half: closed under the global context; Wasserstein half: stdlib axioms of the classical reals "
    "(ClassicalDedekindReals.sig_forall_dec, sig_not_dec, functional_extensionality_dep) and Classical_Prop.classic",
    "hand-written models Model/BneckM.v (bottleneck.py lines 50-135) and Model/WassM.v (wasserstein.py lines 46-110)",
    "hypotheses on external code: HopcroftKarp returns a maximum matching; linear_sum_assignment returns an optimal "
    "assignment (both monitored on every real call by the C01 / C02 runners reused here)",
    "harness: generator, float->exact-rational printer, verdict parser; the certificate predicate in Python",
]
ASSUMPTIONS = [
    "numpy semantics of the row re-indexing (boolean masks, fancy indexing) are as modelled",
    "diagrams have birth <= death (the property speaks of persistence diagrams)",
    "bottleneck exact family: every float operation is exact on the dyadic grid (costs compared exactly); "
    "tolerance family and all Wasserstein costs: rounding bounded by the stated tolerances, not proved",
]
HASHSEEDS = ["0", "1", "2"]
HASHSEEDS_THOROUGH = ["0", "1", "2", "3", "7", "11", "42", "1234"]
COQ_DEPS = ["Corr/BneckCorr.vo", "Corr/WassCorr.vo"]


# ------------------------------------------------------------------------------------ cases
def _dtype_case(rng, nmax):
    """C02's input-dtype class (integer-valued diagrams as uint8 ... float64 arrays) in C01's case format."""
    c = c02._dtype_case(rng, nmax)
    return {"cls": "dtype", "family": "exact", "S": c["S"], "T": c["T"], "rep": "array", "dtype": c["dtype"]}


# ---- sizes just above typical block sizes -------------------------------------------------------
# Both routines work on the (M+N) x (M+N) augmented matrix, so a size-dependent code path (a compiled
# matching / assignment routine from some node count on, chunked row extraction, a blocked cost matrix)
# can key on M+N as well as on M or N alone.  `sized` cases put the total, or one side on its own, at
# B-1, B, B+1, B+2, B+3 for B in BLOCKS, in three shapes: balanced, lopsided (0-5 points on the small
# side; 0 = the empty-diagram stand-in) and one side alone above the block.
BLOCKS_QUICK = (16, 32, 48, 64)
BLOCKS_THOROUGH = (16, 32, 48, 64, 96, 128)
SIZED_FLAVOURS = ("grid", "grid", "ties", "tol")


def _sized_shape(rng, B, shape):
    K = B + rng.choice([-1, 0, 1, 1, 2, 3])
    if shape == "balanced":
        m = K // 2 + rng.choice([0, 0, 1, -1])
        n = K - m
    elif shape == "lopsided":
        n = rng.choice([0, 1, 2, 3, 5])
        m = K - max(1, n)            # an empty side counts as the one-point stand-in
    else:                            # "side": one diagram alone crosses the block
        m = K
        n = rng.choice([rng.randint(2, 7), B // 2 + 1, B // 4])
    return m, n


def _sized_case(rng, B, shape, flavour=None, big_first=None):
    """One diagram pair with M+N (or M alone) next to the block size B.  About half of the smaller diagram
    are moved copies of points of the other one and the rest is independent, so that the optimal matchings
    mix cross and diagonal pairings.  Flavours: grid = exact family on the quarter grid (wide range, few
    ties); ties = exact family on a narrow half-integer grid (many equal costs, many optimal matchings);
    tol = random doubles."""
    flavour = flavour or rng.choice(SIZED_FLAVOURS)
    m, n = _sized_shape(rng, B, shape)
    if flavour == "tol":
        def pt():
            b = rng.uniform(-5, 35)
            return [b, b + rng.choice([rng.uniform(0, 10), rng.uniform(0, 0.05), rng.uniform(0, 2)])]

        def moved(p):
            e = rng.choice([0.3, 0.02, 1.5])
            return [p[0] + rng.uniform(-e, e), p[1] + abs(rng.uniform(-e, e))]
    else:
        kr, ml, q = ((0, 160), 40, 4.0) if flavour == "grid" else ((0, 40), 40, 2.0)

        def pt():
            b = rng.randint(*kr)
            return [b / q, (b + rng.randint(0, ml)) / q]

        def moved(p):
            return [p[0] + rng.randint(-4, 4) / q, p[1] + rng.randint(0, 4) / q]
    S = [pt() for _ in range(m)]
    T = [moved(p) for p in rng.sample(S, min(m, n) // 2)] if m and n else []
    T += [pt() for _ in range(n - len(T))]
    rng.shuffle(T)
    r = rng.random()
    if r < 0.15 and flavour != "tol":          # a point on the diagonal keeps its own row and index
        A = rng.choice([S, T])
        A.insert(rng.randint(0, len(A)), [3.0, 3.0])
    elif r < 0.3:                               # an infinite bar is dropped first: the indices shift
        A = rng.choice([S, T])
        A.insert(rng.randint(0, len(A)), [1.0, "inf"])
    if (rng.random() < 0.5) if big_first is None else (not big_first):
        S, T = T, S
    return {"cls": "sized", "family": "tol" if flavour == "tol" else "exact", "S": S, "T": T,
            "rep": rng.choice(["array", "array", "array", "list"]), "block": B, "shape": shape}


def _sized_cases(rng, tier):
    out = []
    if tier == "quick":
        # every block once balanced (cycling through the flavours), plus lopsided / one-side cases
        for k, B in enumerate(BLOCKS_QUICK):
            out.append(_sized_case(rng, B, "balanced", flavour=("grid", "ties", "grid", "tol")[(k + rng.randint(0, 3)) % 4]))
        # one diagram alone next to the block, as dgm1 and as dgm2
        for B in (48, 64):
            first = rng.choice(["lopsided", "side"])
            out.append(_sized_case(rng, B, first, big_first=True))
            out.append(_sized_case(rng, B, "side" if first == "lopsided" else "lopsided", big_first=False))
        out.append(_sized_case(rng, rng.choice([16, 32]), rng.choice(["lopsided", "side"])))
        out.append(_sized_case(rng, 48, "balanced", flavour="grid"))
    else:
        for B in BLOCKS_THOROUGH:
            for shape in ("balanced", "balanced", "lopsided", "side"):
                for _ in range(3 if B <= 64 else 1):
                    out.append(_sized_case(rng, B, shape))
    return out


def generate(rng, tier):
    n_cases, maxn = (200, 6) if tier == "quick" else (2000, 16)
    cases = [_dtype_case(rng, 5) for _ in range(24 if tier == "quick" else 240)]
    for _ in range(n_cases):
        cls = rng.choice(c01.CLASSES)
        mx = maxn
        if tier != "quick" and rng.random() < 0.7:
            mx = 7
        cases.append(c01._gen_case(rng, cls, mx))
    # last, so that the stream of the classes above is the one the earlier evidence was produced with
    cases += _sized_cases(rng, tier)
    return cases


def search_generate(rng, n):
    return [(_dtype_case(rng, 3) if i % 6 == 5 else c01._gen_case(rng, rng.choice(c01.CLASSES), rng.choice([1, 2, 3, 4])))
            for i in range(n)]


def corpus():
    import json
    out = [
        {"S": [], "T": [], "family": "exact", "rep": "array"},
        {"S": [[0.0, 2.0]], "T": [], "family": "exact", "rep": "array"},
        {"S": [], "T": [[-3.0, -1.0], [2.0, 2.0]], "family": "exact", "rep": "list"},
        # identical diagrams: every optimal matching is a permutation with all costs 0
        {"S": [[0.0, 2.0], [1.0, 4.0], [1.0, 4.0]], "T": [[1.0, 4.0], [0.0, 2.0], [1.0, 4.0]], "family": "exact", "rep": "array"},
        # zero-persistence points must keep their own row and index
        {"S": [[1.0, 1.0], [0.0, 3.0], [2.0, 2.0]], "T": [[0.0, 3.5], [5.0, 5.0]], "family": "exact", "rep": "array"},
        # mixed cross / diagonal pairings, unequal sizes
        {"S": [[0.0, 4.0], [1.0, 1.25]], "T": [[3.0, 3.5], [0.25, 4.0], [2.0, 2.5]], "family": "exact", "rep": "array"},
        {"S": [[0.0, 4.0], [1.0, "inf"]], "T": [[0.5, 4.5], [0.0, "inf"], [2.0, "inf"]], "family": "exact", "rep": "array"},
        {"S": [[0.0, "inf"]], "T": [[0.0, 2.0]], "family": "exact", "rep": "array"},
        # narrow / unsigned input dtypes: |3-100| wraps to 159 in uint8, 100-(-100) overflows int8
        {"S": [[3.0, 200.0]], "T": [[100.0, 120.0]], "family": "exact", "rep": "array", "dtype": ["uint8", "uint8"]},
        {"S": [[-100.0, 100.0]], "T": [[90.0, 110.0]], "family": "exact", "rep": "array", "dtype": ["int8", "int8"]},
        {"S": [[-100.0, 100.0]], "T": [], "family": "exact", "rep": "array", "dtype": ["int8", "int8"]},
    ]
    d = core.VERIF / "corpus" / PID
    if d.is_dir():
        for p in sorted(d.glob("*.json")):
            try:
                c = json.loads(p.read_text())
                out.append(c.get("case", c))
            except Exception:
                pass
    return out


# ------------------------------------------------------------------------------------ implementation
def _w_case(c):
    w = {"S": c["S"], "T": c["T"], "as_list": c.get("rep") == "list"}
    if c.get("dtype"):
        w["dtype"] = c["dtype"]
        w["as_list"] = False
    return w


def impl_run(cases):
    """Both distances, with and without the matching (the C01 / C02 runners: they also monitor the
    external routines and guard against a non-terminating search).  Cases of class dtype hand the
    diagrams over as arrays of the requested dtype (to both functions)."""
    import numpy as np
    want = {}
    for c in cases:
        if c.get("dtype"):
            want[id(c["S"])] = c["dtype"][0]
            want[id(c["T"])] = c["dtype"][1]
    real_arr = c01._arr

    def arr(P, rep):
        dt = want.get(id(P))
        if dt is None or any(d == "inf" for _, d in P):
            return real_arr(P, rep)
        dt = np.dtype(dt)
        vals = [[float(b), float(d)] for b, d in P] if dt.kind == "f" else [[int(b), int(d)] for b, d in P]
        return np.array(vals, dtype=dt).reshape(-1, 2) if P else np.array([], dtype=dt)
    c01._arr = arr
    try:
        ob = c01.impl_run(cases)
    finally:
        c01._arr = real_arr
    ow = c02.impl_run([_w_case(c) for c in cases])
    return [{"b": b, "w": w} for b, w in zip(ob, ow)]


# ------------------------------------------------------------------------------------ the property text
def _tol_b(c):
    return c01._tol(c)


def _rows_ok_shape(rows):
    return isinstance(rows, list) and all(isinstance(r, list) and len(r) == 3 for r in rows)


def predicate(c, o):
    b, w = o["b"], o["w"]
    # ---- bottleneck
    if "error" in b:
        return False, "bottleneck-error: %s: %s" % (b["error"], b.get("msg"))
    if not _rows_ok_shape(b.get("rows")) or b.get("dist_m") is None:
        return False, "bottleneck-error: matching=True failed: %s" % (b.get("rows"),)
    if not (math.isfinite(b["dist"]) and math.isfinite(b["dist_m"])):
        return False, "bottleneck-flag: distances %r / %r are not finite" % (b["dist"], b["dist_m"])
    if abs(Fr(b["dist_m"]) - Fr(b["dist"])) > _tol_b(c):
        return False, "bottleneck-flag: matching=True returns %r, matching=False %r" % (b["dist_m"], b["dist"])
    ok, det = c01.bneck_cert_ok(c["S"], c["T"], b["dist_m"], b["rows"], tol=_tol_b(c))
    if not ok:
        return False, "bottleneck-" + det
    if b.get("oracle_bad"):
        return False, "bottleneck-oracle: HopcroftKarp %s" % b["oracle_bad"]
    # ---- Wasserstein
    if "error" in w:
        return False, "wasserstein-error: %s: %s" % (w["error"], w.get("msg"))
    if not (math.isfinite(w["dist"]) and math.isfinite(w["dist_m"])):
        return False, "wasserstein-flag: distances %r / %r are not finite" % (w["dist"], w["dist_m"])
    tolw = c02.tol_of(_w_case(c))
    if abs(Fr(w["dist_m"]) - Fr(w["dist"])) > tolw:
        return False, "wasserstein-flag: matching=True returns %r, matching=False %r" % (w["dist_m"], w["dist"])
    ok, det = c02.wass_cert_ok(c["S"], c["T"], w["dist_m"], w["rows"])
    if not ok:
        return False, "wasserstein-" + det
    if not str(w.get("oracle", "ok")).startswith("ok"):
        return False, "wasserstein-oracle: linear_sum_assignment monitor says %s" % w["oracle"]
    return True, ""


def nontrivial(c, o):
    b, w = o["b"], o["w"]
    if "error" in b or "error" in w or not _rows_ok_shape(b.get("rows")):
        return False
    if not c01.finite_points(c["S"]) or not c01.finite_points(c["T"]) or c01._has_inf(c["S"]) or c01._has_inf(c["T"]):
        return True
    for rows in (b["rows"], w["rows"]):
        cross = any(r[0] >= 0 and r[1] >= 0 for r in rows)
        dg = any(r[0] < 0 or r[1] < 0 for r in rows)
        if cross and dg:
            return True
    return False


# ------------------------------------------------------------------------------------ the checkers, run inside Coq
def _int_rows(rows):
    return _rows_ok_shape(rows) and all(all(math.isfinite(x) for x in r) and r[0] == int(r[0]) and r[1] == int(r[1])
                                        for r in rows)


def coq_jobs(cases, outs):
    return []


def coq_judge(cases, outs, results):
    n = len(cases)
    vb = ["disagree:bottleneck rows not expressible (%s)" % str(o["b"])[:100] for o in outs]
    vw = ["disagree:wasserstein rows not expressible (%s)" % str(o["w"])[:100] for o in outs]
    tb, ib, tw, iw = [], [], [], []
    for i, (c, o) in enumerate(zip(cases, outs)):
        b, w = o["b"], o["w"]
        if "error" not in b and b.get("dist_m") is not None and math.isfinite(b["dist_m"]) and _int_rows(b.get("rows")):
            tb.append(c01.coq_cert_term(c, b["dist_m"], b["rows"], tol=_tol_b(c)))
            ib.append(i)
        t = c02.cert_term(_w_case(c), w)
        if t is not None:
            tw.append(t)
            iw.append(i)
    chunk_b = max(8, (len(tb) + core.NPROC - 1) // core.NPROC)
    toks, _ = core.eval_cases(PID, c01.HEADER, tb, chunk=chunk_b, tag="bcert")
    for i, t in zip(ib, toks):
        vb[i] = "agree" if t == "true" else ("disagree:bottleneck rows are not a certificate for the distance (Coq checker)"
                                              if t == "false" else "skip:coq evaluation failed (%s)" % t)
    chunk_w = max(8, (len(tw) + core.NPROC - 1) // core.NPROC)
    toks, _ = core.eval_cases(PID, c02.HEADER, tw, chunk=chunk_w, tag="wcert")
    for i, t in zip(iw, toks):
        vw[i] = "agree" if t == "true" else ("disagree:wasserstein rows are not a certificate for the distance (Coq checker)"
                                              if t == "false" else "skip:coq evaluation failed (%s)" % t)
    out = []
    for i in range(n):
        for v in (vb[i], vw[i]):
            if v.startswith("disagree"):
                out.append(v)
                break
        else:
            out.append(vb[i] if vb[i].startswith("skip") else vw[i])
    return out


def finding_of(c, o, detail):
    """Bottleneck computed in the input dtype (unsigned wrap-around / narrow-int overflow): only an
    instance of the finding when the case is of the dtype class and the bottleneck half is what fails."""
    if c.get("dtype") and any(d in ("uint8", "uint16", "int8", "int16", "int32") for d in c["dtype"]) \
            and detail.startswith("bottleneck-"):
        return "C01-bottleneck-input-dtype"
    return None


# ------------------------------------------------------------------------------------ shrinking
def shrink_candidates(c):
    # large diagrams first lose blocks of points (halves, quarters, ...), then single points: a failure that
    # needs a minimum size ends at that size after a logarithmic number of runs plus one scan
    for key in ("S", "T"):
        n = len(c[key])
        w = n // 2
        while w >= 2:
            for i in range(0, n, w):
                d = dict(c)
                d[key] = c[key][:i] + c[key][i + w:]
                yield d
            w //= 2
    for key in ("S", "T"):
        if len(c[key]) > 16:        # small blocks have been tried; a point-by-point scan of a large diagram
            continue                # costs one interpreter start per point and gains little
        for i in range(len(c[key])):
            d = dict(c)
            d[key] = c[key][:i] + c[key][i + 1:]
            yield d
    if c.get("rep") == "list":
        d = dict(c)
        d["rep"] = "array"
        yield d
    if c.get("dtype"):
        for side in (0, 1):
            if c["dtype"][side] != "float64":
                d = dict(c)
                d["dtype"] = list(c["dtype"])
                d["dtype"][side] = "float64"
                yield d
