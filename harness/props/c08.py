"""C08 - grid landscapes stay within half a step of the true landscape.

Model: coq/Model/ApproxM.v (over Q); theorems: coq/Properties/C08.v; tie: every generated case is one
closed term `check_case ...` (coq/Corr/ApproxCorr.v) evaluated by vm_compute, comparing the model with
  PersLandscapeApprox(...).values, PersistenceLandscaper(...).fit_transform (flatten off / on),
  vectorize(PersLandscapeExact(...)).values and death_vector(...)
of the working tree.  Exact family: dyadic grids (n-1 a power of two), end points on multiples of
step/4 (on the grid, exact half-way ties, off the grid) -> compared exactly.  Tolerance family: random
doubles, end points kept away from half-way points -> compared within 1e-9 (relative to the scale).
Integer-dtype diagrams with end points off the grid, float32 / Fortran-order / strided / read-only arrays, and call
histories (harness/history.py: landscape objects observed, used as operands, observed again; one diagram swept
through several grids; one diagram shape in several units) are judged by the same predicate.  Magnitude classes: tiny /
huge absolute scales (grid steps down to 2^-300), offsets 2^10..2^30 / 1e3..1e7 with short bars, grids of 1025-5000 nodes
with a few bars.
Fit-then-transform: a transformer fitted on OTHER diagrams (grid ends learned from them) must return, for the case's diagrams, the
sampled landscape on the FITTED grid (_train_for / _predicate_fit_other)."""
from fractions import Fraction

from .. import core, history

PID = "C08"
THEOREMS = [
    "ramps_are_snapped_tent", "ramp_indices_in_range", "dict_lookup_is_argmin", "snap_half_step", "snap_first_minimum", "tent_lipschitz", "kth_lipschitz",
    "kth_zero_padding", "approx_within_half_step", "approx_exact_on_grid", "approx_rows_rectangular", "approx_depths_nested",
    "approx_legacy_refuted", "approx_legacy_numeric", "infinite_bars_removed", "default_ends_cover",
    "approx_ctor_within_half_step", "vectorize_exact", "landscaper_is_approx", "death_vector_sorted",
    "vectorize_exact_on_diagrams", "vectorize_exact_on_exact_landscape", "approx_landscape_stability", "approx_ctor_landscape_stability",  # cross-property glue (Proofs/LandscapeGlue*.v, LandscapeStabP.v)
]
RULE = ("seeded generator; exact family = dyadic start/stop, n-1 in {1,2,4,8,16,32}, 1-6 bars with end points on "
        "multiples of step/4 (classes on_grid, half_tie, off_grid, mixed, narrow (no node gets a value), defaults "
        "(user fixes none / start only / stop only of the grid ends; also 8% of every other class), inf (infinite bars, several degrees), scale 2^+-20, dup (repeated bars), errors), compared "
        "exactly; tolerance family = random doubles, 2-40 nodes, end points at least 1e-6*step away from half-way points, "
        "compared within 1e-9*scale, a quarter of them with only one or no grid end fixed; the transformer is observed fresh "
        "(flatten off/on) and refitted after a fit on other data; size class (3 cases quick / 12 thorough) = 2200-6000 mostly short bars on 257/500/513-node "
        "grids (num_steps x bars > 2^20; default grid and explicit grids; largest death = stop or in the upper half of the "
        "last cell): the independent predicate checks the half-step bound for all depths at 6 fixed nodes (first two, last "
        "four) and 6 random nodes, landscaper == approx and the death vector; the Coq model is NOT run on these (verdict "
        "skip:size, vm_compute of ~5000 snaps on 500 nodes is too slow); thorough adds grids up to 129 nodes, up to 12 bars and a bounded-exhaustive sweep of "
        "all bars / pairs of bars on quarter-step positions of the 3- and 5-node grids. "
        "Containers (same numbers, other arrays): int_offgrid (24 quick / 400 thorough) = integer end points in an int64/int32 array on a "
        "dyadic grid whose nodes are not integers (start on a multiple of 1/8, step 0.5..4; or only one / no end fixed, the learned "
        "integer ends giving a dyadic non-integer step), compared exactly; int_tol (24 / 400) = integer-dtype diagrams on grids with an "
        "arbitrary step (3-40, 8, 13, 24, 50, 100 nodes, thorough also 250 and the default 500; integer or real grid ends, all / one / "
        "none fixed), tolerance family; 10% of every exact/tolerance case is handed over in Fortran order, as a strided view into a "
        "larger array or read-only, 6% of the exact ones as float32. "
        "Call histories (21 quick / 240 thorough; every step is an ordinary case judged by the ordinary predicate, arrays shared by "
        "identity, the PersLandscapeApprox object shared per (diagram, grid), the PersistenceLandscaper objects shared per constructor "
        "parameters): operands = 2-4 diagrams of different sizes on one user-fixed grid (exact, tolerance or integer family) are built and "
        "observed, then used (P+Q, P-Q, running sum and mean, scalar multiple, quotient, negation, norms, slices, values_to_pairs, "
        "compute_landscape again, snap_pl on the same and on another grid, lc_approx, average_approx, a rejected sum of landscapes on "
        "different grids; the results are not judged), then all observed again in random order; sweep = one diagram through other "
        "num_steps / a 3x wider grid / a degree that does not exist (rejected) / another memory layout and back to the first "
        "configuration; scales (every 7th history) = one diagram shape (exact family or mag_unit) at scale 1, then times 2^k for 2-4 of "
        "k = -10,-20,-30,-34,-40,-50,+30, then at scale 1 again. What persim RETURNS from fit_transform / vectorize is overwritten "
        "(history.scribble) after its values have been read. "
        "Fit on other data, then transform (every ordinary case, corpus case and history step that is inside the quantifier; not the size / "
        "fine classes; ~300 of them per quick run with a learned grid end): a PersistenceLandscaper configured like the case is fitted "
        "on training diagrams A whose extreme birth / death lie at or (5 of 6) strictly beyond those of the case's diagrams B - fit, "
        "fit_transform(A), fit + transform(A), or sklearn.clone of the fitted estimator fitted again; flatten on in 40%; inside a "
        "history on the shared estimator object, which fit_transform(B) then refits - and then transforms B: the output must satisfy the "
        "half-step bound / exactness for B on the FITTED grid (user-fixed ends, the others as the estimator reports them after fit) and "
        "equal PersLandscapeApprox(B).values on that grid; A keeps B in its family (exact: A on the dyadic lattice of B's coordinates, "
        "n-1 a power of two; tolerance: B's end points away from the half-way points of the fitted grid; integer diagrams get integer "
        "training data); predicate only, the Coq model is not run on this observation. "
        "Magnitudes (36 + 36 cases quick / 900 + 900 thorough; also bases of operands / sweep histories and of the failing-input search): exact family "
        "classes tiny (scale 2^-34..2^-300: grid steps below 1e-10), huge (2^40..2^300), offset (|start| = 2^10..2^30, step 2^-14..2^-2, "
        "at most 47 significant bits; never as float32), compared exactly; tolerance-family classes mag_tiny (coordinates of order "
        "1e-7..1e-13, rarely 1e-20..1e-290), mag_huge (1e8..1e15, 1e30..1e290), mag_offset (|start| 1e3..1e7, width 1e-7..1e-2 of it, end "
        "points 1e-3 step away from half-way points), mag_unit, compared within 1e-12 * max(|start|,|stop|) - no absolute floor. "
        "Fine grids (3 quick / 18 thorough): 2-4 bars on 1025/2049/4097 dyadic nodes (step down to 2^-43) or 1100/1500/2500/4100/5000 "
        "nodes at scales 1..1e-8, judged like the size class at the nodes around every end point and mid-point of a bar (Coq model not "
        "run: skip:size). A history is non-trivial when at least two of its steps are. A case is non-trivial when the call succeeds, some node receives a value and "
        "either an end point is off the grid or two bars overlap at a node (depth >= 2); distinct = distinct JSON input")
TRUSTED_BASE = [
    "Coq 8.16.1 kernel, vm_compute (no native_compute)",
    "Q/Z/list developments: closed under the global context (no axioms)",
    "hand-written model Model/ApproxM.v of approximate.py 134-142/173-239, auxiliary.py 134-142, tools.py 20-40/166-203, "
    "transformer.py 84-130",
    "harness: generator, float->exact-rational printer, exception->error-enum mapping, verdict parser; call histories "
    "(harness/history.py: steps run in one interpreter on interned arrays / landscape / transformer objects; histories are judged "
    "by the predicate only, the Coq model is not run on them: verdict skip:history)",
]
ASSUMPTIONS = [
    "numpy semantics of linspace (start + i*step), argmin (first minimum), interp, boolean masking, sorted() as modelled",
    "exact family: every operation of the code is exact in binary64 on the generated dyadic inputs",
    "tolerance family: binary64 rounding is bounded by the 1e-9 relative tolerance, not proved; inputs avoid "
    "half-way points so that rounding cannot flip a snap decision",
    "magnitude classes of the tolerance family (mag_*, fine_tol): binary64 rounding is bounded by 1e-12 * max(|start|, |stop|) "
    "(every value the code writes is j * step, step = (stop - start) / (n - 1): a few ulp of the larger grid end), not proved",
    "exact family at other magnitudes: scaling by a power of two and offsets within 47 significant bits keep every operation exact "
    "in binary64 (no subnormals: scales >= 2^-300)",
    "PersistenceLandscaper.fit with an infinite death and stop=None is outside the quantifier (finite diagrams)",
    "fit on other data, then transform: 'the approximate landscape' a fitted transformer must return for a diagram B is the one on "
    "the transformer's own grid - linspace(start, stop, num_steps) with the ends the user fixed and, for the others, the values the "
    "estimator reports after fit (fallback if it reports none: extreme birth / death of the training diagram of the configured "
    "degree); cases whose B that grid does not cover are outside the quantifier",
    "a diagram is the same finite diagram whatever the dtype (float64, float32, int64, int32: the cast is applied only when it "
    "is exact) and memory layout of its array; the model sees the exact rational values",
    "call histories: a landscape object that has been used as an operand / argument of the landscape tools (never written to by "
    "the harness) is still 'the approximate landscape' of its diagram and grid when .values is read again",
]
COQ_DEPS = ["Corr/ApproxCorr.vo"]
FINDING_EMPTY = "C08-empty-values"


# ------------------------------------------------------------------------------- generators
def _exact_case(rng, cls, big=False):
    m = rng.choice([1, 2, 4, 4, 4, 8, 8, 8, 16, 16, 16, 32, 32] + ([64, 128] if big else []))
    n = m + 1
    e = rng.randint(-3, 2)
    scale = 1.0
    if cls == "scale":
        scale = 2.0 ** rng.choice([-20, 20])
    elif cls == "tiny":      # grid steps far below any absolute tolerance (1e-8, 1e-10, 1e-12, ...): 2^-34 ~ 6e-11
        scale = 2.0 ** -rng.choice([34, 37, 40, 44, 50, 64, 100, 300])
    elif cls == "huge":
        scale = 2.0 ** rng.choice([40, 64, 100, 300])
    step = (2.0 ** e) * scale
    start = rng.randint(-8, 8) * 0.25 * scale
    if cls == "offset":      # short bars far from the origin: |start| = 2^10..2^30, step 2^-14..2^-2, at most 47 bits
        k = rng.randint(10, 30)
        e = rng.randint(max(-14, k - 42), -2)
        step = 2.0 ** e
        start = rng.choice([-1.0, 1.0]) * 2.0 ** k + rng.randint(-8, 8) * step
    stop = start + m * step
    nb = rng.randint(1, 12 if big else 6)
    bars = []

    def pick(kind):
        # q in quarter steps
        if kind == "on_grid":
            return 4 * rng.randint(0, m)
        if kind == "half_tie":
            return min(4 * m, 4 * rng.randint(0, m - 1) + 2) if m >= 1 else 0
        if kind == "off_grid":
            return min(4 * m, 4 * rng.randint(0, m - 1) + rng.choice([1, 3]))
        return rng.randint(0, 4 * m)
    for _ in range(nb):
        kind = cls if cls in ("on_grid", "half_tie", "off_grid") else rng.choice(["on_grid", "half_tie", "off_grid", "any"])
        if cls == "narrow":
            qb = rng.randint(0, 4 * m - 1)
            qd = min(4 * m, qb + rng.randint(0, 2))
        else:
            qb, qd = pick(kind), pick(kind)
            if qb > qd:
                qb, qd = qd, qb
            if rng.random() < 0.15:
                qd = qb  # a point on the diagonal
        bars.append([start + qb * step / 4, start + qd * step / 4])
    if cls == "dup" and bars:
        bars += [list(rng.choice(bars)) for _ in range(rng.randint(1, 2))]
        bars = bars[:12 if big else 6]
    # which grid ends the user fixes: both / none / start only / stop only (the configured end then lies at or
    # beyond the extreme birth / death, so the grid still covers the diagram)
    fix = "both"
    if cls == "defaults" or (cls == "inf" and rng.random() < 0.4) or rng.random() < 0.08:
        fix = rng.choice(["none", "start", "stop"])
    dgms, hom_deg = [bars], 0
    if cls == "inf":
        for _ in range(rng.randint(1, 2)):
            bars.insert(rng.randint(0, len(bars)), [start + rng.randint(0, 4 * m) * step / 4, "inf"])
        other = [[start, start + step], [start + step / 4, "inf"]]
        if rng.random() < 0.5:
            dgms, hom_deg = [other, bars], 1
        else:
            dgms, hom_deg = [bars, other], 0
    c = {"cls": cls, "family": "exact", "dgms": dgms, "hom_deg": hom_deg, "n": n,
         "start": start if fix in ("both", "start") else None, "stop": stop if fix in ("both", "stop") else None,
         "fix": fix,
         "rep": "int" if rng.random() < 0.3 else "float"}
    return c


def _tol_case(rng, big=False):
    """random doubles; in a quarter of the cases the user fixes only one grid end (or none): the case is kept only
    if every end point stays away from the half-way points of the grid that results"""
    for _ in range(50):
        c = _tol_case_both(rng, big)
        fix = rng.choice(["both", "both", "both", "both", "both", "none", "start", "stop"])
        if fix == "both":
            return c
        bars = [(Fraction(b), Fraction(d)) for b, d in c["dgms"][0]]
        fs = Fraction(c["start"]) if fix == "start" else min(b for b, _ in bars)
        fe = Fraction(c["stop"]) if fix == "stop" else max(d for _, d in bars)
        if not fs < fe:
            continue
        step = (fe - fs) / (c["n"] - 1)

        def ok(x):
            u = (x - fs) / step
            return abs(u - (u.numerator // u.denominator) - Fraction(1, 2)) > Fraction(1, 10 ** 6)
        if all(ok(x) for bd in bars for x in bd):
            c["start"] = c["start"] if fix == "start" else None
            c["stop"] = c["stop"] if fix == "stop" else None
            c["fix"] = fix
            return c
    return _tol_case_both(rng, big)


def _tol_case_both(rng, big=False):
    n = rng.choice([rng.randint(2, 40), rng.randint(5, 40), rng.randint(10, 40)] + ([rng.randint(41, 120)] if big else []))
    start = rng.choice([rng.uniform(-5, 5), 0.0, rng.uniform(-1e3, 1e3), rng.uniform(0, 1e-3)])
    width = rng.choice([rng.uniform(0.1, 10), rng.uniform(1e-3, 1e-1), rng.uniform(10, 1e3), 1.0])
    stop = start + width
    fs, fe = Fraction(start), Fraction(stop)
    step = (fe - fs) / (n - 1)

    def pt():
        for _ in range(100):
            x = rng.uniform(start, stop)
            if rng.random() < 0.1:
                x = rng.choice([start, stop])
            if rng.random() < 0.15:   # near (not at) a node
                x = min(stop, max(start, float(fs + rng.randint(0, n - 1) * step) + rng.uniform(-1, 1) * 1e-3 * float(step)))
            u = (Fraction(x) - fs) / step
            frac = u - (u.numerator // u.denominator)
            if abs(frac - Fraction(1, 2)) > Fraction(1, 10 ** 6) and fs <= Fraction(x) <= fe:
                return x
        return start
    bars = []
    for _ in range(rng.randint(1, 10 if big else 6)):
        b, d = pt(), pt()
        if b > d:
            b, d = d, b
        if rng.random() < 0.05:
            d = b                                  # a point on the diagonal
        bars.append([b, d])
        if rng.random() < 0.08:
            bars.append([b, d])                    # a repeated bar
    return {"cls": "tol", "family": "tol", "dgms": [bars], "hom_deg": 0, "n": n, "start": start, "stop": stop,
            "rep": "float", "fix": "both"}


SLACK_REL = 1e-12     # tolerance of the magnitude classes, relative to max(|start|, |stop|) (no absolute floor)
MAG_KINDS = ["tiny", "tiny", "tiny", "tiny", "offset", "offset", "offset", "huge", "unit"]


def _mag_ends(rng, kind):
    """(start, width, margin) of the magnitude classes; margin = distance (in steps) kept from the half-way points"""
    if kind == "tiny":       # coordinates of order 1e-7 .. 1e-13 (seconds for nanosecond data), rarely far smaller
        scale = 10.0 ** rng.choice([-rng.uniform(7, 13), -rng.uniform(8, 11), -rng.uniform(9, 10), -rng.choice([20, 60, 150, 290])])
        return rng.choice([rng.uniform(-5, 5), 0.0, rng.uniform(0, 1)]) * scale, rng.choice([rng.uniform(0.1, 10), 1.0]) * scale, 1e-6
    if kind == "huge":
        scale = 10.0 ** rng.choice([rng.uniform(8, 15), rng.choice([30, 100, 290])])
        return rng.choice([rng.uniform(-5, 5), 0.0]) * scale, rng.uniform(0.1, 10) * scale, 1e-6
    if kind == "offset":     # short bars far from the origin: |start| 1e3..1e7, width 1e-7..1e-2 of it
        off = rng.choice([-1.0, 1.0]) * 10.0 ** rng.uniform(3, 7)
        return off, abs(off) * 10.0 ** rng.uniform(-7, -2), 1e-3
    return rng.choice([rng.uniform(-5, 5), 0.0]), rng.choice([rng.uniform(0.1, 10), 1.0]), 1e-6


def _mag_case(rng, kind, big=False, fix=None):
    """Magnitude classes of the tolerance family: random doubles at tiny / huge absolute scales and at large offsets
    with short bars.  Compared within SLACK_REL * max(|start|, |stop|): every value the code produces is j * step,
    wrong by a few ulp of the larger grid end at most.  A quarter of the cases with one / no grid end fixed."""
    for _ in range(200):
        start, width, margin = _mag_ends(rng, kind)
        stop = start + width
        n = rng.choice([rng.randint(2, 40), rng.randint(5, 40), rng.randint(10, 40)] + ([rng.randint(41, 120)] if big else []))
        fs, fe = Fraction(start), Fraction(stop)
        if not fs < fe:
            continue
        step0 = (fe - fs) / (n - 1)
        mg = Fraction(margin)

        def away(x, s0, st):
            u = (Fraction(x) - s0) / st
            return abs(u - (u.numerator // u.denominator) - Fraction(1, 2)) > mg

        def pt():
            for _ in range(100):
                x = rng.uniform(start, stop)
                r = rng.random()
                if r < 0.1:
                    x = rng.choice([start, stop])
                elif r < 0.25:   # near (not at) a node
                    x = min(stop, max(start, float(fs + rng.randint(0, n - 1) * step0) + rng.uniform(-1, 1) * 1e-2 * float(step0)))
                if fs <= Fraction(x) <= fe and away(x, fs, step0):
                    return x
            return start
        bars = []
        for _ in range(rng.randint(1, 10 if big else 6)):
            b, d = pt(), pt()
            if b > d:
                b, d = d, b
            if rng.random() < 0.05:
                d = b
            bars.append([b, d])
            if rng.random() < 0.08:
                bars.append([b, d])
        fx = fix or rng.choice(["both", "both", "both", "both", "both", "none", "start", "stop"])
        if fx != "both":
            s1 = fs if fx == "start" else min(Fraction(b) for b, _ in bars)
            e1 = fe if fx == "stop" else max(Fraction(d) for _, d in bars)
            if not s1 < e1:
                continue
            st1 = (e1 - s1) / (n - 1)
            if not all(away(x, s1, st1) for bd in bars for x in bd):
                continue
        return {"cls": "mag_" + kind, "family": "tol", "slack_rel": SLACK_REL, "dgms": [bars], "hom_deg": 0, "n": n,
                "start": start if fx in ("both", "start") else None, "stop": stop if fx in ("both", "stop") else None,
                "rep": "float", "fix": fx}
    raise RuntimeError("no magnitude case")


LAYOUTS = ["F", "strided", "readonly"]


def _decorate(rng, c):
    """dtype / memory layout of the arrays handed to persim (the numbers are the same)"""
    r = rng.random()
    if r < 0.10:
        c["layout"] = rng.choice(LAYOUTS)
    elif r < 0.16 and c["family"] == "exact" and c["cls"] != "offset":
        # applied only when every end point is a binary32 number (dyadic grids: yes).  Not for the offset class:
        # PersLandscapeExact computes mid-points in the dtype of its input, which is not exact in binary32 there
        c["dtype"] = "float32"
    return c


def _int_exact_case(rng, big=False):
    """integer-valued end points in an INTEGER-dtype array (the form used throughout the persim docs) on a dyadic
    grid whose nodes are not integers, so that the end points lie off the grid (or exactly half-way)"""
    import math
    m = rng.choice([2, 4, 4, 8, 8, 16, 16, 32] + ([64] if big else []))
    fix = rng.choice(["both", "both", "both", "none", "start", "stop"])
    while True:
        if fix == "both":
            step = rng.choice([0.5, 1.0, 1.0, 2.0, 2.0, 4.0])
            start = rng.randint(-8, 8) + rng.choice([0.25, 0.5, 0.75, 0.125, 0.0])
            stop = start + m * step
        else:
            # learned ends are integers (taken from the array): the step is dyadic, not an integer
            w = rng.choice([w for w in range(1, 4 * m) if w % m != 0] or [1])
            start = float(rng.randint(-8, 8))
            stop = start + w
        lo, hi = math.ceil(start), math.floor(stop)
        if hi > lo:
            break
    bars = []
    for _ in range(rng.randint(1, 10 if big else 6)):
        b, d = rng.randint(lo, hi), rng.randint(lo, hi)
        if b > d:
            b, d = d, b
        if b == d and rng.random() < 0.8:
            b, d = (b, d + 1) if d < hi else (b - 1, d)
        bars.append([float(b), float(d)])
    if fix != "both":   # the learned ends are the nominal ones
        bars[0][0], bars[-1][1] = float(lo), float(hi)
        bars[0][1], bars[-1][0] = max(bars[0]), min(bars[-1])
    return {"cls": "int_offgrid", "family": "exact", "dgms": [bars], "hom_deg": 0, "n": m + 1,
            "start": start if fix in ("both", "start") else None, "stop": stop if fix in ("both", "stop") else None,
            "fix": fix, "rep": "float", "dtype": rng.choice(["int64", "int64", "int32"])}


def _int_tol_case(rng, big=False):
    """integer-dtype diagrams on grids with an arbitrary (non-dyadic) step: num_steps 8..100 (and the default 500 in
    the thorough tier) on integer or random ends, or on the default grid; end points away from the half-way points"""
    for _ in range(200):
        n = rng.choice([rng.randint(3, 40), rng.randint(3, 40), 8, 13, 24, 50, 100] + ([250, 500] if big else []))
        lo = rng.randint(-5, 12)
        hi = lo + rng.randint(2, 15)
        fix = rng.choice(["both", "both", "both", "none", "start", "stop"])
        pad = rng.choice(["int", "int", "real"])
        start = float(lo - rng.randint(0, 2)) if pad == "int" else lo - rng.uniform(0, 2)
        stop = float(hi + rng.randint(0, 2)) if pad == "int" else hi + rng.uniform(0, 2)
        bars = []
        for _ in range(rng.randint(1, 8)):
            b = rng.randint(lo, hi - 1)
            bars.append([float(b), float(rng.randint(b + 1, hi))])
        if rng.random() < 0.1:
            bars.append(list(rng.choice(bars)))
        bars[0][0], bars[-1][1] = float(lo), float(hi)
        bars[0][1], bars[-1][0] = max(bars[0]), min(bars[-1])
        fs = Fraction(start) if fix in ("both", "start") else Fraction(lo)
        fe = Fraction(stop) if fix in ("both", "stop") else Fraction(hi)
        step = (fe - fs) / (n - 1)

        def ok(x):
            u = (Fraction(x) - fs) / step
            return abs(u - (u.numerator // u.denominator) - Fraction(1, 2)) > Fraction(1, 10 ** 6)
        if step.denominator & (step.denominator - 1) == 0 and step.denominator <= 4:
            continue    # that is the exact family's business
        if all(ok(x) for bd in bars for x in bd):
            return {"cls": "int_tol", "family": "tol", "dgms": [bars], "hom_deg": 0, "n": n,
                    "start": start if fix in ("both", "start") else None, "stop": stop if fix in ("both", "stop") else None,
                    "fix": fix, "rep": "float", "dtype": rng.choice(["int64", "int64", "int32"])}
    return _tol_case_both(rng, big)


# ------------------------------------------------------------------------------- call histories
def _step(c, ops=None):
    d = dict(c)
    d["obj"] = "shared"
    d["vec"] = _vec_ok(d)
    d.pop("ops", None)
    if ops:
        d["ops"] = ops
    return d


def _bare(c):
    d = {k: c[k] for k in _KEY_FIELDS if k in c}
    d["family"] = c["family"]
    return d


OPS2 = ["add", "sub", "running", "snap", "snap_other", "lc", "avg"]
OPS1 = ["mul", "div", "neg", "norms", "slice", "recompute", "badgrid"]


def _common_grid_family(rng):
    """2-4 diagrams of different sizes on one grid fixed by the user (what one has before forming sums / means)"""
    for _ in range(50):
        kind = rng.choice(["exact", "tol", "int", "mag"])
        if kind == "mag":
            base = _mag_case(rng, rng.choice(["tiny", "offset"]), fix="both")
        elif kind == "exact":
            base = _exact_case(rng, rng.choice(["mixed", "off_grid", "half_tie", "dup"]))
            base["start"], base["stop"] = (base["start"], base["stop"]) if base["fix"] == "both" else (None, None)
        elif kind == "tol":
            base = _tol_case_both(rng)
        else:
            base = _int_exact_case(rng) if rng.random() < 0.5 else _int_tol_case(rng)
        if base["start"] is None or base["stop"] is None or base["family"] not in ("exact", "tol") or base["hom_deg"] != 0:
            continue
        base["fix"] = "both"
        pool = [list(b) for b in base["dgms"][0]]
        fam = []
        for _ in range(rng.randint(2, 4)):
            k = rng.randint(1, len(pool))
            bars = [list(rng.choice(pool)) for _ in range(k)]
            if rng.random() < 0.5:
                # a longer bar built from end points of the pool (end points keep their position relative to the grid)
                xs = sorted(x for bd in pool for x in bd)
                bars.append([xs[0], xs[-1]])
            c = dict(base)
            c["dgms"] = [bars]
            fam.append(c)
        return fam
    raise RuntimeError("no common-grid family")


def _rescaled(c, k):
    """the same case in other units: every finite coordinate and grid end times 2^k (exact in binary64, so the
    position of every end point relative to the grid - and with it the family of the case - is unchanged)"""
    f = 2.0 ** k
    d = dict(c)
    d["dgms"] = [[[x if x == "inf" else x * f for x in bd] for bd in dg] for dg in c["dgms"]]
    d["start"] = None if c["start"] is None else c["start"] * f
    d["stop"] = None if c["stop"] is None else c["stop"] * f
    d.pop("dtype", None)
    d["rep"] = "float"
    return d


def _histories(rng, n):
    """Call histories in one process (harness/history.py): every step is an ordinary case and must satisfy the
    ordinary predicate.
      operands  - landscapes P1..Pk of several diagrams on a common grid are built and observed, then USED (sums,
                  differences, running sums, scalar multiples, norms, slices, snap_pl / lc_approx / average_approx,
                  a rejected sum of landscapes on different grids), then observed AGAIN: each must still be the
                  sampled landscape of its own diagram, and the shared transformer must still return its values;
      sweep     - one diagram (the same ndarray objects) through several grids / num_steps / degrees and back to the
                  first grid, with a rejected call (degree out of range) in between."""
    hs = []
    for i in range(n):
        if i % 7 == 6:
            # scales: one diagram shape in several units (1, 2^-10 .. 2^-50, 2^+30) in one process, objects shared,
            # and back to the first unit: nothing may be remembered under a key that is blind to the scale
            base = (_exact_case(rng, rng.choice(["mixed", "off_grid", "half_tie", "defaults"])) if rng.random() < 0.6
                    else _mag_case(rng, "unit"))
            ks = rng.sample([-10, -20, -30, -34, -40, -50, 30], rng.randint(2, 4))
            steps = [_step(base)] + [_step(_rescaled(base, k), [{"op": rng.choice(OPS1), "x": 2.0}] if rng.random() < 0.3 else None)
                                     for k in ks] + [_step(base)]
            hs.append(history.make("scales", steps))
        elif i % 3 != 2:
            fam = _common_grid_family(rng)
            first, again = [], []
            for j, c in enumerate(fam):
                ops = []
                for _ in range(rng.randint(1, 3)):
                    other = fam[(j + rng.randint(1, len(fam) - 1)) % len(fam)]
                    if rng.random() < 0.65:
                        ops.append({"op": rng.choice(OPS2), "other": _bare(other)})
                    else:
                        ops.append({"op": rng.choice(OPS1), "x": rng.choice([2.0, 0.5, -1.0, 3.0])})
                first.append(_step(c, ops))
                again.append(_step(c))
            rng.shuffle(again)
            hs.append(history.make("operands", first + again))
        else:
            r = rng.random()
            base = (_exact_case(rng, rng.choice(["mixed", "off_grid", "off_grid", "inf", "defaults", "tiny", "offset"])) if r < 0.6
                    else _tol_case(rng) if r < 0.85 else _mag_case(rng, rng.choice(["tiny", "offset"])))
            steps = [_step(base, [{"op": rng.choice(OPS1), "x": 2.0}])]
            exact_both = base["family"] == "exact" and base["start"] is not None and base["stop"] is not None
            kinds = ["reject", "layout", "layout2"] + (["n"] if base["family"] == "exact" else []) + (["wide", "n2"] if exact_both else [])
            for kd in rng.sample(kinds, rng.randint(2, 3)):
                c = dict(base)
                if kd in ("n", "n2"):
                    c["n"] = 2 * (base["n"] - 1) + 1 if (base["n"] <= 33 and kd == "n") or base["n"] <= 3 else (base["n"] - 1) // 2 + 1
                elif kd == "reject":
                    c["hom_deg"] = len(base["dgms"]) + rng.randint(0, 1)     # rejected: no such degree
                elif kd == "wide":
                    w = base["stop"] - base["start"]
                    c["start"], c["stop"] = base["start"] - w, base["stop"] + w   # 3x the width: dyadic step again
                else:
                    c["layout"] = LAYOUTS[(LAYOUTS.index(base.get("layout", "F")) + (1 if kd == "layout" else 2)) % 3]
                steps.append(_step(c, [{"op": rng.choice(OPS1), "x": 0.5}] if rng.random() < 0.5 else None))
            steps.append(_step(base))
            hs.append(history.make("sweep", steps))
    return hs


BIG_KINDS = ["big_default500", "big_explicit513", "big_explicit257", "big_explicit500"]


def _big_case(rng, kind):
    """Size class: thousands of bars, so that num_steps x number of bars exceeds 2^20 (where an implementation may
    switch to a memory-saving snapping path).  Mostly short bars (cheap for the ramp loops) plus a few long bars
    whose death lies in the upper half of the last grid cell / is the largest death.  Only a sample of columns is
    observed (incl. the last cells); the Coq model is not run on these (verdict skip:size)."""
    if kind in ("big_explicit513", "big_explicit257"):
        m = 512 if kind == "big_explicit513" else 256
        nb = rng.randint(2200, 2500) if m == 512 else rng.randint(4200, 6000)
        step = 2.0 ** rng.randint(-3, 1)
        start = rng.randint(-8, 8) * 0.25
        stop = start + m * step
        Q4 = 4 * m
        bars = []
        for _ in range(nb):
            qb = rng.randint(0, Q4 - 40)
            bars.append([start + qb * step / 4, start + (qb + rng.randint(0, 26)) * step / 4])
        for qd in (Q4 - 1, Q4 - 1, Q4, Q4 - 2):   # upper half of the last cell, the last node, the half-way tie
            qb = qd - 4 * rng.randint(3, 40) - rng.randint(0, 3)
            bars[rng.randrange(len(bars))] = [start + qb * step / 4, start + qd * step / 4]
        c = {"family": "exact", "n": m + 1, "start": start, "stop": stop}
    else:
        n = 500
        nb = rng.randint(2200, 2600)
        lo = rng.choice([0.0, rng.uniform(-5, 5)])
        hi = lo + rng.choice([1.0, rng.uniform(0.5, 50)])
        default = kind == "big_default500"
        flo, fhi = Fraction(lo), Fraction(hi)
        step = (fhi - flo) / (n - 1)
        fstep = float(step)

        def ok(x):
            u = (Fraction(x) - flo) / step
            frac = u - (u.numerator // u.denominator)
            return abs(frac - Fraction(1, 2)) > Fraction(1, 10 ** 6) and flo <= Fraction(x) <= fhi
        bars = []
        while len(bars) < nb:
            b = rng.uniform(lo, lo + 0.9 * (hi - lo))
            d = b + rng.uniform(0.0, 6.5) * fstep
            if ok(b) and ok(d):
                bars.append([b, d])
        top = hi if default else float(fhi - Fraction(rng.uniform(0.05, 0.45)) * step)   # the largest death
        specials = [[lo, lo + rng.uniform(2.1, 5.4) * fstep], [top - rng.uniform(3.1, 40.4) * fstep, top]]
        for _ in range(2):
            d = float(fhi - Fraction(rng.uniform(0.05, 0.45)) * step)
            specials.append([d - rng.uniform(3.1, 30.4) * fstep, min(d, top)])
        specials = [[b, d] for b, d in specials if ok(b) and ok(d) and b <= d]
        if default and (len(specials) < 2 or specials[0][0] != lo or specials[1][1] != hi):
            specials = [[lo, lo + 3.25 * fstep], [hi - 7.25 * fstep, hi]]
        for sp in specials:
            bars[rng.randrange(len(bars))] = sp
        if default:   # make sure the default grid is [lo, hi]
            bars[0], bars[1] = specials[0], specials[1]
            bars = [[max(b, lo), min(d, hi)] for b, d in bars]
        c = {"family": "tol", "n": n, "start": None if default else lo, "stop": None if default else hi}
    n = c["n"]
    cols = sorted(set([0, 1, n - 4, n - 3, n - 2, n - 1] + [rng.randrange(n) for _ in range(6)]))
    c.update({"cls": kind, "dgms": [bars], "hom_deg": 0, "rep": "float", "big": True, "cols": cols, "vec": False})
    return c


FINE_KINDS = ["fine_exact", "fine_tol"]


def _fine_case(rng, kind):
    """Fine grids: a few bars on 1000-5000 nodes, so that the grid STEP is tiny although the coordinates are not
    (and tinier still at scales 2^-20 / 1e-7).  Judged like the size class: all depths at a sample of nodes - those
    around every end point and mid-point of a bar, the first and the last ones; the Coq model is not run."""
    if kind == "fine_exact":
        m = rng.choice([1024, 2048, 4096])
        step = 2.0 ** rng.randint(-3, 1) * 2.0 ** -rng.choice([0, 10, 20, 30, 40])
        start = rng.randint(-8, 8) * step
        stop = start + m * step
        qs = []
        for _ in range(rng.randint(2, 4)):
            qb, qd = rng.randint(0, 4 * m), rng.randint(0, 4 * m)
            if rng.random() < 0.4:
                qd = min(4 * m, qb + rng.randint(1, 60))     # a short bar
            qs.append((min(qb, qd), max(qb, qd)))
        bars = [[start + qb * step / 4, start + qd * step / 4] for qb, qd in qs]
        near = [q // 4 for bd in qs for q in (bd[0], bd[1], (bd[0] + bd[1]) // 2)]
        c = {"family": "exact", "n": m + 1, "start": start, "stop": stop}
    else:
        for _ in range(100):
            n = rng.choice([1100, 1500, 2500, 4100, 5000])
            scale = 10.0 ** -rng.choice([0, 0, 3, 5, 6, 7, 8])
            start = rng.choice([0.0, rng.uniform(-5, 5)]) * scale
            stop = start + rng.uniform(0.5, 8) * scale
            fs, fe = Fraction(start), Fraction(stop)
            step = (fe - fs) / (n - 1)
            bars = []
            for _ in range(rng.randint(2, 4)):
                b, d = rng.uniform(start, stop), rng.uniform(start, stop)
                if rng.random() < 0.4:
                    d = min(stop, b + rng.uniform(0.3, 15) * float(step))
                bars.append([min(b, d), max(b, d)])
            us = [(Fraction(x) - fs) / step for bd in bars for x in bd]
            if all(abs(u - (u.numerator // u.denominator) - Fraction(1, 2)) > Fraction(1, 10 ** 6) for u in us):
                break
        near = [int((Fraction(x) - fs) / step) for b, d in bars for x in (b, d, (b + d) / 2)]
        c = {"family": "tol", "slack_rel": SLACK_REL, "n": n, "start": start, "stop": stop}
    n = c["n"]
    cols = set([0, 1, n - 2, n - 1] + [rng.randrange(n) for _ in range(4)])
    for i in near:
        cols.update(j for j in (i - 1, i, i + 1, i + 2) if 0 <= j < n)
    c.update({"cls": kind, "dgms": [bars], "hom_deg": 0, "rep": "float", "big": True, "cols": sorted(cols), "vec": False,
              "fix": "both"})
    return c



# ------------------------------------------------------------------------------- fit on other data, then transform
TRAIN_MODES = ["fit", "fit", "fit", "fit_transform", "fit_transform", "fit_then_transform_train", "clone"]


def _pow2(k):
    return k >= 1 and k & (k - 1) == 0


def _train_for(rng, c):
    """Training diagrams A for the case's diagrams B: a PersistenceLandscaper configured like the case is fitted on A
    (grid ends the user did not fix are LEARNED from A) and then transforms B.  A covers B (its extreme birth / death
    lie at or beyond those of B, strictly beyond in 5 of 6 cases), so the fitted grid covers B and differs from B's own
    default grid.  A is built so that B stays in its family on the fitted grid: exact family = A on the dyadic lattice of
    B's own coordinates (n-1 a power of two: the fitted step is a dyadic number again); tolerance family = random
    doubles (integers for integer diagrams), kept only if every end point of B is away from the half-way points of the
    fitted grid.  Returns None when no such A is found / the case is outside the quantifier."""
    if c.get("big") or not (0 <= c["hom_deg"] < len(c["dgms"])) or c["n"] < 2:
        return None
    dg = c["dgms"][c["hom_deg"]]
    fin = [(Fraction(_f(b)), Fraction(_f(d))) for b, d in dg if d != "inf" and b != "inf"]
    if not fin:
        return None
    lo, hi = min(b for b, _ in fin), max(d for _, d in fin)
    S = None if c["start"] is None else Fraction(c["start"])
    E = None if c["stop"] is None else Fraction(c["stop"])
    if (S is not None and S > lo) or (E is not None and E < hi):
        return None
    n = c["n"]
    exact = c["family"] == "exact"
    integral = all(x.denominator == 1 for bd in fin for x in bd) and c.get("dtype") in ("int64", "int32")
    if exact:
        if not _pow2(n - 1):
            return None
        u = Fraction(1, max(x.denominator for bd in fin for x in bd))
        nz = [abs(x.numerator) * (u.denominator // x.denominator) for bd in fin for x in bd if x != 0]
        while nz and all(k % 2 == 0 for k in nz):      # the coarsest dyadic lattice that holds every coordinate of B
            nz = [k // 2 for k in nz]
            u *= 2
        if not (_pow2(u.denominator) and _pow2(u.numerator)):
            return None
    margin = Fraction(1, 10 ** 3) if c.get("cls") == "mag_offset" else Fraction(1, 10 ** 6)
    for _ in range(80):
        w = hi - lo
        if exact:
            q = min(1024, max(4, int(w / u)))
            el, eh = [rng.choice([0, 1, 2, 3, rng.randint(1, q), rng.randint(1, 2 * q)]) * u for _ in range(2)]
        elif integral:
            el, eh = [Fraction(rng.choice([0, 1, 1, 2, 3, rng.randint(1, 10)])) for _ in range(2)]
        else:
            w = w if w > 0 else max(abs(hi), abs(lo), Fraction(1)) / 1000
            el, eh = [Fraction(rng.choice([0.0, rng.uniform(0.01, 0.3), rng.uniform(0.1, 1.0), rng.uniform(0.5, 3.0)])) * w
                      for _ in range(2)]
        if rng.random() < 5 / 6 and el == 0 and eh == 0:
            continue
        a_lo = Fraction(float(lo - el)) if S is None else None      # learned ends are doubles
        a_hi = Fraction(float(hi + eh)) if E is None else None
        if (a_lo is not None and a_lo > lo) or (a_hi is not None and a_hi < hi):
            continue
        gs, ge = (S if S is not None else a_lo), (E if E is not None else a_hi)
        if not gs < ge:
            continue
        st = (ge - gs) / (n - 1)
        if not exact:
            def away(x):
                t = (x - gs) / st
                return abs(t - (t.numerator // t.denominator) - Fraction(1, 2)) > margin
            if not all(away(x) for bd in fin for x in bd):
                continue
        # the bars of A: the extreme birth and the extreme death, a few more in between
        def inside():
            if exact:
                return gs + rng.randint(0, max(1, int((ge - gs) / u))) * u if (ge - gs) / u < 10 ** 6 else rng.choice([gs, ge, lo, hi])
            if integral:
                a, b = -(-gs.numerator // gs.denominator), ge.numerator // ge.denominator
                return Fraction(rng.randint(a, b)) if a <= b else gs
            return Fraction(rng.uniform(float(gs), float(ge)))
        pts = []
        for _k in range(rng.randint(0, 3)):
            x, y = sorted([min(ge, max(gs, inside())), min(ge, max(gs, inside()))])
            pts.append([x, y])
        first = [gs, max(gs, min(ge, inside()))]
        last = [min(ge, max(gs, inside())), ge]
        if rng.random() < 0.3:
            first, last = [gs, ge], None                             # one bar spans the whole fitted grid
        bars = [first] + pts + ([last] if last else [])
        if rng.random() < 0.5:
            rng.shuffle(bars)
        A = [[float(x), float(y)] for x, y in bars]
        if any(Fraction(v) != x for bd, fb in zip(A, bars) for v, x in zip(bd, fb)):
            continue
        if integral and any(v != round(v) for bd in A for v in bd):
            continue
        train = []
        for j in range(len(c["dgms"])):
            if j == c["hom_deg"]:
                train.append(A)
            else:    # another degree, on another range: the grid is learned from the configured degree only
                k = rng.choice([0.5, 2.0, 3.0])
                train.append([[float(x) * k - 1.0, float(y) * k + 1.0] for x, y in A[:2]])
        return {"dgms": train, "mode": rng.choice(TRAIN_MODES), "flatten": rng.random() < 0.4}
    return None


def _add_training(rng, cases, share=1.0):
    """decorates ordinary cases and the steps of the call histories (after everything else has been drawn, so that the
    cases themselves are the ones that were generated before this class existed)"""
    for c in cases:
        for s in (c["seq"] if history.is_hist(c) else [c]):
            if s.get("fault") or "dgms" not in s or rng.random() >= share:
                continue
            t = _train_for(rng, s)
            if t is not None:
                s["train"] = t
    return cases


def generate(rng, tier):
    return _add_training(rng, _generate(rng, tier))


def _generate(rng, tier):
    n_exact, n_tol = (420, 180) if tier == "quick" else (7000, 3000)
    classes = ["on_grid", "half_tie", "off_grid", "mixed", "mixed", "narrow", "defaults", "inf", "scale", "dup"]
    cases = []
    big = tier != "quick"
    for i in range(3 if tier == "quick" else 12):
        cases.append(_big_case(rng, BIG_KINDS[i % len(BIG_KINDS)] if tier != "quick" else BIG_KINDS[i]))
    for i in range(n_exact):
        cases.append(_exact_case(rng, classes[i % len(classes)], big and i % 4 == 0))
    for i in range(n_tol):
        cases.append(_tol_case(rng, big and i % 4 == 0))
    cases = cases[:3 if tier == "quick" else 12] + [_decorate(rng, c) for c in cases[3 if tier == "quick" else 12:]]
    for i in range(24 if tier == "quick" else 400):
        cases.append(_int_exact_case(rng, big and i % 4 == 0))
        cases.append(_int_tol_case(rng, big and i % 4 == 0))
    # magnitudes: tiny / huge absolute scales, large offsets with short bars (exact and tolerance family), fine grids
    for i in range(36 if tier == "quick" else 900):
        cases.append(_decorate(rng, _exact_case(rng, ["tiny", "tiny", "offset", "tiny", "offset", "huge"][i % 6], big and i % 4 == 0)))
    for i in range(36 if tier == "quick" else 900):
        cases.append(_decorate(rng, _mag_case(rng, MAG_KINDS[i % len(MAG_KINDS)], big and i % 4 == 0)))
    for i in range(3 if tier == "quick" else 18):
        cases.append(_fine_case(rng, FINE_KINDS[i % 3 != 0]))
    if big:
        cases += _exhaustive()
    # malformed stream: degree out of range, nothing finite in the diagram
    for i in range(6 if tier == "quick" else 60):
        c = _exact_case(rng, "mixed")
        if i % 2 == 0:
            c["hom_deg"] = len(c["dgms"]) + rng.randint(0, 1)
            c["cls"] = "err_index"
        else:
            c["dgms"] = [[[b, "inf"] for b, _ in c["dgms"][0]]]
            c["hom_deg"] = 0
            c["start"] = c["stop"] = None
            c["cls"] = "err_empty"
        cases.append(c)
    for c in cases:
        c["vec"] = False if c.get("big") else _vec_ok(c)
    return cases + _histories(rng, 28 if tier == "quick" else 320)


def _exhaustive():
    """bounded-exhaustive sweep (thorough tier): every bar with end points on multiples of step/4 of the grids with
    2 and 4 steps, and every unordered pair of such bars on the grid with 2 steps"""
    out = []
    for m in (2, 4):
        pts = [(qb, qd) for qb in range(4 * m + 1) for qd in range(qb, 4 * m + 1)]
        groups = [[p] for p in pts]
        if m == 2:
            groups += [[p, q] for i, p in enumerate(pts) for q in pts[i:]]
        for g in groups:
            out.append({"cls": "exhaustive_m%d_%dbar" % (m, len(g)), "family": "exact",
                        "dgms": [[[qb / 4.0, qd / 4.0] for qb, qd in g]], "hom_deg": 0, "n": m + 1,
                        "start": 0.0, "stop": float(m), "rep": "float"})
    return out


def _vec_ok(c):
    """vectorize / PersLandscapeExact are exercised on finite diagrams with b < d only."""
    if c["hom_deg"] >= len(c["dgms"]):
        return False
    dg = c["dgms"][c["hom_deg"]]
    return bool(dg) and all(d != "inf" and float(b) < float(d) for b, d in dg)


def corpus():
    cs = [
        # witness of approx_legacy_refuted: no node receives a value
        {"cls": "corpus_empty", "family": "exact", "dgms": [[[0.0, 0.1]]], "hom_deg": 0, "n": 3, "start": 0.0, "stop": 1.0, "rep": "float"},
        {"cls": "corpus", "family": "exact", "dgms": [[[0.0, 4.0], [1.0, 3.0], [0.5, 2.5]]], "hom_deg": 0, "n": 9, "start": 0.0, "stop": 4.0, "rep": "float"},
        # exact half-way ties on both end points: first minimum wins
        {"cls": "corpus", "family": "exact", "dgms": [[[0.5, 3.5]]], "hom_deg": 0, "n": 5, "start": 0.0, "stop": 4.0, "rep": "float"},
        # odd number of steps between the snapped ends: the rounding of mid matters
        {"cls": "corpus", "family": "exact", "dgms": [[[0.0, 3.0], [1.0, 4.0]]], "hom_deg": 0, "n": 5, "start": 0.0, "stop": 4.0, "rep": "int"},
        {"cls": "corpus", "family": "exact", "dgms": [[[0.0, 1.0]], [[1.0, 5.0], [2.0, 8.0], [3.0, 4.0], [5.0, 9.0], [6.0, 7.0]]], "hom_deg": 1, "n": 17, "start": None, "stop": None, "rep": "float"},
    ]
    # minimised failures / refutation witnesses stored under corpus/C08/
    import json
    d = core.VERIF / "corpus" / PID
    if d.is_dir():
        for p in sorted(d.glob("*.json")):
            c = json.loads(p.read_text())
            c = c.get("case", c)
            c = {k: v for k, v in c.items() if k != "_id"}
            c["cls"] = "corpus_file"
            if c not in cs:
                cs.append(c)
    for c in cs:
        c["vec"] = _vec_ok(c)
    import random
    return _add_training(random.Random(8), cs)     # fixed training data for the fixed cases


# ------------------------------------------------------------------------------- implementation
def _f(x):
    return float("inf") if x == "inf" else float(x)


def _enc_values(v):
    import numpy as np
    v = np.asarray(v)
    if v.dtype.kind not in "fiu":
        return {"marker": [str(x) for x in v.ravel()][:4], "dtype": str(v.dtype)}
    return {"shape": list(v.shape), "rows": v.astype(float).tolist()}


_KEY_FIELDS = ("dgms", "hom_deg", "start", "stop", "n", "rep", "dtype", "layout")


def _key(c):
    return [c.get(k) for k in _KEY_FIELDS]


def _build_arr(c, dg):
    """the ndarray handed to persim for one diagram: dtype (float64 / integer / float32, only when the cast is
    exact) and memory layout (C / Fortran order / a strided view into a larger array / read-only)"""
    import numpy as np
    a = np.array([[_f(b), _f(d)] for b, d in dg], dtype=float).reshape(-1, 2)
    fin = bool(a.size) and bool(np.all(np.isfinite(a)))
    if c.get("rep") == "int" and fin and np.all(a == np.round(a)) and np.all(np.abs(a) < 2 ** 53):
        a = a.astype(int)
    dt = c.get("dtype", "float")
    if dt in ("int64", "int32") and fin and np.all(a == np.round(a)) and np.all(np.abs(a) < 2 ** 30):
        a = a.astype(dt)
    elif dt == "float32" and a.dtype.kind == "f":
        with np.errstate(over="ignore"):
            a32 = a.astype(np.float32)
        if np.all(a32.astype(float) == a):
            a = a32                    # inf stays inf
    lay = c.get("layout", "C")
    if lay == "F":
        a = np.asfortranarray(a)
    elif lay == "strided":
        big = np.full((2 * len(a) + 1, 5), -7, dtype=a.dtype)
        big[::2, 1:4:2][:len(a)] = a
        a = big[::2, 1:4:2][:len(a)]
    elif lay == "readonly":
        a.setflags(write=False)
    return a


def _arrs(c, memo):
    """fresh arrays for an ordinary case; inside a call history equal diagrams are THE SAME ndarray objects"""
    if memo is None:
        return [_build_arr(c, dg) for dg in c["dgms"]]
    return [history.intern(memo, ["arr", dg, c.get("rep"), c.get("dtype"), c.get("layout")],
                           lambda dg=dg: _build_arr(c, dg)) for dg in c["dgms"]]


def _kw(c):
    return dict(start=c["start"], stop=c["stop"], num_steps=c["n"], hom_deg=c["hom_deg"])


def _shared_pla(c, memo):
    """the one PersLandscapeApprox object of (diagram, grid) in this history"""
    from persim.landscapes import PersLandscapeApprox
    return history.intern(memo, ["pla"] + _key(c), lambda: PersLandscapeApprox(dgms=_arrs(c, memo), **_kw(c)))


def _do_op(op, c, memo):
    """use the shared landscape object of step c (P) the way a user does between two looks at P.values: arithmetic
    with the shared landscape Q of another diagram, running sums, scalar multiples, norms, slicing, the tools that
    take lists of landscapes.  The results are not judged (the property says nothing about them); what is judged is
    that P.values / Q.values are STILL the sampled landscapes of their diagrams when they are observed again."""
    from persim.landscapes import PersLandscapeApprox
    from persim.landscapes.tools import snap_pl, lc_approx, average_approx
    try:
        P = _shared_pla(c, memo)
        Q = _shared_pla(op["other"], memo) if op.get("other") else None
        k = op["op"]
        if k == "add":
            r = P + Q
        elif k == "sub":
            r = P - Q
        elif k == "running":        # running sum / mean, P first
            acc = P
            for _ in range(2):
                acc = acc + Q
            r = acc / 3
        elif k == "mul":
            r = op.get("x", 2.5) * P
        elif k == "div":
            r = P / op.get("x", 2.0)
        elif k == "neg":
            r = -P
        elif k == "norms":
            r = (P.p_norm(2), P.p_norm(1), P.sup_norm())
        elif k == "slice":
            r = (P[0], P[0:2], P.values_to_pairs())
        elif k == "recompute":
            r = P.compute_landscape()
        elif k == "snap":
            r = snap_pl([P, Q])
        elif k == "snap_other":     # onto another grid
            r = snap_pl([P, Q], start=float(P.start) - 1.0, stop=float(P.stop) + 1.0, num_steps=int(P.num_steps) + 3)
        elif k == "lc":
            r = lc_approx([P, Q], [op.get("x", 2.0), -1.0])
        elif k == "avg":
            r = average_approx([P, Q])
        elif k == "badgrid":        # rejected: the grids differ
            R = PersLandscapeApprox(dgms=_arrs(c, memo), start=c["start"], stop=c["stop"], num_steps=c["n"] + 1,
                                    hom_deg=c["hom_deg"])
            r = P + R
        else:
            return "unknown"
        return "ok"
    except Exception as e:  # noqa
        return "error:%s" % type(e).__name__


def impl_call(c, memo=None):
    """One case.  memo is None: every persim call gets freshly built arrays and objects.  Inside a history
    (harness/history.py) the arrays are shared by identity between the steps, and a step with "obj": "shared" also
    shares its PersLandscapeApprox object (key: diagram + grid) and its PersistenceLandscaper objects (key: the
    constructor parameters) with the other steps of the history."""
    import io
    import contextlib
    import numpy as np
    from persim.landscapes import PersLandscapeApprox, PersLandscapeExact, PersistenceLandscaper
    from persim.landscapes.tools import vectorize, death_vector

    def arrs():
        return _arrs(c, memo)
    shared = memo is not None and c.get("obj") == "shared"
    kw = _kw(c)
    o = {}
    sink = io.StringIO()
    if c.get("big"):
        # size class: only a sample of columns crosses the boundary
        with contextlib.redirect_stdout(sink):
            keep = {}

            def approx_big():
                p = PersLandscapeApprox(dgms=arrs(), **kw)
                v = np.asarray(p.values)
                keep["v"] = v
                if v.dtype.kind not in "fiu" or v.ndim != 2:
                    return _enc_values(v) if v.size < 1000 else {"error": "BadValues", "msg": "dtype %s shape %s" % (v.dtype, v.shape)}
                return {"big": True, "shape": list(v.shape), "nan": bool(np.isnan(v).any()),
                        "cols": {str(i): v[:, i].astype(float).tolist() for i in c["cols"] if i < v.shape[1]},
                        "start": float(p.start), "stop": float(p.stop), "max_depth": int(p.max_depth)}
            o["approx"] = core.guarded(approx_big)

            def same(flatten):
                t = np.asarray(PersistenceLandscaper(flatten=flatten, **kw).fit_transform(arrs()))
                want = keep["v"].flatten() if flatten else keep["v"]
                return {"same": bool(t.shape == want.shape and np.array_equal(t, want)), "shape": list(t.shape)}
            o["land"] = core.guarded(lambda: same(False))
            o["flat"] = core.guarded(lambda: same(True))
            o["dv"] = core.guarded(lambda: {"vals": [("inf" if x == float("inf") else float(x)) for x in death_vector(arrs())]})
        return o
    with contextlib.redirect_stdout(sink):
        def approx():
            p = _shared_pla(c, memo) if shared else PersLandscapeApprox(dgms=arrs(), **kw)
            r = _enc_values(p.values)
            r["start"], r["stop"], r["max_depth"] = float(p.start), float(p.stop), int(p.max_depth)
            return r
        o["approx"] = core.guarded(approx)

        def landscaper(flatten):
            if shared:
                return history.intern(memo, ["tr", c["hom_deg"], c["start"], c["stop"], c["n"], flatten],
                                      lambda: PersistenceLandscaper(flatten=flatten, **kw))
            return PersistenceLandscaper(flatten=flatten, **kw)
        # the transformer learns missing grid ends from the RAW diagram (infinite bars included): outside "finite
        # diagrams" as soon as an end is learned and the degree has an infinite bar
        inf_grid = ((c["stop"] is None or c["start"] is None) and c["hom_deg"] < len(c["dgms"])
                    and any(d == "inf" for _, d in c["dgms"][c["hom_deg"]]))
        if inf_grid:
            o["land"] = o["flat"] = {"skip": "infinite bar with a learned grid end"}
        else:
            def transformed(flatten):
                r = landscaper(flatten).fit_transform(arrs())
                e = _enc_values(r)
                history.scribble(r)     # the caller owns what it got back: a later call must not depend on it
                return e
            o["land"] = core.guarded(lambda: transformed(False))
            o["flat"] = core.guarded(lambda: transformed(True))

            def refit():
                # the same object fitted on OTHER data first: user-fixed ends stay, learned ends are learned afresh
                t = PersistenceLandscaper(flatten=False, **kw)
                t.fit([3.0 * a.astype(float) - 1.0 for a in arrs()])
                r = t.fit_transform(arrs())
                e = _enc_values(r)
                history.scribble(r)
                return e
            o["refit"] = core.guarded(refit)
        if c.get("train"):
            def fit_other():
                # fit on OTHER data A (ends the user did not fix are learned from A), then transform the case's diagrams
                # B: the result must be the sampled landscape of B on the FITTED grid (reported by the estimator)
                tr = c["train"]
                tc = dict(c)
                tc["dgms"] = tr["dgms"]
                A = _arrs(tc, memo)
                flat = bool(tr.get("flatten"))
                t = landscaper(flat)
                mode = tr.get("mode", "fit")
                if mode == "fit_transform":
                    history.scribble(t.fit_transform(A))
                else:
                    t.fit(A)
                    if mode == "fit_then_transform_train":
                        history.scribble(t.transform(A))
                    elif mode == "clone":
                        from sklearn.base import clone
                        t = clone(t).fit(A)

                def num(x):
                    try:
                        return None if x is None else float(x)
                    except Exception:  # noqa
                        return None
                grid = [num(getattr(t, "start", None)), num(getattr(t, "stop", None)), getattr(t, "num_steps", None)]
                B = arrs()
                r = t.transform(B)
                e = _enc_values(r)
                e["grid"] = grid if isinstance(grid[2], int) else grid[:2] + [None]
                history.scribble(r)
                # the approximate landscape of B on the grid the fitted estimator reports
                e["ref"] = core.guarded(lambda: _enc_values(PersLandscapeApprox(
                    dgms=B, start=t.start, stop=t.stop, num_steps=t.num_steps, hom_deg=c["hom_deg"]).values))
                return e
            o["fo"] = core.guarded(fit_other)
        if c.get("vec"):
            def vec():
                e = PersLandscapeExact(dgms=arrs(), hom_deg=c["hom_deg"])
                v = vectorize(e, start=c["start"], stop=c["stop"], num_steps=c["n"])
                r = _enc_values(v.values)
                r["cps"] = [[[float(x), float(y)] for x, y in depth] for depth in e.critical_pairs]
                r["start"], r["stop"] = float(v.start), float(v.stop)
                history.scribble(v.values)
                return r
            o["vec"] = core.guarded(vec)
        if c["dgms"] and c["dgms"][0]:
            o["dv"] = core.guarded(lambda: {"vals": [("inf" if x == float("inf") else float(x)) for x in death_vector(arrs())]})
        if shared and c.get("ops"):
            o["ops"] = [_do_op(op, c, memo) for op in c["ops"]]
    return o


def impl_run(cases):
    return [history.run(c, impl_call) if history.is_hist(c) else impl_call(c, None) for c in cases]


# ------------------------------------------------------------------------------- the spec (independent of the model)
def _kth_largest(vals, k):
    s = sorted(vals, reverse=True)
    return s[k - 1] if k <= len(s) else Fraction(0)


def _tent(b, d, t):
    return max(Fraction(0), min(t - b, d - t))


def _pl_eval(cps, t):
    """linear interpolation of breakpoints, zero outside"""
    if not cps or t < cps[0][0] or t > cps[-1][0]:
        return Fraction(0)
    for (x0, y0), (x1, y1) in zip(cps, cps[1:]):
        if x0 <= t <= x1 and x0 < x1:
            return y0 + (y1 - y0) * (t - x0) / (x1 - x0)
    return cps[-1][1] if t == cps[-1][0] else Fraction(0)


def _scope(c):
    """(bars, start, stop, step) as Fractions when the case is inside the property's quantifier, else None"""
    if not (0 <= c["hom_deg"] < len(c["dgms"])) or c["n"] < 2:
        return None
    bars = [(Fraction(_f(b)), Fraction(_f(d))) for b, d in c["dgms"][c["hom_deg"]] if d != "inf" and b != "inf"]
    if not bars:
        return None
    start = Fraction(c["start"]) if c["start"] is not None else min(b for b, _ in bars)
    stop = Fraction(c["stop"]) if c["stop"] is not None else max(d for _, d in bars)
    if not start < stop or any(not (start <= b <= d <= stop) for b, d in bars):
        return None
    return bars, start, stop, (stop - start) / (c["n"] - 1)


def _slack(c, start, stop):
    if c["family"] == "exact":
        return Fraction(0)
    if c.get("slack_rel"):    # magnitude classes: relative to the larger grid end, no absolute floor
        return Fraction(c["slack_rel"]) * max(abs(start), abs(stop))
    return Fraction(1, 10 ** 9) * max(1, abs(start), abs(stop))


def _numeric(o, what):
    if "error" in o:
        return "unexpected-error(%s): %s" % (what, o)
    if "marker" in o:
        return "non-numeric(%s): values is a %s array %s" % (what, o["dtype"], o["marker"])
    return None


def predicate(c, o):
    if history.is_hist(c):
        return history.predicate(c, o, predicate)
    sc = _scope(c)
    # death vector: sorted descending, a rearrangement of the deaths of degree 0
    if "dv" in o:
        dv = o["dv"]
        if "error" in dv:
            return False, "death-vector-error: %s" % dv
        vals = [_f(x) for x in dv["vals"]]
        if any(a < b for a, b in zip(vals, vals[1:])):
            return False, "death-vector-order: %s is not non-increasing" % vals
        if sorted(vals) != sorted(_f(d) for _, d in c["dgms"][0]):
            return False, "death-vector-content: %s is not a rearrangement of the deaths" % vals
    if sc is None:
        return True, "out-of-scope"
    bars, start, stop, step = sc
    n = c["n"]
    slack = _slack(c, start, stop)
    a = o["approx"]
    bad = _numeric(a, "approx")
    if bad:
        return False, bad
    if c.get("big"):
        return _predicate_big(c, o, bars, start, stop, step, slack)
    rows = a["rows"]
    if len(a["shape"]) == 2 and a["shape"][1] != n:
        return False, "shape(approx): %s for %d nodes" % (a["shape"], n)
    if len(a["shape"]) not in (1, 2) or (len(a["shape"]) == 1 and a["shape"][0] != 0):
        return False, "shape(approx): %s" % (a["shape"],)
    bad = _half_step(rows, bars, start, step, n, slack, "approx")
    if bad:
        return False, bad
    # the transformer returns the approximate class's values
    for key, flat in (("land", False), ("flat", True), ("refit", False)):
        t = o.get(key, {})
        if "skip" in t or (key == "refit" and not t):
            continue
        bad = _numeric(t, key)
        if bad:
            return False, bad
        want = [x for r in rows for x in r] if flat else rows
        got = t["rows"]
        if got != want:
            return False, ("landscaper(%s): transformer output differs from PersLandscapeApprox.values on the configured "
                           "grid (user-fixed ends: %s)" % (key, c.get("fix", "both")))
    if c.get("train") and "fo" in o:
        bad = _predicate_fit_other(c, o["fo"], bars)
        if bad:
            return False, bad
    # vectorize reproduces the exact landscape (its own breakpoints) at the grid nodes
    if "vec" in o:
        v = o["vec"]
        bad = _numeric(v, "vectorize")
        if bad:
            return False, bad
        cps = [[(Fraction(x), Fraction(y)) for x, y in depth] for depth in v["cps"]]
        vs, ve = Fraction(v["start"]), Fraction(v["stop"])
        ws = start if c["start"] is not None else min(x for x, _ in cps[0])
        we = stop if c["stop"] is not None else max(x for x, _ in cps[0])
        if vs != ws or ve != we:
            return False, "vectorize-grid: grid ends %s..%s, expected %s..%s" % (v["start"], v["stop"], float(ws), float(we))
        vstep = (ve - vs) / (n - 1)
        if len(v["rows"]) != len(cps) or any(len(r) != n for r in v["rows"]):
            return False, "shape(vectorize): %s for %d depths, %d nodes" % (v["shape"], len(cps), n)
        for k, depth in enumerate(cps):
            for i in range(n):
                g = vs + i * vstep
                true = _pl_eval(depth, g)
                if abs(Fraction(v["rows"][k][i]) - true) > slack:
                    return False, ("vectorize: depth %d node %d (t=%s): sampled %s, exact landscape %s"
                                   % (k, i, float(g), v["rows"][k][i], float(true)))
    return True, ""


def _half_step(rows, bars, start, step, n, slack, what):
    """the half-step bound (exactness when every end point is a node) of a depth x node table on the grid
    start + i * step, all depths (those beyond the table count as zero); None or the description of the failure"""
    nodes = [start + i * step for i in range(n)]
    on_grid = all(((x - start) / step).denominator == 1 for bd in bars for x in bd)
    bound = slack if on_grid else step / 2 + slack
    pre = "" if what == "approx" else "-" + what
    for k in range(max(len(rows), len(bars)) + 1):
        for i, g in enumerate(nodes):
            v = Fraction(rows[k][i]) if k < len(rows) else Fraction(0)
            if rows and k < len(rows) and rows[k][i] != rows[k][i]:
                return "nan(%s): depth %d node %d" % (what, k, i)
            true = _kth_largest([_tent(b, d, g) for b, d in bars], k + 1)
            if abs(v - true) > bound:
                return ("half-step%s: depth %d node %d (t=%s): value %s, k-th largest tent %s, |diff| %s > %s%s"
                        % (pre, k, i, float(g), float(v), float(true), float(abs(v - true)), float(bound),
                           " (all end points on the grid: must be exact)" if on_grid else ""))
    return None


def _predicate_fit_other(c, fo, bars):
    """fit(A) with learned grid ends, then transform(B), B = the case's diagrams: the output must be the sampled
    approximate landscape of B on the FITTED grid - the ends the user fixed, the others as the estimator reports them
    after fit (if it reports none: the extreme birth / death of A, the default grid of A) -, judged like any other grid
    landscape (half a step, exact when every end point of B is a node), and must equal PersLandscapeApprox.values of B
    on that grid (flattened on request)."""
    tr = c["train"]
    fixed = {(True, True): "both", (True, False): "start", (False, True): "stop", (False, False): "none"}[
        (c["start"] is not None, c["stop"] is not None)]
    how = "fit on other data (%s), then transform; user-fixed ends: %s" % (tr.get("mode", "fit"), fixed)
    if "error" in fo:
        return "unexpected-error(fit-other): %s [%s]" % (fo, how)
    grid = fo.get("grid") or [None, None, None]
    A = [(Fraction(_f(b)), Fraction(_f(d))) for b, d in tr["dgms"][c["hom_deg"]] if d != "inf"]
    gs = Fraction(c["start"]) if c["start"] is not None else Fraction(grid[0]) if grid[0] is not None and grid[0] == grid[0] \
        else min(b for b, _ in A)
    ge = Fraction(c["stop"]) if c["stop"] is not None else Fraction(grid[1]) if grid[1] is not None and grid[1] == grid[1] \
        else max(d for _, d in A)
    n = c["n"]
    if not gs < ge or any(not (gs <= b <= d <= ge) for b, d in bars):
        return None          # the fitted grid does not cover B: outside the quantifier
    bad = _numeric(fo, "fit-other")
    if bad:
        return bad + " [%s]" % how
    rows, shape = fo["rows"], fo["shape"]
    flat = bool(tr.get("flatten"))
    if flat:
        if len(shape) != 1 or shape[0] % n:
            return "shape(fit-other): flattened output of shape %s for %d nodes [%s]" % (shape, n, how)
        rows = [rows[i:i + n] for i in range(0, len(rows), n)]
    elif len(shape) != 2 or shape[1] != n:
        return "shape(fit-other): %s for %d nodes [%s]" % (shape, n, how)
    step = (ge - gs) / (n - 1)
    bad = _half_step(rows, bars, gs, step, n, _slack(c, gs, ge), "fit-other")
    if bad:
        return bad + " [%s; fitted grid %s..%s, %d nodes]" % (how, float(gs), float(ge), n)
    ref = fo.get("ref", {})
    if "rows" in ref and len(ref["shape"]) == 2:
        if rows != ref["rows"]:
            return ("landscaper(fit-other): transformer output differs from PersLandscapeApprox.values on the fitted grid "
                    "%s..%s, %d nodes [%s]" % (float(gs), float(ge), n, how))
    return None


def _predicate_big(c, o, bars, start, stop, step, slack):
    """the half-step bound at the sampled nodes (all depths), for the size class"""
    a, n = o["approx"], c["n"]
    if not a.get("big") or len(a["shape"]) != 2 or a["shape"][1] != n:
        return False, "shape(approx): %s for %d nodes" % (a.get("shape"), n)
    if a["nan"]:
        return False, "nan(approx): values contain nan"
    on_grid = all(((x - start) / step).denominator == 1 for bd in bars for x in bd)
    bound = slack if on_grid else step / 2 + slack
    for i in c["cols"]:
        col = a["cols"].get(str(i))
        if col is None:
            return False, "shape(approx): node %d missing" % i
        g = start + i * step
        tents = sorted((min(g - b, d - g) for b, d in bars if b < g < d), reverse=True)
        for k in range(max(len(col), len(tents)) + 1):
            v = Fraction(col[k]) if k < len(col) else Fraction(0)
            true = tents[k] if k < len(tents) else Fraction(0)
            if abs(v - true) > bound:
                return False, ("half-step: depth %d node %d (t=%s): value %s, k-th largest tent %s, |diff| %s > %s (%d bars)"
                               % (k, i, float(g), float(v), float(true), float(abs(v - true)), float(bound), len(bars)))
    for key in ("land", "flat"):
        t = o.get(key, {})
        if "error" in t:
            return False, "unexpected-error(%s): %s" % (key, t)
        if not t.get("same"):
            return False, "landscaper(%s): transformer output differs from PersLandscapeApprox.values" % key
    return True, ""


def nontrivial(c, o):
    if history.is_hist(c):
        return history.nontrivial(c, o, nontrivial)
    sc = _scope(c)
    a = o.get("approx", {})
    if c.get("big"):
        return sc is not None and a.get("big") is True and a["shape"][0] >= 1
    if sc is None or "rows" not in a or not a["rows"]:
        return False
    bars, start, stop, step = sc
    if not any(x > 0 for r in a["rows"] for x in r):
        return False
    off = any(((x - start) / step).denominator != 1 for bd in bars for x in bd)
    return off or len(a["rows"]) >= 2


def finding_of(c, o, detail):
    """approximate.py:235-237: L.size == 0 replaced by np.array(['empty'])"""
    a = o.get("approx", {})
    if detail.startswith("non-numeric") and a.get("marker") == ["empty"]:
        return FINDING_EMPTY
    return None


# ------------------------------------------------------------------------------- the model, run inside Coq
HEADER = """From Coq Require Import QArith List ZArith.
From Persim Require Import Lib.Kth Lib.PL Model.ApproxM Corr.ApproxCorr.
Import ListNotations.
Open Scope Q_scope.
"""
Q = core.coq_Q


def _finite(x):
    return x == x and x not in (float("inf"), float("-inf"))


def _coq_rows(rows):
    return core.coq_list([core.coq_list([Q(x) for x in r]) for r in rows])


def _coq_iout(o):
    """IVals / IMarker / IErr... ; None when the observation cannot be expressed"""
    if "skip" in o:
        return "ISkip"
    if "error" in o:
        return {"IndexError": "IErrIndex", "ValueError": "IErrValue"}.get(o["error"])
    if "marker" in o:
        return "IMarker" if o["marker"] == ["empty"] else None
    rows = o["rows"]
    if len(o["shape"]) == 1:
        if any(not _finite(x) for x in rows):
            return None
        return "(IVec %s)" % core.coq_list([Q(x) for x in rows])
    if len(o["shape"]) != 2 or any(not _finite(x) for r in rows for x in r):
        return None
    return "(IVals %s)" % _coq_rows(rows)


def _same_obs(a, t, flat):
    """is the transformer observation t literally the approx observation a (flattened if flat)?"""
    if "rows" in a and "rows" in t and len(a["shape"]) == 2:
        want = [x for r in a["rows"] for x in r] if flat else a["rows"]
        return t["rows"] == want and len(t["shape"]) == (1 if flat else 2)
    if "marker" in a and "marker" in t:
        return a["marker"] == t["marker"]
    return False


def _coq_opt(x):
    return "None" if x is None else "(Some %s)" % Q(x)


def _coq_ext(x):
    return "PInf" if x == "inf" else "(Fin %s)" % Q(_f(x))


def _term(c, o):
    sc_start = Fraction(c["start"]) if c["start"] is not None else Fraction(0)
    sc_stop = Fraction(c["stop"]) if c["stop"] is not None else Fraction(0)
    if c["family"] == "exact":
        tol = Fraction(0)
    elif c.get("slack_rel"):
        sc = _scope(c)
        tol = _slack(c, sc[1], sc[2]) if sc else Fraction(0)
    else:
        tol = Fraction(1, 10 ** 9) * max(1, abs(sc_start), abs(sc_stop))
    dg = core.coq_list([core.coq_list(["(%s, %s)" % (_coq_ext(b), _coq_ext(d)) for b, d in d_]) for d_ in c["dgms"]])
    oa = _coq_iout(o["approx"])
    # identical observations are shared instead of being printed (and parsed) three times
    ol = "ISame" if _same_obs(o["approx"], o["land"], False) else _coq_iout(o["land"])
    of = "ISameFlat" if _same_obs(o["approx"], o["flat"], True) else _coq_iout(o["flat"])
    if oa is None or ol is None or of is None:
        return None
    ov = "VSkip"
    if "vec" in o:
        v = o["vec"]
        if "rows" not in v or any(not _finite(x) for r in v["rows"] for x in r):
            return None
        cps = core.coq_list([core.coq_list(["(%s, %s)" % (Q(x), Q(y)) for x, y in depth]) for depth in v["cps"]])
        ov = "(VObs %s %s %s %s %s %s)" % (cps, _coq_opt(c["start"]), _coq_opt(c["stop"]), Q(v["start"]), Q(v["stop"]),
                                            _coq_rows(v["rows"]))
    od = "None"
    if "dv" in o:
        if "vals" not in o["dv"]:
            return None
        od = "(Some %s)" % core.coq_list([_coq_ext(x) for x in o["dv"]["vals"]])
    return "check_case %s %s %s %d%%nat %s %d%%nat %s %s %s %s %s" % (
        Q(tol), _coq_opt(c["start"]), _coq_opt(c["stop"]), c["n"], dg, c["hom_deg"], oa, ol, of, ov, od)


def coq_jobs(cases, outs):
    return []   # evaluated by coq_judge through core.eval_cases


_PARTS = ["approx", "landscaper", "landscaper-flat", "vectorize", "death_vector"]


def coq_judge(cases, outs, results):
    verdicts = ["disagree:observation not expressible (nan/inf, unknown exception or unknown marker)"] * len(cases)
    terms, idx = [], []
    for i, (c, o) in enumerate(zip(cases, outs)):
        if c.get("big"):
            verdicts[i] = "skip:size (thousands of bars: vm_compute of the model is not run, predicate only)"
            continue
        if history.is_hist(c):
            verdicts[i] = "skip:history (every step is judged by the spec predicate)"
            continue
        if "refit" in o and o["refit"] != o.get("land"):
            verdicts[i] = "disagree:a refitted transformer differs from a fresh one (model: fit depends only on the user's start/stop)"
            continue
        t = _term(c, o)
        if t is not None:
            idx.append(i)
            terms.append(t)
    # the terms are dealt round-robin to the Coq jobs (the expensive classes - many nodes - are generated in blocks);
    # up to 1024 terms: one job per worker
    nt = len(terms)
    njobs = max(1, min(nt, core.NPROC if nt <= 64 * core.NPROC else -(-nt // 40)))
    perm = [i for k in range(njobs) for i in range(k, nt, njobs)]
    toks_p, _ = core.eval_cases(PID, HEADER, [terms[i] for i in perm], chunk=max(1, -(-nt // njobs)))
    toks = ["ERROR"] * nt
    for j, t in zip(perm, toks_p):
        toks[j] = t
    for i, t in zip(idx, toks):
        try:
            code = int(t.replace("%Z", "").strip("() "))
        except ValueError:
            verdicts[i] = "disagree:model run failed (%s)" % t[:40]
            continue
        if code == 0:
            verdicts[i] = "agree"
            continue
        digits = [code % 4, (code // 4) % 4, (code // 16) % 4, (code // 64) % 2, (code // 128) % 2]
        bad = [p for p, d in zip(_PARTS, digits) if d >= 2 or (p in ("vectorize", "death_vector") and d == 1)]
        if bad:
            verdicts[i] = "disagree:model and implementation differ on " + ",".join(bad)
        else:
            verdicts[i] = "legacy:" + FINDING_EMPTY
    return verdicts


def shrink_candidates(c):
    def mk(**kw):
        d = dict(c)
        d.update(kw)
        d["dgms"] = [[list(b) for b in dg] for dg in d["dgms"]]
        d["vec"] = False if d.get("big") else _vec_ok(d)
        return d
    if history.is_hist(c):
        yield from history.shrink(c)
        for i, st in enumerate(c["seq"]):       # then use the objects less between the observations
            for j in range(len(st.get("ops") or [])):
                d = dict(c)
                st2 = dict(st)
                st2["ops"] = st["ops"][:j] + st["ops"][j + 1:]
                d["seq"] = c["seq"][:i] + [st2] + c["seq"][i + 1:]
                yield d
        return
    if c.get("big"):
        # drop blocks of bars (the failure may need the size, so only a few coarse candidates);
        # with explicit grid ends only, so that the grid does not move
        dg = c["dgms"][0]
        if c["start"] is not None and len(dg) > 8:
            h = len(dg) // 2
            q = len(dg) // 4
            for lo_, hi_ in ((0, h), (h, len(dg)), (0, q), (len(dg) - q, len(dg))):
                yield mk(dgms=[dg[:lo_] + dg[hi_:]])
        elif c["start"] is not None and len(dg) > 1:
            for j in range(len(dg)):
                yield mk(dgms=[dg[:j] + dg[j + 1:]])
        return
    if len(c["dgms"]) > 1 and c["hom_deg"] < len(c["dgms"]):
        yield mk(dgms=[c["dgms"][c["hom_deg"]]], hom_deg=0)
    if c["hom_deg"] < len(c["dgms"]):
        dg = c["dgms"][c["hom_deg"]]
        if len(dg) > 1:
            for j in range(len(dg)):
                ds = [list(x) for x in c["dgms"]]
                ds[c["hom_deg"]] = dg[:j] + dg[j + 1:]
                yield mk(dgms=ds)
    if c.get("rep") == "int":
        yield mk(rep="float")
    if c.get("layout", "C") != "C":
        yield mk(layout="C")
    if c.get("dtype", "float") != "float":
        yield mk(dtype="float")
    if c.get("ops"):
        d = mk()
        d.pop("ops")
        yield d


def search_generate(rng, n):
    cs = [_exact_case(rng, rng.choice(["on_grid", "half_tie", "off_grid", "mixed", "narrow", "defaults", "dup", "tiny", "offset"]))
          for _ in range(n // 2)] + [_tol_case(rng) if i % 3 else _mag_case(rng, rng.choice(MAG_KINDS)) for i in range(n - n // 2)]
    for c in cs:
        c["vec"] = _vec_ok(c)
    return _add_training(rng, cs)
