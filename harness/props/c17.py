"""C17 - mGH accepts every graph representation and degrades gracefully.

Model: coq/Model/GraphM.v (adjacency reading of shortest_path(directed=False, unweighted=True), hop
metric, components, first largest component, restriction of rows AND columns, pair/collection
dispatch) on top of Model/MGHM.v (C05).  Each case passes one graph pair in several representations
(nested lists / dense / csr / csc / lil / coo / dok / dia / bsr matrices and csr / coo / csc sparse arrays, Fortran-ordered float / bool / int dense arrays, sparse matrices with explicitly stored zeros; upper, lower, mixed, symmetric, weighted; relabelled) or a
collection of 1-5 graphs to persim.gromov_hausdorff; distance matrices, warnings, exceptions and
lower bounds are compared with the model inside Coq (Corr/GraphCorr.v), and the spec (own BFS,
components, brute-force mGH) is evaluated on the outputs independently of the model.
Element types of 8 / 16 bits (dense and sparse), the sequence that holds a collection (list, tuple, deque, object array,
one stacked 3-D array, a lazily materialising Sequence), collections of 9-18 graphs, and call histories on shared
argument objects (harness/history.py; every step is judged by the spec predicate) are generated as well."""
import itertools

from .. import core, history
from . import c05

PID = "C17"
THEOREMS = [
    "same_edges_same_metric", "upper_eq_symmetric", "relabel_bracket", "relabelled_graph_same_metric",
    "relabelled_graphs_isometric", "hop_metric_is_shortest_path", "make_dm_returns_metric",
    "relabelled_connected_graphs_isometric_dm", "pair_call_end_to_end", "dtype_roundtrip", "dtype_boundaries", "collection_symmetric_zero_diag",
    "collection_entries_are_pairwise", "largest_component_connected", "largest_component_is_metric", "largest_component_is_induced_metric",
    "pair_brackets", "collection_entries_bracket", "fallback_legacy_refuted", "fallback_legacy_always_raises",
]
RULE = ("seeded generator: graphs with 1-7 vertices, connected or with 2-3 components (ties among largest components "
        "included); each pair is passed in 4-6 variants drawn from containers {nested list, dense, csr, csc, lil, coo, dok, dia, bsr matrices, csr/coo/csc sparse arrays} x "
        "encodings {upper, lower, mixed orientation, symmetric, weighted symmetric} x {identity, random relabelling}; "
        "collections of 1-5 graphs (1 must raise); graphs whose diameter is exactly 126..129 and 254..256 (dtype boundaries) against a single vertex / an edge; non-trivial = some graph is "
        "disconnected, or >= 3 distinct representations of a pair with >= 3 vertices, or a collection of >= 3 graphs; "
        "distinct = distinct JSON input. "
        "Element types: besides int64 / float64 / bool, C-contiguous dense arrays of int8, uint8, int16, uint16, float16, float32, bool and "
        "csr / csc / coo / lil matrices of int8, uint8, bool, float32. "
        "The sequence holding a collection: list, tuple, deque, 1-D object ndarray, ONE stacked 3-D ndarray (C- or Fortran-ordered; "
        "members of one size), or a Sequence that builds a new member object on every __getitem__. "
        "Big collections: 9, 10, 12 and 17 graphs of 1-5 vertices (thorough: 9-12, 17, 18, 33), mostly in 8- / 16-bit dense arrays, so "
        "that one call converts each member more than 8 / 16 times. "
        "Call histories (14 quick / 250 thorough; all steps in one process, equal (matrix, format) arguments and equal collections are "
        "THE SAME objects, every returned array is overwritten by the caller after its values were read, every step must satisfy the "
        "spec on the graphs handed over): repeat = one pair 9-12 times (>= 18 conversions of each object); loop = all ordered pairs of "
        "3-5 graphs plus one graph against itself by identity; coll = collection, pair calls on its members, the collection again "
        "under other RNG states, a rotated collection, a collection listing one object twice (the first coll histories of a run use a "
        "list, a stacked array, a lazy sequence, an object array); fault = between clean calls, calls aborted half-way (warnings "
        "escalated to errors on a disconnected graph, a ragged member, a malformed mapping_sample_size_order; their outcome is not "
        "judged). A history is non-trivial when >= 2 judged steps involve a graph with >= 3 vertices or a disconnected graph")
TRUSTED_BASE = [
    "Coq 8.16.1 kernel, vm_compute; development closed under the global context (no axioms)",
    "hand-written model Model/GraphM.v of gromov_hausdorff.py lines 143-263; its Floyd-Warshall is proved to be a "
    "correct shortest-path answer (hop_metric_is_shortest_path) and stands for scipy shortest_path / "
    "connected_components, which are compared with it per case",
    "harness: generator of representations, warning/exception capture, printer, verdict parser; call histories "
    "(harness/history.py: interning of argument objects, overwriting of returned arrays); histories are not run through the model",
    "independent Python predicate: BFS, components, branch-and-bound mGH between largest components",
]
ASSUMPTIONS = [
    "scipy shortest_path(directed=False, unweighted=True) returns the hop metric of the undirected graph whose edges "
    "are the stored non-zeros, and connected_components labels components by smallest vertex (both compared per case)",
    "theorems about the fallback hold for ANY shortest-path result whose finiteness relation is an equivalence (and "
    "for any correct shortest-path answer, spec sp); the executable instance is proved to be one",
    "explicitly stored zeros in sparse inputs are non-edges (generated: formats *_xz, *_xzh); NaN/inf entries and "
    "non-square inputs are outside the generator",
    "the upper bound of a collection is random: each collection is run with several NumPy seeds",
    "the property does not forbid persim to modify an argument in place: inside a history each later step is judged against the "
    "graph that was originally handed over, so an in-place change is reported only when it changes a later result",
    "adjacency weights are 1..9 (fit every generated element type); a collection is a sized, integer-indexable sequence "
    "(generators without len() are outside the generator)",
    "lower-bound soundness inherits C05's explicit greedy-completeness hypothesis",
]
COQ_DEPS = ["Corr/GraphCorr.vo"]
FINDING = "C17-largest-component-rows-only"


# ---------------------------------------------------------------- generators
def _components(A):
    D = c05._bfs(A)
    n = len(A)
    seen, comps = set(), []
    for i in range(n):
        if i not in seen:
            comp = [j for j in range(n) if D[i][j] is not None]
            seen.update(comp)
            comps.append(comp)
    return comps


def _disconnected(rng, n):
    """upper-triangular adjacency with 2-3 components on n >= 2 vertices, randomly labelled"""
    k = rng.randint(2, min(3, n))
    sizes = [1] * k
    for _ in range(n - k):
        sizes[rng.randrange(k)] += 1
    if rng.random() < 0.4 and n >= 4:            # tie among the largest components
        sizes = [n // 2, n // 2] + ([n - 2 * (n // 2)] if n % 2 else [])
    edges, base = [], 0
    for s in sizes:
        sub = c05._graph(rng, rng.choice(c05.KINDS), s)
        edges += [(a + base, b + base) for a, b in c05._edges(sub)]
        base += s
    return c05._relabel(c05._upper(n, edges), c05._perm(rng, n))


def _any_graph(rng, pdis, lo=1, hi=7):
    n = rng.randint(lo, hi)
    if n >= 2 and rng.random() < pdis:
        return _disconnected(rng, n)
    return c05._graph(rng, rng.choice(c05.KINDS), n)


ENCODINGS = ["upper", "lower", "mixed", "symmetric", "weighted"]
# every container / sparsity format; coo, dok, dia, bsr and the sparse arrays raised ValueError inside scipy's csgraph
# before /repo d1032fb converted sparse input with .tocsr()
# dense_*_F: Fortran-ordered (non-C-contiguous) dense arrays, as produced by transposing or relabelling A[p][:, p]
FORMATS = ["list", "dense", "csr", "csc", "lil", "csr_array", "coo", "dok", "dia", "bsr", "coo_array", "csc_array",
           "dense_float_F", "dense_bool_F", "dense_int_F", "dense_float",
           # *_xz / *_xzh: sparse input built from (data, (rows, cols)) triples in which every / a pseudo-random half of the
           # off-diagonal zero entries is EXPLICITLY STORED (between components of disconnected graphs and inside them);
           # a stored zero is not an edge
           "csr_xz", "csc_xz", "coo_xz", "bsr_xz", "csr_xzh", "csc_xzh", "coo_xzh", "bsr_xzh"]
# C-contiguous dense arrays and sparse matrices of SMALL element types (what networkx.to_numpy_array(G, dtype=np.uint8) or
# a bool mask gives): entries of such an input wrap around / overflow after a handful of in-place arithmetic operations
SMALL_DENSE = ["dense_int8", "dense_uint8", "dense_int16", "dense_uint16", "dense_float16", "dense_float32", "dense_bool"]
SMALL_SPARSE = {"csr_i8": ("csr", "int8"), "csr_u8": ("csr", "uint8"), "csc_i8": ("csc", "int8"), "coo_u8": ("coo", "uint8"),
                "csr_b": ("csr", "bool"), "csr_f32": ("csr", "float32"), "lil_i8": ("lil", "int8")}
SMALL = SMALL_DENSE + sorted(SMALL_SPARSE)
FORMATS += SMALL
# formats that give a 2-D ndarray (or nested lists): members of a collection handed over as ONE stacked 3-D array
DENSE_FORMATS = ["list"] + [f for f in FORMATS if f.startswith("dense")]
# the sequence that holds a collection: list / tuple / deque / 1-D object ndarray of the member objects; "stack" / "stack_F":
# one 3-D ndarray of shape (N, n, n) (C- / Fortran-ordered) whose items As[i] are fresh views; "lazy": a Sequence that
# builds a new member object on every __getitem__ (a loader)
OUTERS = ["list", "tuple", "deque", "objarray", "lazy", "stack", "stack_F"]


def _encode(rng, A, enc, perm):
    n = len(A)
    M = [[0] * n for _ in range(n)]
    for a, b in c05._edges(A):
        if perm is not None:
            a, b = perm[a], perm[b]
        lo, hi = min(a, b), max(a, b)
        w = rng.randint(2, 9) if enc == "weighted" else 1
        if enc == "upper":
            M[lo][hi] = 1
        elif enc == "lower":
            M[hi][lo] = 1
        elif enc == "mixed":
            if rng.random() < 0.5:
                M[lo][hi] = 1
            else:
                M[hi][lo] = 1
        else:
            M[lo][hi] = M[hi][lo] = w
    return M


def _pair_case(rng, G, H, cls, nvar=None):
    variants = []
    nvar = nvar or rng.randint(4, 6)
    for k in range(nvar):
        relabel = k >= 2 and rng.random() < 0.4
        pg = c05._perm(rng, len(G)) if relabel else None
        ph = c05._perm(rng, len(H)) if relabel else None
        enc = "upper" if k == 0 else "symmetric" if k == 1 else rng.choice(ENCODINGS)
        variants.append({"fmt": rng.choice(FORMATS), "enc": enc, "relabelled": relabel,
                         "VG": _encode(rng, G, enc, pg), "VH": _encode(rng, H, enc, ph)})
    return {"cls": cls, "kind": "pair", "G": G, "H": H, "variants": variants, "seed": rng.randrange(2 ** 31)}


def _boundary_cases(rng, tier):
    """graphs whose diameter sits on a dtype boundary (int8: 127 | 128, uint8-ish: 255 | 256), against a single
    vertex (exact distance diam/2, no search) or an edge, in several containers"""
    out = []
    diams = [126, 127, 128, 129, 254, 255, 256]
    for dm in diams:
        shapes = ["path"] if tier == "quick" else ["path", "caterpillar", "cycle"]
        for shape in shapes:
            n = dm + 1
            if shape == "path":
                e = [(i, i + 1) for i in range(n - 1)]
            elif shape == "caterpillar":      # spine realises the diameter, two extra legs in the middle
                e = [(i, i + 1) for i in range(n - 1)] + [(n // 2, n), (n // 3, n + 1)]
                n += 2
            else:                             # even cycle: diameter n/2
                n = 2 * dm
                e = [(i, (i + 1) % n) for i in range(n)]
            G = c05._upper(n, e)
            partners = [[[0]]] + ([[[0, 1], [0, 0]]] if tier != "quick" and shape == "path" and dm in (126, 128) else [])
            for H in partners:
                fmts = ["csr", "dense", "list"] if shape == "path" else [rng.choice(["csr", "csc", "dense"])]
                out.append({"cls": "boundary%d" % dm, "kind": "pair", "G": G, "H": H, "seed": dm,
                            "variants": [{"fmt": f, "enc": "upper", "relabelled": False, "VG": G, "VH": H} for f in fmts]})
    return out


def search_generate(rng, n):
    return _boundary_cases(rng, "thorough") + generate(rng, "quick")


def _coll_case(rng, graphs, cls, fmt=None, outer=None, nseeds=6):
    """a collection call; `outer` is the sequence type that holds the members (OUTERS).  A stacked 3-D array needs members
    of one size in a dense format."""
    outer = outer or rng.choice(["list", "tuple"] * 3 + OUTERS)
    if outer.startswith("stack"):
        n = len(graphs[0])
        graphs = [g if len(g) == n else _any_graph(rng, 0.25, n, n) for g in graphs]
        fmt = fmt if fmt in DENSE_FORMATS else rng.choice(DENSE_FORMATS)
    fmt = fmt or rng.choice(FORMATS)
    enc = rng.choice(ENCODINGS)
    return {"cls": cls, "kind": "coll", "fmt": fmt, "outer": outer,
            "graphs": [_encode(rng, g, enc, None) for g in graphs], "seed": rng.randrange(2 ** 31),
            "seeds": [rng.randrange(2 ** 31) for _ in range(nseeds)]}


def _big_collections(rng, tier):
    """collections just above the sizes at which a member has been converted 8 / 16 times within ONE call (every member
    takes part in N-1 pairs): 9-12 and 17-18 small graphs, mostly in small element types"""
    out = []
    sizes = [9, 10, 12, 17] if tier == "quick" else [9] * 6 + [10] * 6 + [11] * 4 + [12] * 4 + [17] * 4 + [18] * 3 + [33]
    for k in sizes:
        hi = 4 if k <= 12 else 3
        graphs = [_any_graph(rng, 0.15, 1, hi) for _ in range(k)]
        graphs[rng.randrange(k)] = c05._graph(rng, rng.choice(["path", "star", "spider", "sparse"]), hi + 1)
        # 8-bit element types just above 8 conversions per member, 16-bit ones just above 16
        fmt = rng.choice((SMALL_DENSE[:2] if k <= 12 else SMALL_DENSE[:5]) if rng.random() < 0.75 else SMALL)
        out.append(_coll_case(rng, graphs, "collection_big%d" % k, fmt=fmt, outer=rng.choice(["list", "tuple", "objarray"]),
                              nseeds=1 if k > 12 else 2))
    return out


def _step_pair(rng, G, H, fmt, enc, cls="step"):
    return {"cls": cls, "kind": "pair", "G": G, "H": H, "seed": rng.randrange(2 ** 31),
            "variants": [{"fmt": fmt, "enc": enc, "relabelled": False, "VG": G, "VH": H}]}


def _histories(rng, n):
    """Call histories (harness/history.py): the SAME argument objects (arrays, sparse matrices, nested lists, and the
    sequence holding a collection) are handed to many calls of one process; whatever persim returned is overwritten by the
    caller afterwards; every step must satisfy the spec on the graphs that were handed over.
      repeat  one pair, 9-12 calls (each step converts each object twice: >= 16 conversions of an object)
      loop    all ordered pairs of 3-5 graphs (a hand-written pairwise loop), G = H by identity included
      coll    a collection, pair calls on its members, the collection again with other RNG states, a sub-collection
      fault   calls that are aborted half-way (warnings escalated to errors on a disconnected graph, a ragged member, a
              malformed mapping_sample_size_order) between clean calls on the same objects"""
    hs, ncoll = [], 0
    for h in range(n):
        kind = ["repeat", "coll", "loop", "fault", "repeat", "coll", "coll"][h % 7]
        fmt = rng.choice(SMALL_DENSE[:5] * 2 + SMALL + ["dense", "csr", "list", "dense_float"]) if rng.random() < 0.8 else rng.choice(FORMATS)
        enc = rng.choice(ENCODINGS)
        k = rng.randint(3, 5)
        graphs = [_encode(rng, _any_graph(rng, 0.2, 2, 5), enc, None) for _ in range(k)]
        if kind == "repeat":
            steps = [_step_pair(rng, graphs[0], graphs[1], fmt, enc) for _ in range(rng.randint(9, 12))]
        elif kind == "loop":
            order = [(i, j) for i in range(k) for j in range(k) if i != j]
            rng.shuffle(order)
            order.insert(rng.randrange(len(order)), (0, 0))
            steps = [_step_pair(rng, graphs[i], graphs[j], fmt, enc) for i, j in order[:14]]
        elif kind == "coll":
            ncoll += 1                               # the first ones of a run cover the main kinds of sequence
            outer = ["list", "stack", "lazy", "objarray"][ncoll - 1] if ncoll <= 4 else rng.choice(["list"] * 2 + OUTERS)
            c = _coll_case(rng, graphs, "step", fmt=fmt, outer=outer, nseeds=2)
            c["graphs"] = graphs if not outer.startswith("stack") else c["graphs"]
            g = c["graphs"]
            again = dict(c, seed=rng.randrange(2 ** 31), seeds=[rng.randrange(2 ** 31) for _ in range(2)])
            sub = dict(c, graphs=g[1:] + g[:1], seed=rng.randrange(2 ** 31), seeds=[])
            dup = dict(c, graphs=[g[0], g[1], g[0]], outer="list" if outer.startswith("stack") else outer, seeds=[])
            steps = [c, _step_pair(rng, g[0], g[1], c["fmt"], enc), again, _step_pair(rng, g[2], g[0], c["fmt"], enc), sub, dup, again]
        else:
            dis = _encode(rng, _disconnected(rng, rng.randint(3, 6)), enc, None)
            ragged = [list(r) for r in graphs[1]][:-1] or [[0, 1]]
            ok1, ok2 = _step_pair(rng, dis, graphs[0], fmt, enc), _step_pair(rng, graphs[0], dis, fmt, enc)
            coll = _coll_case(rng, [dis, graphs[0], graphs[1]], "step", fmt=fmt, outer=rng.choice(["list", "tuple", "objarray"]), nseeds=1)
            coll["graphs"] = [dis, graphs[0], graphs[1]]
            steps = [ok1, dict(ok1, fault=True, werror=True), ok2,
                     dict(coll, fault=True, graphs=[dis, graphs[0], ragged], fmt="list"), coll,
                     dict(coll, fault=True, werror=True), dict(ok2, fault=True, msso=rng.choice([0.5, "x", [1]])), coll, ok1]
        hs.append(history.make(kind, steps))
    return hs


def generate(rng, tier):
    n_pairs = 160 if tier == "quick" else 3000
    n_coll = 80 if tier == "quick" else 1500
    cases = []
    for _ in range(n_pairs):
        r = rng.random()
        if r < 0.45:
            cases.append(_pair_case(rng, _any_graph(rng, 1.0, 2, 7), _any_graph(rng, 0.3, 1, 6), "disconnected"))
        else:
            cases.append(_pair_case(rng, _any_graph(rng, 0.0), _any_graph(rng, 0.0, 1, 6), "connected"))
    for _ in range(n_coll):
        k = rng.choice([1, 2, 2, 3, 3, 4, 5])
        graphs = [_any_graph(rng, 0.25, 1, 5) for _ in range(k)]
        if k >= 2 and rng.random() < 0.6:        # a non-vertex-transitive member (path / star / spider / tree)
            graphs[rng.randrange(k)] = c05._graph(rng, rng.choice(["path", "star", "spider", "sparse"]), rng.randint(4, 6))
        cases.append(_coll_case(rng, graphs, "collection%d" % k))
    cases += _big_collections(rng, tier)
    cases += _boundary_cases(rng, tier)
    return cases + _histories(rng, 14 if tier == "quick" else 250)


def _corpus_files():
    # minimised failures / refutation witnesses stored under corpus/<PID>/
    import json
    out = []
    d = core.VERIF / "corpus" / PID
    if d.is_dir():
        for f in sorted(d.glob("*.json")):
            c = json.loads(f.read_text())["case"]
            c["cls"] = "corpus_file"
            out.append(c)
    return out


def corpus():
    # the witness of fallback_legacy_refuted: three vertices, one edge
    one_edge = [[0, 1, 0], [0, 0, 0], [0, 0, 0]]
    base = {"kind": "pair", "seed": 0}
    return _corpus_files() + [
        dict(base, G=one_edge, H=[[0]], variants=[{"fmt": f, "enc": "upper", "relabelled": False, "VG": one_edge, "VH": [[0]]}
                                                  for f in ("list", "dense", "csr")]),
        dict(base, G=[[0, 1], [0, 0]], H=one_edge,
             variants=[{"fmt": "csr", "enc": "symmetric", "relabelled": False, "VG": [[0, 1], [1, 0]],
                        "VH": [[0, 1, 0], [1, 0, 0], [0, 0, 0]]}]),
        {"kind": "coll", "fmt": "list", "outer": "list", "seed": 0,
         "graphs": [[[0, 1, 1, 1], [0, 0, 1, 1], [0, 0, 0, 1], [0, 0, 0, 0]], [[0]], [[0, 1], [0, 0]],
                    c05._upper(5, [(0, 1), (0, 4), (1, 2), (2, 3), (3, 4)])]},
    ]


def shrink_candidates(c):
    if history.is_hist(c):
        seq = c["seq"]
        if len(seq) > 5:                               # whole blocks of steps first, then history.shrink's single steps
            h = len(seq) // 2
            for keep in (seq[h:], seq[:h], seq[:h // 2] + seq[h:], seq[:h] + seq[h + h // 2:]):
                yield dict(c, seq=keep)
        yield from history.shrink(c)
        return
    if c["kind"] == "pair":
        if len(c["variants"]) > 1:
            for k in range(len(c["variants"])):
                d = dict(c); d["variants"] = [c["variants"][k]]; yield d
        for key, vkey in (("G", "VG"), ("H", "VH")):
            n = len(c[key])
            if 1 < n <= 12 and len(c["variants"]) == 1:
                for v in range(n):
                    keep = [i for i in range(n) if i != v]
                    d = dict(c)
                    d[key] = [[c[key][i][j] for j in keep] for i in keep]
                    var = dict(c["variants"][0])
                    var[vkey] = [[var[vkey][i][j] for j in keep] for i in keep]
                    d["variants"] = [var]
                    yield d
    else:
        g = c["graphs"]
        if len(c.get("seeds", [])) > 1:
            yield dict(c, seeds=[])
        if len(g) > 5:                                 # blocks of members first (big collections)
            h = len(g) // 2
            for keep in (g[h:], g[:h], g[:h // 2] + g[h:], g[:h] + g[h + h // 2:]):
                yield dict(c, graphs=keep)
        if len(c["graphs"]) > 2:
            for k in range(len(c["graphs"])):
                d = dict(c); d["graphs"] = c["graphs"][:k] + c["graphs"][k + 1:]; yield d


# ---------------------------------------------------------------- the implementation
def _conv(A, fmt):
    """the adjacency matrix A (nested lists) as a fresh object of container / element type `fmt`"""
    import numpy as np
    import scipy.sparse as sps
    a = np.array(A)
    if fmt == "list":
        return [list(r) for r in A]
    if fmt == "dense":
        return a
    if fmt in SMALL_SPARSE:
        base, dt = SMALL_SPARSE[fmt]
        b = (a != 0) if dt == "bool" else a.astype(dt)
        return getattr(sps, base + "_matrix")(b)
    if "_xz" in fmt:
        base, flavour = fmt.split("_")
        n = len(A)
        rows, cols, data = [], [], []
        for i in range(n):
            for j in range(n):
                keep = flavour == "xz" or (i * 7 + j * 13 + n) % 3 != 0
                if a[i, j] != 0 or (i != j and keep):
                    rows.append(i); cols.append(j); data.append(int(a[i, j]))
        return sps.coo_matrix((data, (rows, cols)), shape=(n, n)).asformat(base)
    if fmt.startswith("dense_"):
        name = fmt.split("_")[1]
        dt = {"float": float, "bool": bool, "int": int}.get(name) or np.dtype(name)
        b = (a != 0).astype(dt) if dt is bool else a.astype(dt)
        return b.T.copy().T if fmt.endswith("_F") else np.ascontiguousarray(b)  # _F: same content, column-major memory layout
    return {"csr": sps.csr_matrix, "csc": sps.csc_matrix, "lil": sps.lil_matrix, "csr_array": sps.csr_array,
            "coo": sps.coo_matrix, "dok": sps.dok_matrix, "dia": sps.dia_matrix, "bsr": sps.bsr_matrix,
            "coo_array": sps.coo_array, "csc_array": sps.csc_array}[fmt](a)


def _container(members, outer, fresh):
    """the sequence handed to a collection call; `members` are the member objects, `fresh(i)` builds member i anew"""
    import collections
    import collections.abc
    import numpy as np
    if outer == "list":
        return list(members)
    if outer == "tuple":
        return tuple(members)
    if outer == "deque":
        return collections.deque(members)
    if outer == "objarray":
        arr = np.empty(len(members), dtype=object)
        for i, m in enumerate(members):
            arr[i] = m
        return arr
    if outer in ("stack", "stack_F"):
        st = np.stack([np.asarray(m) for m in members]) if members else np.zeros((0, 1, 1))
        return np.asfortranarray(st) if outer == "stack_F" else st
    if outer == "lazy":
        class Lazy(collections.abc.Sequence):
            def __len__(self):
                return len(members)

            def __getitem__(self, i):
                if not isinstance(i, int) and not hasattr(i, "__index__"):
                    raise TypeError("integer index expected")
                if not -len(members) <= i < len(members):
                    raise IndexError(i)
                return fresh(int(i) % len(members))
        return Lazy()
    raise KeyError(outer)


def impl_call(c, memo):
    """One case.  memo is None: every call gets freshly built argument objects.  Inside a history (memo is a dict) equal
    (matrix, format) arguments of all steps are THE SAME objects, likewise the sequences holding collections, and whatever
    persim returned is overwritten after its values have been read."""
    import sys
    import warnings
    import numpy as np
    import persim  # noqa
    mod = sys.modules["persim.gromov_hausdorff"]
    gh = mod.gromov_hausdorff

    def conv(A, fmt):
        if memo is None:
            return _conv(A, fmt)
        return history.intern(memo, ["arr", A, fmt], lambda: _conv(A, fmt))

    def watched(fn):
        with warnings.catch_warnings(record=True) as w:
            warnings.simplefilter("error" if c.get("werror") else "always")
            try:
                r = fn()
            except Exception as e:  # noqa
                return {"error": type(e).__name__, "msg": str(e)[:200]}
            r["warned"] = any("disconnected" in str(x.message) for x in w)
            return r

    kw = {"mapping_sample_size_order": c["msso"]} if "msso" in c else {}

    def dm(A, fmt):
        def f():
            D0 = mod.make_distance_matrix_from_adjacency_matrix(conv(A, fmt))
            D = np.asarray(D0)
            r = {"D": [[int(v) for v in r] for r in D], "shape": list(D.shape), "dtype": str(D.dtype)}
            if memo is not None:
                history.scribble(D0)
            return r
        return watched(f)

    if c["kind"] == "pair":
        vo = []
        for v in c["variants"]:
            def call(v=v):
                np.random.seed(c["seed"])
                l, u = gh(conv(v["VG"], v["fmt"]), conv(v["VH"], v["fmt"]), **kw)
                return {"lb": float(l), "ub": float(u)}
            vo.append({"dmG": dm(v["VG"], v["fmt"]), "dmH": dm(v["VH"], v["fmt"]), "gh": watched(call)})
        return {"variants": vo}

    def build():
        members = [conv(g, c["fmt"]) for g in c["graphs"]]
        return _container(members, c.get("outer", "list"), lambda i: _conv(c["graphs"][i], c["fmt"]))

    def call(seed):
        np.random.seed(seed)
        if memo is None:
            As = build()
        else:
            As = history.intern(memo, ["outer", c["graphs"], c["fmt"], c.get("outer", "list")], build)
        lbs0, ubs0 = gh(As, **kw)
        lbs, ubs = np.asarray(lbs0), np.asarray(ubs0)
        r = {"lbs": [[float(x) for x in r] for r in lbs], "ubs": [[float(x) for x in r] for r in ubs],
             "shape": [list(lbs.shape), list(ubs.shape)]}
        if memo is not None:
            history.scribble(lbs0)
            history.scribble(ubs0)
        return r
    seeds = [c["seed"]] + list(c.get("seeds", []))
    runs = [watched(lambda s=s: call(s)) for s in seeds]
    return {"coll": runs[0], "more": runs[1:]}


def impl_run(cases):
    outs = []
    for c in cases:
        try:
            outs.append(history.run(c, impl_call) if history.is_hist(c) else impl_call(c, None))
        except Exception as e:  # noqa  (building the arguments failed: harness error, shown as such)
            outs.append({"error": type(e).__name__, "msg": "harness: " + str(e)[:200]})
    return outs


# ---------------------------------------------------------------- the spec, independent of the model
def _largest_choices(A):
    """distance matrices of every connected component of maximal size (the property says "its largest
    connected component"; which one, under ties, is pinned by the model, not by the predicate)"""
    comps = _components(A)
    D = c05._bfs(A)
    m = max(len(x) for x in comps)
    return [[[D[i][j] for j in comp] for i in comp] for comp in comps if len(comp) == m], len(comps) > 1


_t2 = {}


def _true_candidates(A, B):
    key = core.sha([A, B])
    if key not in _t2:
        ca, da = _largest_choices(A)
        cb, db = _largest_choices(B)
        vals = set()
        for X, Y in itertools.product(ca, cb):
            a, b = c05.min_distortion(X, Y), c05.min_distortion(Y, X)
            vals.add(None if a is None or b is None else max(a, b))
        _t2[key] = (vals, da or db)
    return _t2[key]


def _check_bracket(A, B, lb, ub, what):
    for v in (lb, ub):
        if not (v >= 0 and float(2 * v).is_integer()):
            return "half-integer: %r is not a non-negative multiple of 1/2 (%s)" % (v, what)
    vals, _ = _true_candidates(A, B)
    if None in vals:
        return None
    if not any(2 * lb <= t <= 2 * ub for t in vals):
        return "bracket: [%r, %r] does not bracket mGH of the largest components %s (%s)" % (
            lb, ub, sorted(t / 2.0 for t in vals), what)
    return None


def predicate(c, o):
    if history.is_hist(c):
        return history.predicate(c, o, predicate)
    if not ("variants" in o or "coll" in o):
        return False, "harness: the arguments could not be built: %s" % str(o)[:200]
    if c["kind"] == "pair":
        ident_lbs = set()
        for k, (v, vo) in enumerate(zip(c["variants"], o["variants"])):
            what = "variant %d %s/%s%s" % (k, v["fmt"], v["enc"], "/relabelled" if v["relabelled"] else "")
            _, dis = _true_candidates(v["VG"], v["VH"])
            g = vo["gh"]
            if "error" in g:
                kind = "raised-disconnected" if dis else "raised"
                return False, "%s: %s: %s (%s)" % (kind, g["error"], g.get("msg"), what)
            if g["warned"] != dis:
                return False, "warning: warned=%s but disconnected=%s (%s)" % (g["warned"], dis, what)
            bad = _check_bracket(v["VG"], v["VH"], g["lb"], g["ub"], what)
            if bad:
                return False, bad
            for key, A in (("dmG", v["VG"]), ("dmH", v["VH"])):
                d = vo[key]
                if "error" in d:
                    return False, "raised-disconnected: make_distance_matrix raised %s (%s)" % (d["error"], what)
                ch, _ = _largest_choices(A)
                if d["D"] not in ch:
                    return False, "metric: distance matrix is not the hop metric of a largest component (%s)" % what
            if not v["relabelled"]:
                ident_lbs.add(g["lb"])
        if len(ident_lbs) > 1:
            return False, "representation: identical labelings got different lower bounds %s" % sorted(ident_lbs)
        return True, ""
    n = len(c["graphs"])
    for g in [o["coll"]] + list(o.get("more", [])):
        ok, detail = _coll_predicate(c, g, n)
        if not ok:
            return ok, detail
    return True, ""


def _coll_predicate(c, g, n):
    if n < 2:
        if g.get("error") != "ValueError":
            return False, "collection: a collection of %d graph(s) must raise ValueError, got %s" % (n, str(g)[:100])
        return True, ""
    dis = any(len(_components(a)) > 1 for a in c["graphs"])
    if "error" in g:
        return False, "%s: %s: %s (collection)" % ("raised-disconnected" if dis else "raised", g["error"], g.get("msg"))
    if g["shape"] != [[n, n], [n, n]]:
        return False, "collection: shapes %s for %d graphs" % (g["shape"], n)
    if g["warned"] != dis:
        return False, "warning: warned=%s but disconnected=%s (collection)" % (g["warned"], dis)
    for M in (g["lbs"], g["ubs"]):
        for i in range(n):
            if M[i][i] != 0:
                return False, "collection: non-zero diagonal entry %r" % M[i][i]
            for j in range(n):
                if M[i][j] != M[j][i]:
                    return False, "collection: not symmetric at (%d,%d): %r vs %r" % (i, j, M[i][j], M[j][i])
    for i in range(n):
        for j in range(i + 1, n):
            bad = _check_bracket(c["graphs"][i], c["graphs"][j], g["lbs"][i][j], g["ubs"][i][j], "entry (%d,%d)" % (i, j))
            if bad:
                return False, bad
    return True, ""


def nontrivial(c, o):
    if history.is_hist(c):
        # >= 2 judged steps that share an argument object, on graphs with >= 3 vertices or a disconnected one
        def step_ok(s, so):
            gs = [s["G"], s["H"]] if s["kind"] == "pair" else s["graphs"]
            return max(len(g) for g in gs) >= 3 or any(len(_components(g)) > 1 for g in gs)
        return history.nontrivial(c, o, step_ok)
    if c["kind"] == "pair":
        if any(len(_components(v["VG"])) > 1 or len(_components(v["VH"])) > 1 for v in c["variants"][:1]):
            return True
        reps = {(v["fmt"], v["enc"], v["relabelled"]) for v in c["variants"]}
        return len(reps) >= 3 and max(len(c["G"]), len(c["H"])) >= 3
    return len(c["graphs"]) >= 3 or any(len(_components(a)) > 1 for a in c["graphs"])


def finding_of(c, o, detail):
    # call site: gromov_hausdorff.py line 211 (rows-only restriction); signature: ValueError from
    # determine_optimal_int_type on an input that has a disconnected graph
    if detail.startswith("raised-disconnected") and "ValueError" in detail:
        return FINDING
    return None


# ---------------------------------------------------------------- the model, run inside Coq
HEADER = """From Coq Require Import ZArith List Bool.
From Persim Require Import Spec.MGH Model.MGHM Model.GraphM Corr.MGHCorr Corr.GraphCorr.
Import ListNotations.
Open Scope Z_scope.
"""


def _dmres(d):
    if "error" in d:
        return "DMValueError" if d["error"] == "ValueError" else None
    if len(d["shape"]) != 2 or d["shape"][0] != d["shape"][1]:
        return None
    return "(DMOk %s %s)" % (c05.cbool(d["warned"]), c05.cmat(d["D"]))


def _term(c, o):
    ts = []
    if c["kind"] == "pair" and max(len(c["G"]), len(c["H"])) > 140:
        return "SKIP"
    if c["kind"] == "pair":
        big = max(len(c["G"]), len(c["H"])) > 60      # cubic Floyd-Warshall in Coq: one representation is enough
        for v, vo in list(zip(c["variants"], o["variants"]))[:1 if big else None]:
            for key, A in (("dmG", v["VG"]), ("dmH", v["VH"])):
                r = _dmres(vo[key])
                if r is None:
                    return None
                ts.append("check_dm %s %s" % (c05.cmat(A), r))
            g = vo["gh"]
            if "error" in g:
                if g["error"] != "ValueError":
                    return None
                impl = "None"
            else:
                if not float(2 * g["lb"]).is_integer():
                    return None
                impl = "(Some (%s, %d))" % (c05.cbool(g["warned"]), int(2 * g["lb"]))
            ts.append("check_pair %s %s %s" % (c05.cmat(v["VG"]), c05.cmat(v["VH"]), impl))
    else:
        g = o["coll"]
        if "error" in g:
            if g["error"] != "ValueError":
                return None
            impl = "None"
        else:
            if not all(float(2 * x).is_integer() for r in g["lbs"] for x in r):
                return None
            impl = "(Some (%s, %s))" % (c05.cbool(g["warned"]), c05.cmat([[int(2 * x) for x in r] for r in g["lbs"]]))
        ts.append("check_coll %s %s" % (core.coq_list([c05.cmat(a) for a in c["graphs"]]), impl))
    return "zmaxl %s" % core.coq_list(["(%s)" % t for t in ts])


def coq_jobs(cases, outs):
    return []


def coq_judge(cases, outs, results):
    verdicts = [None] * len(cases)
    terms, idx = [], []
    for i, (c, o) in enumerate(zip(cases, outs)):
        if history.is_hist(c):
            verdicts[i] = "skip:history (every step is judged by the spec predicate)"
            continue
        t = _term(c, o) if ("variants" in o or "coll" in o) else None
        if t == "SKIP":
            verdicts[i] = "skip:more than 140 vertices, model not run (the predicate knows the exact distance)"
        elif t is None:
            verdicts[i] = "disagree:output not expressible in the model (unexpected exception type or shape): %s" % str(o)[:160]
        else:
            idx.append(i)
            terms.append(t)
    toks, _ = core.eval_cases(PID, HEADER, terms, chunk=max(4, (len(terms) + 15) // 16))
    for i, t in zip(idx, toks):
        verdicts[i] = {"0": "agree", "1": "legacy:" + FINDING}.get(
            t, "disagree:distance matrix / warning / exception / lower bound differs from the model (code %s)" % t[:40])
    return verdicts
