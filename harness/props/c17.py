"""C17 - mGH accepts every graph representation and degrades gracefully.

Model: coq/Model/GraphM.v (adjacency reading of shortest_path(directed=False, unweighted=True), hop
metric, components, first largest component, restriction of rows AND columns, pair/collection
dispatch) on top of Model/MGHM.v (C05).  Each case passes one graph pair in several representations
(nested lists / dense / csr / csc / lil / coo / dok / dia / bsr matrices and csr / coo / csc sparse arrays, Fortran-ordered float / bool / int dense arrays, sparse matrices with explicitly stored zeros; upper, lower, mixed, symmetric, weighted; relabelled) or a
collection of 1-5 graphs to persim.gromov_hausdorff; distance matrices, warnings, exceptions and
lower bounds are compared with the model inside Coq (Corr/GraphCorr.v), and the spec (own BFS,
components, brute-force mGH) is evaluated on the outputs independently of the model."""
import itertools

from .. import core
from . import c05

PID = "C17"
THEOREMS = [
    "same_edges_same_metric", "upper_eq_symmetric", "relabel_bracket", "relabelled_graph_same_metric",
    "relabelled_graphs_isometric", "hop_metric_is_shortest_path", "make_dm_returns_metric",
    "relabelled_connected_graphs_isometric_dm", "pair_call_end_to_end", "dtype_roundtrip", "dtype_boundaries", "collection_symmetric_zero_diag",
    "collection_entries_are_pairwise", "largest_component_connected", "largest_component_is_metric", "largest_component_is_induced_metric",
    "pair_brackets", "collection_entries_bracket", "fallback_legacy_refuted", "fallback_legacy_always_raises",
]
RULE = ("seeded generator: graphs with 1-7 vertices, connected or with 2-3 components (ties among largest components "
        "included); each pair is passed in 4-6 variants drawn from containers {nested list, dense, csr, csc, lil, coo, dok, dia, bsr matrices, csr/coo/csc sparse arrays} x "
        "encodings {upper, lower, mixed orientation, symmetric, weighted symmetric} x {identity, random relabelling}; "
        "collections of 1-5 graphs (1 must raise); graphs whose diameter is exactly 126..129 and 254..256 (dtype boundaries) against a single vertex / an edge; non-trivial = some graph is "
        "disconnected, or >= 3 distinct representations of a pair with >= 3 vertices, or a collection of >= 3 graphs; "
        "distinct = distinct JSON input")
TRUSTED_BASE = [
    "Coq 8.16.1 kernel, vm_compute; development closed under the global context (no axioms)",
    "hand-written model Model/GraphM.v of gromov_hausdorff.py lines 143-263; its Floyd-Warshall is proved to be a "
    "correct shortest-path answer (hop_metric_is_shortest_path) and stands for scipy shortest_path / "
    "connected_components, which are compared with it per case",
    "harness: generator of representations, warning/exception capture, printer, verdict parser",
    "independent Python predicate: BFS, components, branch-and-bound mGH between largest components",
]
ASSUMPTIONS = [
    "scipy shortest_path(directed=False, unweighted=True) returns the hop metric of the undirected graph whose edges "
    "are the stored non-zeros, and connected_components labels components by smallest vertex (both compared per case)",
    "theorems about the fallback hold for ANY shortest-path result whose finiteness relation is an equivalence (and "
    "for any correct shortest-path answer, spec sp); the executable instance is proved to be one",
    "explicitly stored zeros in sparse inputs are non-edges (generated: formats *_xz, *_xzh); NaN/inf entries and "
    "non-square inputs are outside the generator",
    "the upper bound of a collection is random: each collection is run with several NumPy seeds",
    "lower-bound soundness inherits C05's explicit greedy-completeness hypothesis",
]
COQ_DEPS = ["Corr/GraphCorr.vo"]
FINDING = "C17-largest-component-rows-only"


# ---------------------------------------------------------------- generators
def _components(A):
    D = c05._bfs(A)
    n = len(A)
    seen, comps = set(), []
    for i in range(n):
        if i not in seen:
            comp = [j for j in range(n) if D[i][j] is not None]
            seen.update(comp)
            comps.append(comp)
    return comps


def _disconnected(rng, n):
    """upper-triangular adjacency with 2-3 components on n >= 2 vertices, randomly labelled"""
    k = rng.randint(2, min(3, n))
    sizes = [1] * k
    for _ in range(n - k):
        sizes[rng.randrange(k)] += 1
    if rng.random() < 0.4 and n >= 4:            # tie among the largest components
        sizes = [n // 2, n // 2] + ([n - 2 * (n // 2)] if n % 2 else [])
    edges, base = [], 0
    for s in sizes:
        sub = c05._graph(rng, rng.choice(c05.KINDS), s)
        edges += [(a + base, b + base) for a, b in c05._edges(sub)]
        base += s
    return c05._relabel(c05._upper(n, edges), c05._perm(rng, n))


def _any_graph(rng, pdis, lo=1, hi=7):
    n = rng.randint(lo, hi)
    if n >= 2 and rng.random() < pdis:
        return _disconnected(rng, n)
    return c05._graph(rng, rng.choice(c05.KINDS), n)


ENCODINGS = ["upper", "lower", "mixed", "symmetric", "weighted"]
# every container / sparsity format; coo, dok, dia, bsr and the sparse arrays raised ValueError inside scipy's csgraph
# before /repo d1032fb converted sparse input with .tocsr()
# dense_*_F: Fortran-ordered (non-C-contiguous) dense arrays, as produced by transposing or relabelling A[p][:, p]
FORMATS = ["list", "dense", "csr", "csc", "lil", "csr_array", "coo", "dok", "dia", "bsr", "coo_array", "csc_array",
           "dense_float_F", "dense_bool_F", "dense_int_F", "dense_float",
           # *_xz / *_xzh: sparse input built from (data, (rows, cols)) triples in which every / a pseudo-random half of the
           # off-diagonal zero entries is EXPLICITLY STORED (between components of disconnected graphs and inside them);
           # a stored zero is not an edge
           "csr_xz", "csc_xz", "coo_xz", "bsr_xz", "csr_xzh", "csc_xzh", "coo_xzh", "bsr_xzh"]


def _encode(rng, A, enc, perm):
    n = len(A)
    M = [[0] * n for _ in range(n)]
    for a, b in c05._edges(A):
        if perm is not None:
            a, b = perm[a], perm[b]
        lo, hi = min(a, b), max(a, b)
        w = rng.randint(2, 9) if enc == "weighted" else 1
        if enc == "upper":
            M[lo][hi] = 1
        elif enc == "lower":
            M[hi][lo] = 1
        elif enc == "mixed":
            if rng.random() < 0.5:
                M[lo][hi] = 1
            else:
                M[hi][lo] = 1
        else:
            M[lo][hi] = M[hi][lo] = w
    return M


def _pair_case(rng, G, H, cls, nvar=None):
    variants = []
    nvar = nvar or rng.randint(4, 6)
    for k in range(nvar):
        relabel = k >= 2 and rng.random() < 0.4
        pg = c05._perm(rng, len(G)) if relabel else None
        ph = c05._perm(rng, len(H)) if relabel else None
        enc = "upper" if k == 0 else "symmetric" if k == 1 else rng.choice(ENCODINGS)
        variants.append({"fmt": rng.choice(FORMATS), "enc": enc, "relabelled": relabel,
                         "VG": _encode(rng, G, enc, pg), "VH": _encode(rng, H, enc, ph)})
    return {"cls": cls, "kind": "pair", "G": G, "H": H, "variants": variants, "seed": rng.randrange(2 ** 31)}


def _boundary_cases(rng, tier):
    """graphs whose diameter sits on a dtype boundary (int8: 127 | 128, uint8-ish: 255 | 256), against a single
    vertex (exact distance diam/2, no search) or an edge, in several containers"""
    out = []
    diams = [126, 127, 128, 129, 254, 255, 256]
    for dm in diams:
        shapes = ["path"] if tier == "quick" else ["path", "caterpillar", "cycle"]
        for shape in shapes:
            n = dm + 1
            if shape == "path":
                e = [(i, i + 1) for i in range(n - 1)]
            elif shape == "caterpillar":      # spine realises the diameter, two extra legs in the middle
                e = [(i, i + 1) for i in range(n - 1)] + [(n // 2, n), (n // 3, n + 1)]
                n += 2
            else:                             # even cycle: diameter n/2
                n = 2 * dm
                e = [(i, (i + 1) % n) for i in range(n)]
            G = c05._upper(n, e)
            partners = [[[0]]] + ([[[0, 1], [0, 0]]] if tier != "quick" and shape == "path" and dm in (126, 128) else [])
            for H in partners:
                fmts = ["csr", "dense", "list"] if shape == "path" else [rng.choice(["csr", "csc", "dense"])]
                out.append({"cls": "boundary%d" % dm, "kind": "pair", "G": G, "H": H, "seed": dm,
                            "variants": [{"fmt": f, "enc": "upper", "relabelled": False, "VG": G, "VH": H} for f in fmts]})
    return out


def search_generate(rng, n):
    return _boundary_cases(rng, "thorough") + generate(rng, "quick")


def generate(rng, tier):
    n_pairs = 160 if tier == "quick" else 3000
    n_coll = 80 if tier == "quick" else 1500
    cases = []
    for _ in range(n_pairs):
        r = rng.random()
        if r < 0.45:
            cases.append(_pair_case(rng, _any_graph(rng, 1.0, 2, 7), _any_graph(rng, 0.3, 1, 6), "disconnected"))
        else:
            cases.append(_pair_case(rng, _any_graph(rng, 0.0), _any_graph(rng, 0.0, 1, 6), "connected"))
    for _ in range(n_coll):
        k = rng.choice([1, 2, 2, 3, 3, 4, 5])
        graphs = [_any_graph(rng, 0.25, 1, 5) for _ in range(k)]
        if k >= 2 and rng.random() < 0.6:        # a non-vertex-transitive member (path / star / spider / tree)
            graphs[rng.randrange(k)] = c05._graph(rng, rng.choice(["path", "star", "spider", "sparse"]), rng.randint(4, 6))
        enc = rng.choice(ENCODINGS)
        cases.append({"cls": "collection%d" % k, "kind": "coll", "fmt": rng.choice(FORMATS), "outer": rng.choice(["list", "tuple"]),
                      "graphs": [_encode(rng, g, enc, None) for g in graphs], "seed": rng.randrange(2 ** 31),
                      "seeds": [rng.randrange(2 ** 31) for _ in range(6)]})
    cases += _boundary_cases(rng, tier)
    return cases


def _corpus_files():
    # minimised failures / refutation witnesses stored under corpus/<PID>/
    import json
    out = []
    d = core.VERIF / "corpus" / PID
    if d.is_dir():
        for f in sorted(d.glob("*.json")):
            c = json.loads(f.read_text())["case"]
            c["cls"] = "corpus_file"
            out.append(c)
    return out


def corpus():
    # the witness of fallback_legacy_refuted: three vertices, one edge
    one_edge = [[0, 1, 0], [0, 0, 0], [0, 0, 0]]
    base = {"kind": "pair", "seed": 0}
    return _corpus_files() + [
        dict(base, G=one_edge, H=[[0]], variants=[{"fmt": f, "enc": "upper", "relabelled": False, "VG": one_edge, "VH": [[0]]}
                                                  for f in ("list", "dense", "csr")]),
        dict(base, G=[[0, 1], [0, 0]], H=one_edge,
             variants=[{"fmt": "csr", "enc": "symmetric", "relabelled": False, "VG": [[0, 1], [1, 0]],
                        "VH": [[0, 1, 0], [1, 0, 0], [0, 0, 0]]}]),
        {"kind": "coll", "fmt": "list", "outer": "list", "seed": 0,
         "graphs": [[[0, 1, 1, 1], [0, 0, 1, 1], [0, 0, 0, 1], [0, 0, 0, 0]], [[0]], [[0, 1], [0, 0]],
                    c05._upper(5, [(0, 1), (0, 4), (1, 2), (2, 3), (3, 4)])]},
    ]


def shrink_candidates(c):
    if c["kind"] == "pair":
        if len(c["variants"]) > 1:
            for k in range(len(c["variants"])):
                d = dict(c); d["variants"] = [c["variants"][k]]; yield d
        for key, vkey in (("G", "VG"), ("H", "VH")):
            n = len(c[key])
            if 1 < n <= 12 and len(c["variants"]) == 1:
                for v in range(n):
                    keep = [i for i in range(n) if i != v]
                    d = dict(c)
                    d[key] = [[c[key][i][j] for j in keep] for i in keep]
                    var = dict(c["variants"][0])
                    var[vkey] = [[var[vkey][i][j] for j in keep] for i in keep]
                    d["variants"] = [var]
                    yield d
    else:
        if len(c["graphs"]) > 2:
            for k in range(len(c["graphs"])):
                d = dict(c); d["graphs"] = c["graphs"][:k] + c["graphs"][k + 1:]; yield d


# ---------------------------------------------------------------- the implementation
def impl_run(cases):
    import sys
    import warnings
    import numpy as np
    import scipy.sparse as sps
    import persim
    mod = sys.modules["persim.gromov_hausdorff"]
    gh = mod.gromov_hausdorff

    def conv(A, fmt):
        a = np.array(A)
        if fmt == "list":
            return [list(r) for r in A]
        if fmt == "dense":
            return a
        if "_xz" in fmt:
            base, flavour = fmt.split("_")
            n = len(A)
            rows, cols, data = [], [], []
            for i in range(n):
                for j in range(n):
                    keep = flavour == "xz" or (i * 7 + j * 13 + n) % 3 != 0
                    if a[i, j] != 0 or (i != j and keep):
                        rows.append(i); cols.append(j); data.append(int(a[i, j]))
            return sps.coo_matrix((data, (rows, cols)), shape=(n, n)).asformat(base)
        if fmt.startswith("dense_"):
            dt = {"float": float, "bool": bool, "int": int}[fmt.split("_")[1]]
            b = (a != 0).astype(dt) if dt is bool else a.astype(dt)
            return b.T.copy().T if fmt.endswith("_F") else b       # same content, column-major memory layout
        return {"csr": sps.csr_matrix, "csc": sps.csc_matrix, "lil": sps.lil_matrix, "csr_array": sps.csr_array,
                "coo": sps.coo_matrix, "dok": sps.dok_matrix, "dia": sps.dia_matrix, "bsr": sps.bsr_matrix,
                "coo_array": sps.coo_array, "csc_array": sps.csc_array}[fmt](a)

    def watched(fn):
        with warnings.catch_warnings(record=True) as w:
            warnings.simplefilter("always")
            try:
                r = fn()
            except Exception as e:  # noqa
                return {"error": type(e).__name__, "msg": str(e)[:200]}
            r["warned"] = any("disconnected" in str(x.message) for x in w)
            return r

    def dm(A, fmt):
        def f():
            D = mod.make_distance_matrix_from_adjacency_matrix(conv(A, fmt))
            D = np.asarray(D)
            return {"D": [[int(v) for v in r] for r in D], "shape": list(D.shape), "dtype": str(D.dtype)}
        return watched(f)

    outs = []
    for c in cases:
        if c["kind"] == "pair":
            vo = []
            for v in c["variants"]:
                def call(v=v):
                    np.random.seed(c["seed"])
                    l, u = gh(conv(v["VG"], v["fmt"]), conv(v["VH"], v["fmt"]))
                    return {"lb": float(l), "ub": float(u)}
                vo.append({"dmG": dm(v["VG"], v["fmt"]), "dmH": dm(v["VH"], v["fmt"]), "gh": watched(call)})
            outs.append({"variants": vo})
        else:
            def call(seed):
                np.random.seed(seed)
                As = [conv(g, c["fmt"]) for g in c["graphs"]]
                if c["outer"] == "tuple":
                    As = tuple(As)
                lbs, ubs = gh(As)
                lbs, ubs = np.asarray(lbs), np.asarray(ubs)
                return {"lbs": [[float(x) for x in r] for r in lbs], "ubs": [[float(x) for x in r] for r in ubs],
                        "shape": [list(lbs.shape), list(ubs.shape)]}
            seeds = [c["seed"]] + list(c.get("seeds", []))
            runs = [watched(lambda s=s: call(s)) for s in seeds]
            outs.append({"coll": runs[0], "more": runs[1:]})
    return outs


# ---------------------------------------------------------------- the spec, independent of the model
def _largest_choices(A):
    """distance matrices of every connected component of maximal size (the property says "its largest
    connected component"; which one, under ties, is pinned by the model, not by the predicate)"""
    comps = _components(A)
    D = c05._bfs(A)
    m = max(len(x) for x in comps)
    return [[[D[i][j] for j in comp] for i in comp] for comp in comps if len(comp) == m], len(comps) > 1


_t2 = {}


def _true_candidates(A, B):
    key = core.sha([A, B])
    if key not in _t2:
        ca, da = _largest_choices(A)
        cb, db = _largest_choices(B)
        vals = set()
        for X, Y in itertools.product(ca, cb):
            a, b = c05.min_distortion(X, Y), c05.min_distortion(Y, X)
            vals.add(None if a is None or b is None else max(a, b))
        _t2[key] = (vals, da or db)
    return _t2[key]


def _check_bracket(A, B, lb, ub, what):
    for v in (lb, ub):
        if not (v >= 0 and float(2 * v).is_integer()):
            return "half-integer: %r is not a non-negative multiple of 1/2 (%s)" % (v, what)
    vals, _ = _true_candidates(A, B)
    if None in vals:
        return None
    if not any(2 * lb <= t <= 2 * ub for t in vals):
        return "bracket: [%r, %r] does not bracket mGH of the largest components %s (%s)" % (
            lb, ub, sorted(t / 2.0 for t in vals), what)
    return None


def predicate(c, o):
    if c["kind"] == "pair":
        ident_lbs = set()
        for k, (v, vo) in enumerate(zip(c["variants"], o["variants"])):
            what = "variant %d %s/%s%s" % (k, v["fmt"], v["enc"], "/relabelled" if v["relabelled"] else "")
            _, dis = _true_candidates(v["VG"], v["VH"])
            g = vo["gh"]
            if "error" in g:
                kind = "raised-disconnected" if dis else "raised"
                return False, "%s: %s: %s (%s)" % (kind, g["error"], g.get("msg"), what)
            if g["warned"] != dis:
                return False, "warning: warned=%s but disconnected=%s (%s)" % (g["warned"], dis, what)
            bad = _check_bracket(v["VG"], v["VH"], g["lb"], g["ub"], what)
            if bad:
                return False, bad
            for key, A in (("dmG", v["VG"]), ("dmH", v["VH"])):
                d = vo[key]
                if "error" in d:
                    return False, "raised-disconnected: make_distance_matrix raised %s (%s)" % (d["error"], what)
                ch, _ = _largest_choices(A)
                if d["D"] not in ch:
                    return False, "metric: distance matrix is not the hop metric of a largest component (%s)" % what
            if not v["relabelled"]:
                ident_lbs.add(g["lb"])
        if len(ident_lbs) > 1:
            return False, "representation: identical labelings got different lower bounds %s" % sorted(ident_lbs)
        return True, ""
    n = len(c["graphs"])
    for g in [o["coll"]] + list(o.get("more", [])):
        ok, detail = _coll_predicate(c, g, n)
        if not ok:
            return ok, detail
    return True, ""


def _coll_predicate(c, g, n):
    if n < 2:
        if g.get("error") != "ValueError":
            return False, "collection: a collection of %d graph(s) must raise ValueError, got %s" % (n, str(g)[:100])
        return True, ""
    dis = any(len(_components(a)) > 1 for a in c["graphs"])
    if "error" in g:
        return False, "%s: %s: %s (collection)" % ("raised-disconnected" if dis else "raised", g["error"], g.get("msg"))
    if g["shape"] != [[n, n], [n, n]]:
        return False, "collection: shapes %s for %d graphs" % (g["shape"], n)
    if g["warned"] != dis:
        return False, "warning: warned=%s but disconnected=%s (collection)" % (g["warned"], dis)
    for M in (g["lbs"], g["ubs"]):
        for i in range(n):
            if M[i][i] != 0:
                return False, "collection: non-zero diagonal entry %r" % M[i][i]
            for j in range(n):
                if M[i][j] != M[j][i]:
                    return False, "collection: not symmetric at (%d,%d): %r vs %r" % (i, j, M[i][j], M[j][i])
    for i in range(n):
        for j in range(i + 1, n):
            bad = _check_bracket(c["graphs"][i], c["graphs"][j], g["lbs"][i][j], g["ubs"][i][j], "entry (%d,%d)" % (i, j))
            if bad:
                return False, bad
    return True, ""


def nontrivial(c, o):
    if c["kind"] == "pair":
        if any(len(_components(v["VG"])) > 1 or len(_components(v["VH"])) > 1 for v in c["variants"][:1]):
            return True
        reps = {(v["fmt"], v["enc"], v["relabelled"]) for v in c["variants"]}
        return len(reps) >= 3 and max(len(c["G"]), len(c["H"])) >= 3
    return len(c["graphs"]) >= 3 or any(len(_components(a)) > 1 for a in c["graphs"])


def finding_of(c, o, detail):
    # call site: gromov_hausdorff.py line 211 (rows-only restriction); signature: ValueError from
    # determine_optimal_int_type on an input that has a disconnected graph
    if detail.startswith("raised-disconnected") and "ValueError" in detail:
        return FINDING
    return None


# ---------------------------------------------------------------- the model, run inside Coq
HEADER = """From Coq Require Import ZArith List Bool.
From Persim Require Import Spec.MGH Model.MGHM Model.GraphM Corr.MGHCorr Corr.GraphCorr.
Import ListNotations.
Open Scope Z_scope.
"""


def _dmres(d):
    if "error" in d:
        return "DMValueError" if d["error"] == "ValueError" else None
    if len(d["shape"]) != 2 or d["shape"][0] != d["shape"][1]:
        return None
    return "(DMOk %s %s)" % (c05.cbool(d["warned"]), c05.cmat(d["D"]))


def _term(c, o):
    ts = []
    if c["kind"] == "pair" and max(len(c["G"]), len(c["H"])) > 140:
        return "SKIP"
    if c["kind"] == "pair":
        big = max(len(c["G"]), len(c["H"])) > 60      # cubic Floyd-Warshall in Coq: one representation is enough
        for v, vo in list(zip(c["variants"], o["variants"]))[:1 if big else None]:
            for key, A in (("dmG", v["VG"]), ("dmH", v["VH"])):
                r = _dmres(vo[key])
                if r is None:
                    return None
                ts.append("check_dm %s %s" % (c05.cmat(A), r))
            g = vo["gh"]
            if "error" in g:
                if g["error"] != "ValueError":
                    return None
                impl = "None"
            else:
                if not float(2 * g["lb"]).is_integer():
                    return None
                impl = "(Some (%s, %d))" % (c05.cbool(g["warned"]), int(2 * g["lb"]))
            ts.append("check_pair %s %s %s" % (c05.cmat(v["VG"]), c05.cmat(v["VH"]), impl))
    else:
        g = o["coll"]
        if "error" in g:
            if g["error"] != "ValueError":
                return None
            impl = "None"
        else:
            if not all(float(2 * x).is_integer() for r in g["lbs"] for x in r):
                return None
            impl = "(Some (%s, %s))" % (c05.cbool(g["warned"]), c05.cmat([[int(2 * x) for x in r] for r in g["lbs"]]))
        ts.append("check_coll %s %s" % (core.coq_list([c05.cmat(a) for a in c["graphs"]]), impl))
    return "zmaxl %s" % core.coq_list(["(%s)" % t for t in ts])


def coq_jobs(cases, outs):
    return []


def coq_judge(cases, outs, results):
    verdicts = [None] * len(cases)
    terms, idx = [], []
    for i, (c, o) in enumerate(zip(cases, outs)):
        t = _term(c, o)
        if t == "SKIP":
            verdicts[i] = "skip:more than 140 vertices, model not run (the predicate knows the exact distance)"
        elif t is None:
            verdicts[i] = "disagree:output not expressible in the model (unexpected exception type or shape): %s" % str(o)[:160]
        else:
            idx.append(i)
            terms.append(t)
    toks, _ = core.eval_cases(PID, HEADER, terms, chunk=max(4, (len(terms) + 15) // 16))
    for i, t in zip(idx, toks):
        verdicts[i] = {"0": "agree", "1": "legacy:" + FINDING}.get(
            t, "disagree:distance matrix / warning / exception / lower bound differs from the model (code %s)" % t[:40])
    return verdicts
