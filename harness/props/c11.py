"""C11 - persistence images are additive, order-free and call-style independent.
Theorems: coq/Properties/C11.v on the C04 model (Model/ImageM.v).  Tie: relations between runs of
the implementation (union vs sum, permutation, zero-weight points, empty diagram, single vs
collection, n_jobs, skew vs pre-converted, non-negativity, pixel total <= total weight), each
evaluated by the independent predicate; for a few additivity cases the sum of the MODEL images of
the two parts is certified inside Coq against the implementation's image of the union."""
import math
from fractions import Fraction

from .. import core
from . import c04

PID = "C11"
THEOREMS = [
    "transform_app", "transform_perm", "zero_weight_neutral", "transform_nil", "single_eq_collection",
    "parallel_eq_serial_partial", "skew_equiv", "pixels_nonneg", "pixel_total_le_weight",
    "pixel_sums_telescope", "product_kernels_valid", "uniform_kernel_valid",
    "cdf_like_iff_mono01", "image_nonneg_uniform", "image_total_le_weight_uniform",
    "image_nonneg_gaussian_zero_cov", "image_total_le_weight_gaussian_zero_cov", "kernelM_assumptions_hold",
    "pixels_nonneg_on_imager_state", "uniform_pixel_is_area_fraction", "uniform_mass_conserved",
    "uniform_mass_conserved_on_imager_state", "image_nonneg_gaussian_monotone_Phi",
    "run_instances_are_kernel_models", "image_nonneg_run_instance",
    "uniform_point_localised_on_imager_state",
]
RULE = ("seeded generator of relation instances {additivity on unions, permutation, zero-weight points, empty "
        "diagram / empty collection, single vs collection (element-wise, in order), n_jobs in {None,1,2,4} x skew in {True,False} "
        "bit-identical, skew=True on (b,d) vs skew=False on (b,d-b), non-negativity, pixel total <= total weight, "
        "caller's array untouched} x kernels {isotropic, axis-aligned, correlated on both sides of 0.925, uniform} x "
        "weights {persistence, linear_ramp, user}; a quarter of the instances hand integer-valued points over as an int64 array / nested list of ints (and must give the image of the same points as float64); resolutions 2x2 .. 6x5, 1-12 points, points inside / on the "
        "border / outside; tolerance 1e-12 * (1 + total weight) where sums are re-ordered, exact equality for "
        "n_jobs; a case is non-trivial when the images compared are not all-zero (except in the empty class) and "
        "the relation relates two different calls; distinct = distinct JSON input")
TRUSTED_BASE = c04.TRUSTED_BASE
ASSUMPTIONS = [
    "joblib.Parallel returns its results in input order (hypothesis of single_eq_collection / "
    "parallel_eq_serial_partial); worker scheduling itself is not modelled - the tie runs n_jobs in {None,1,2,4}",
    "mono01 Phi (norm_cdf non-decreasing with values in [0,1]) and, for the correlated Gaussian, rectangle masses "
    "in [0,1] (kernel_assumption) are hypotheses of pixels_nonneg / pixel_total_le_weight; proved for product "
    "kernels and the uniform kernel",
    "the mesh is non-decreasing (C12's invariant) in pixels_nonneg / pixel_total_le_weight",
    "binary64 rounding of the implementation is bounded by the stated tolerances, not proved",
]
TOL = 1e-12
COQ_DEPS = ["Corr/ImageCorr.vo"]
COQ_TIMEOUT = 600

MAX_CERT = 6
RELS = ["additivity", "permutation", "zero_weight", "empty", "collection", "njobs", "skew", "nonneg_total",
        "fit_transform"]


def _cfg(rng, big):
    kcls = rng.choice(c04.KCLS_COQ + c04.KCLS_CORR)
    wcls = rng.choice(["pers_nat", "pers_real", "ramp", "user"])
    res = (rng.randint(2, 6), rng.randint(2, 5)) if big else rng.choice([(2, 2), (2, 3), (3, 2)])
    dyadic = rng.random() < 0.5
    base = c04._case(rng, kcls, wcls, "mixed", res, 1, dyadic, True)
    return kcls, wcls, res, dyadic, base


def _pts(rng, base, n, skew, wcls, dyadic):
    br, pr = base["birth_range"], base["pers_range"]
    res = (round((br[1] - br[0]) / base["pixel_size"]), round((pr[1] - pr[0]) / base["pixel_size"]))
    c = c04._case(rng, "uniform", wcls, "mixed", res, n, dyadic, skew)
    # re-draw inside THIS base's region: shift the generated points
    out = []
    for b, d in c["dgm"]:
        p = d - b if skew else d
        b2 = b - c["birth_range"][0] + br[0]
        p2 = p - c["pers_range"][0] + pr[0]
        if wcls == "pers_real" and p2 <= 0:
            p2 = 0.125
        out.append([b2, (b2 + p2) if skew else p2])
    return out


def _integerise(rng, c, wcls):
    """Integer-valued points in an integer-dtype container, on an integer-based region; the ramp keeps
    fractional parameters so that its weights are not integers."""
    c["container"] = rng.choice(["i64", "list_int"])
    ps = rng.choice([1.0, 0.5])
    nb = max(2, min(4, round((c["birth_range"][1] - c["birth_range"][0]) / c["pixel_size"])))
    npx = max(2, min(4, round((c["pers_range"][1] - c["pers_range"][0]) / c["pixel_size"])))
    blo, plo = float(rng.randint(-1, 1)), float(rng.randint(0, 1))
    c["pixel_size"] = ps
    c["birth_range"] = [blo, blo + nb * ps]
    c["pers_range"] = [plo, plo + npx * ps]
    if c["weight"]["type"] == "linear_ramp":
        c["weight"] = {"type": "linear_ramp", "low": rng.choice([0.25, 0.0, 0.75]), "high": rng.choice([1.375, 2.5]),
                       "start": rng.choice([0.5, 1.5]), "end": rng.choice([2.5, 3.25])}
    for key in ("A", "B"):
        pts = []
        for _ in c[key]:
            b = float(rng.randint(int(blo) - 1, int(math.ceil(c["birth_range"][1])) + 1))
            p = float(rng.randint(0, 4))
            pts.append([b, (b + p) if c["skew"] else p])
        c[key] = pts


def generate(rng, tier):
    n = 153 if tier == "quick" else 3000
    cases = []
    for i in range(n):
        rel = RELS[i % len(RELS)]
        if rel == "njobs" and tier == "quick" and i >= len(RELS) * 6:
            rel = rng.choice(["additivity", "permutation", "skew", "collection"])
        kcls, wcls, res, dyadic, base = _cfg(rng, big=(i % 3 != 0))
        small = (rel == "additivity" and i < len(RELS) * MAX_CERT)     # the instances certified inside Coq
        if small:
            kcls = rng.choice(c04.KCLS_COQ)
            res = rng.choice([(2, 2), (2, 3), (3, 2)])
            base = c04._case(rng, kcls, wcls, "mixed", res, 1, dyadic, True)
        skew = rng.random() < 0.6
        if rel == "skew":
            skew = True
        c = {k: base[k] for k in ("birth_range", "pers_range", "pixel_size", "kernel", "weight")}
        c["skew"] = skew
        c["rel"] = rel
        c["cls"] = "%s/%s/%s" % (rel, kcls.split("_")[0], wcls)
        c["A"] = _pts(rng, base, 1 if small else rng.randint(1, 6), skew, wcls, dyadic)
        c["B"] = _pts(rng, base, 1 if small else rng.randint(1, 6), skew, wcls, dyadic)
        c["container"] = "list_float" if rng.random() < 0.2 else "f64"
        if (i // len(RELS) + i) % 4 == 1 and not small:
            _integerise(rng, c, wcls)
        if rel == "permutation":
            perm = list(range(len(c["A"] + c["B"])))
            rng.shuffle(perm)
            c["perm"] = perm
        if rel == "zero_weight":
            # points whose weight is exactly 0: persistence 0 under the persistence weight,
            # below `start` with low = 0 under linear_ramp
            w = c["weight"]
            if w["type"] == "user" or (w["type"] == "linear_ramp" and rng.random() < 0.5):
                w = {"type": "linear_ramp", "low": 0.0, "high": 1.0, "start": 0.25, "end": 1.0}
                c["weight"] = w
            zs = []
            integer = c["container"] in ("i64", "list_int")
            if integer and w["type"] == "linear_ramp":
                w.update(low=0.0, start=0.5)
            for _ in range(rng.randint(1, 3)):
                b = rng.uniform(c["birth_range"][0] - 0.5, c["birth_range"][1] + 0.5)
                if w["type"] == "persistence":
                    p = 0.0
                else:
                    if w["low"] != 0.0:
                        w["low"] = 0.0
                    p = rng.uniform(0.0, w["start"] * 0.99) if w["start"] > 0 else -0.125
                    if skew:
                        # make d - b reproduce p < start robustly
                        p = math.floor(p * 64) / 64
                        b = math.floor(b * 64) / 64
                if integer:
                    b, p = float(round(b)), 0.0
                zs.append([b, (b + p) if skew else p])
            c["Z"] = zs
            c["zpos"] = [rng.randint(0, len(c["A"])) for _ in zs]
        if rel == "fit_transform":
            # birth-death diagrams with non-zero births, >= 2 points of distinct birth and persistence each
            # (a 1-point diagram fits a zero-size image); half dyadic, half random doubles
            c["skew"] = True
            c["container"] = rng.choice(["f64", "f64", "list_float"])
            c["pixel_size"] = rng.choice([0.5, 0.25, rng.uniform(0.2, 0.6)])
            c["as_collection"] = (i // len(RELS)) % 2 == 1
            for key in ("A", "B"):
                pts = []
                for kk in range(rng.randint(2, 5)):
                    b = rng.uniform(0.5, 3.0) + 0.25 * kk
                    p = rng.uniform(0.2, 2.0) + 0.125 * kk
                    if dyadic:
                        b, p = round(b * 16) / 16, round(p * 16) / 16
                    pts.append([b, b + p])
                c[key] = pts
        if rel == "njobs" and c["weight"]["type"] == "persistence" and c["weight"]["n"] != int(c["weight"]["n"]):
            # the arrays are read with both skew flags; a real exponent is nan on a negative persistence
            c["weight"] = {"type": "persistence", "n": float(rng.choice([1, 2, 3]))}
        if rel in ("collection", "njobs"):
            c["C"] = _pts(rng, base, rng.randint(1, 4), skew, wcls, dyadic)
            if c["container"] in ("i64", "list_int"):
                c["C"] = [[float(round(b)), float(round(b)) + float(round(abs(d - b))) if skew else float(round(abs(d)))]
                          for b, d in c["C"]]
        cases.append(c)
    return cases


def corpus():
    base = {"birth_range": [0.0, 1.0], "pers_range": [0.0, 1.5], "pixel_size": 0.5,
            "kernel": {"type": "gauss_scalar", "s": 0.25}, "weight": {"type": "persistence", "n": 1.0}, "skew": True}
    out = []
    d = dict(base); d.update(rel="additivity", A=[[0.25, 1.0]], B=[[0.5, 1.75]]); out.append(d)
    d = dict(base); d.update(rel="skew", A=[[0.25, 1.0], [0.75, 1.0]], B=[]); out.append(d)
    d = dict(base); d.update(rel="empty", A=[], B=[]); out.append(d)
    d = dict(base); d.update(rel="collection", A=[[0.25, 1.0]], B=[[0.5, 1.75], [0.0, 0.5]], C=[[1.0, 1.25]]); out.append(d)
    # C13's region: |r| >= 0.925 gave negative pixels before the fix of images_kernels.py:173
    d = dict(base); d.update(rel="nonneg_total", kernel={"type": "gauss_matrix", "sxx": 1.0, "sxy": 0.95, "syy": 1.0},
                             skew=False, A=[[0.3351, 0.2785]], B=[[0.9, 0.4]]); out.append(d)
    return out


# ---- implementation --------------------------------------------------------------------------
def impl_run(cases):
    import copy
    import numpy as np
    outs = []
    INT = ("i64", "list_int")

    def mk_arr(cont):
        return lambda pts: np.array(pts, dtype=np.int64 if cont in INT else float).reshape(-1, 2)

    def conv(x, cont):
        """Hand a diagram (or a collection of diagrams) over in the container the case names."""
        if isinstance(x, np.ndarray):
            return x.tolist() if (x.shape[0] and cont in ("list_int", "list_float")) else x
        if isinstance(x, list) and x and isinstance(x[0], np.ndarray):
            return [conv(y, cont) for y in x]
        return x

    def same(x, y):
        return type(x) is type(y) and getattr(x, "dtype", None) == getattr(y, "dtype", None) and \
            bool(np.array_equal(np.asarray(x), np.asarray(y)))

    def lst(img):
        img = np.asarray(img)
        return {"shape": [int(x) for x in img.shape], "v": [float(x) for x in img.ravel()]}

    for c in cases:
        def call():
            im = c04.make_imager(c)
            sk = c["skew"]
            rel = c["rel"]
            cont = c.get("container", "f64")
            arr = mk_arr(cont)

            def T(x, **kw):
                return im.transform(conv(x, cont), **kw)
            o = {"res": [int(x) for x in im.resolution], "bp": [float(x) for x in im._bpnts],
                 "pp": [float(x) for x in im._ppnts]}
            A, B = arr(c["A"]), arr(c["B"])
            AB = np.vstack([A, B])
            if rel == "additivity":
                o["AB"] = lst(T(AB, skew=sk)); o["A"] = lst(T(A, skew=sk)) if len(A) else None
                o["B"] = lst(T(B, skew=sk)) if len(B) else None
            elif rel == "permutation":
                o["AB"] = lst(T(AB, skew=sk)); o["P"] = lst(T(AB[c["perm"]], skew=sk))
            elif rel == "zero_weight":
                rows = [list(r) for r in A]
                for z, pos in zip(c["Z"], c["zpos"]):
                    rows.insert(min(pos, len(rows)), z)
                o["A"] = lst(T(A, skew=sk)); o["AZ"] = lst(T(arr(rows), skew=sk))
                Zf = np.array(c["Z"], dtype=float).reshape(-1, 2)
                wz = im.weight(Zf[:, 0], (Zf[:, 1] - Zf[:, 0]) if sk else Zf[:, 1], **im.weight_params)
                o["wz"] = [float(x) for x in np.asarray(wz).ravel()]
            elif rel == "empty":
                o["E1"] = lst(T(np.zeros((0, 2)), skew=sk))
                o["E2"] = lst(T([], skew=sk))
                r3 = T([np.zeros((0, 2)), A] if len(A) else [np.zeros((0, 2))], skew=sk)
                o["E3"] = lst(r3[0]); o["E3len"] = len(r3)
            elif rel == "collection":
                C = arr(c["C"])
                o["A"] = lst(T(A, skew=sk)); o["B"] = lst(T(B, skew=sk)); o["C"] = lst(T(C, skew=sk))
                r1 = T([A], skew=sk)
                o["L1"] = [lst(x) for x in r1]; o["L1type"] = type(r1).__name__
                o["L3"] = [lst(x) for x in T([A, B, C], skew=sk)]
                o["Alist"] = lst(T([list(map(float, r)) for r in A], skew=sk))
            elif rel == "njobs":
                o["J"] = {}; o["Jsingle"] = {}       # filled below, grouped by n_jobs (one worker pool per value)
            elif rel == "skew":
                A_in = conv(A, cont)
                A0 = copy.deepcopy(A_in)
                o["S"] = lst(im.transform(A_in, skew=True))
                o["unchanged"] = same(A_in, A0)
                o["S2"] = lst(im.transform(A_in, skew=True))           # same object again: same image
                Ap = A.copy(); Ap[:, 1] = Ap[:, 1] - Ap[:, 0]
                o["N"] = lst(T(Ap, skew=False))
                L = [copy.deepcopy(A0), copy.deepcopy(A0)]
                r = im.transform(L, skew=True)
                o["Scoll"] = [lst(x) for x in r]
                o["unchanged"] = o["unchanged"] and same(L[0], A0) and same(L[1], A0)
            elif rel == "nonneg_total":
                o["AB"] = lst(T(AB, skew=sk))
            elif rel == "fit_transform":
                def bp_of(X):
                    Y = X.copy(); Y[:, 1] = Y[:, 1] - Y[:, 0]; return Y
                coll = bool(c.get("as_collection"))
                BD = [A, B] if coll else A
                BP = [bp_of(A), bp_of(B)] if coll else bp_of(A)

                def imgs(r):
                    return [lst(x) for x in r] if coll else [lst(r)]

                def win(m):
                    return [list(map(float, m.birth_range)), list(map(float, m.pers_range)), [int(x) for x in m.resolution]]
                m1 = c04.make_imager(c); o["FT_BD"] = imgs(m1.fit_transform(conv(BD, cont), skew=True)); o["W_BD"] = win(m1)
                m2 = c04.make_imager(c); o["FT_BP"] = imgs(m2.fit_transform(conv(BP, cont), skew=False)); o["W_BP"] = win(m2)
                m3 = c04.make_imager(c); m3.fit(conv(BD, cont), skew=True)
                o["F_T_BD"] = imgs(m3.transform(conv(BD, cont), skew=True)); o["W3"] = win(m3)
                m4 = c04.make_imager(c); m4.fit(conv(BP, cont), skew=False)
                o["F_T_BP"] = imgs(m4.transform(conv(BP, cont), skew=False)); o["W4"] = win(m4)
            if cont in INT and len(A):
                # the same points as an integer-dtype container and as a float64 array
                o["PRIM"] = lst(T(A, skew=sk))
                o["F64"] = lst(im.transform(np.array(c["A"], dtype=float).reshape(-1, 2), skew=sk))
            return o
        outs.append(core.guarded(call))
    for nj in (None, 1, 2, 4):
        for c, o in zip(cases, outs):
            if c["rel"] != "njobs" or "error" in o:
                continue
            def run():
                im = c04.make_imager(c)
                cont = c.get("container", "f64")
                arr = mk_arr(cont)
                A, B, C = arr(c["A"]), arr(c["B"]), arr(c["C"])
                # n_jobs crossed with skew: the same arrays read as birth-death (skew=True) and as
                # birth-persistence (skew=False)
                for sk in (True, False):
                    key = "%s/%s" % (nj, sk)
                    o["J"][key] = [lst(x) for x in im.transform(conv([A, B, C], cont), skew=sk, n_jobs=nj)]
                    if nj in (None, 1, 2):
                        o["Jsingle"][key] = lst(im.transform(conv(A, cont), skew=sk, n_jobs=nj))
                return None
            r = core.guarded(run)
            if r is not None:
                o.clear(); o.update(r)
    return outs


# ---- the relations (spec), on the implementation's outputs ---------------------------------------
def _total_weight(c, pts):
    t = 0.0
    for b, d in pts:
        t += abs(c04._weight_ref(c["weight"], b, (d - b) if c["skew"] else d))
    return t


def _close(x, y, tol):
    if x is None or y is None:
        return "missing image"
    if x["shape"] != y["shape"]:
        return "shapes %s vs %s" % (x["shape"], y["shape"])
    for k, (a, b) in enumerate(zip(x["v"], y["v"])):
        if not (a == a and b == b) or abs(a - b) > tol:
            return "pixel %d: %r vs %r" % (k, a, b)
    return None


def _sum(x, y):
    return {"shape": x["shape"], "v": [a + b for a, b in zip(x["v"], y["v"])]}


def predicate(c, o):
    if "error" in o:
        return False, "unexpected-error: %s" % o
    rel = c["rel"]
    res = o["res"]
    tol = TOL * (1.0 + _total_weight(c, c["A"] + c["B"] + c.get("C", [])))

    def shape_ok(x):
        return x is not None and x["shape"] == res
    if "F64" in o:
        e = _close(o["PRIM"], o["F64"], tol)
        if e:
            return False, "container: an integer-dtype diagram and the same points as float64 give different images: %s" % e
    if rel == "additivity":
        if not shape_ok(o["AB"]):
            return False, "shape: %s for resolution %s" % (o["AB"]["shape"], res)
        parts = [x for x in (o["A"], o["B"]) if x is not None]
        s = parts[0] if len(parts) == 1 else _sum(parts[0], parts[1])
        e = _close(o["AB"], s, tol)
        return (e is None), ("additivity: image(A u B) != image(A) + image(B): %s" % e if e else "")
    if rel == "permutation":
        e = _close(o["AB"], o["P"], tol)
        return (e is None), ("permutation: image depends on the order of the points: %s" % e if e else "")
    if rel == "zero_weight":
        if any(w != 0.0 for w in o["wz"]):
            return True, ""      # generator failed to produce zero weights (not a violation)
        e = _close(o["A"], o["AZ"], tol)
        return (e is None), ("zero-weight: points of weight 0 changed the image: %s" % e if e else "")
    if rel == "empty":
        for k in ("E1", "E2", "E3"):
            x = o[k]
            if x["shape"] != res:
                return False, "empty: %s has shape %s, resolution %s" % (k, x["shape"], res)
            if any(v != 0.0 for v in x["v"]):
                return False, "empty: %s is not all-zero" % k
        return True, ""
    if rel == "collection":
        e = _close(o["A"], o["L1"][0] if len(o["L1"]) == 1 else None, 0.0) or _close(o["A"], o["Alist"], 0.0)
        if e:
            return False, "collection: transform(D) vs transform([D])[0]: %s" % e
        if len(o["L3"]) != 3:
            return False, "collection: %d images for 3 diagrams" % len(o["L3"])
        for name, x in zip("ABC", o["L3"]):
            e = _close(o[name], x, 0.0)
            if e:
                return False, "collection: image of diagram %s inside the collection (element-wise, in order): %s" % (name, e)
        return True, ""
    if rel == "njobs":
        for sk in ("True", "False"):
            ref = o["J"]["None/" + sk]
            for nj in ("1", "2", "4"):
                got = o["J"]["%s/%s" % (nj, sk)]
                if len(got) != len(ref):
                    return False, "njobs: n_jobs=%s skew=%s returned %d images" % (nj, sk, len(got))
                for k, (x, y) in enumerate(zip(ref, got)):
                    e = _close(x, y, 0.0)
                    if e:
                        return False, "njobs: n_jobs=%s skew=%s image %d differs from serial: %s" % (nj, sk, k, e)
            for nj in ("1", "2"):
                e = _close(o["Jsingle"]["None/" + sk], o["Jsingle"]["%s/%s" % (nj, sk)], 0.0) or \
                    _close(o["Jsingle"]["None/" + sk], ref[0], 0.0)
                if e:
                    return False, "njobs: single diagram, n_jobs=%s skew=%s vs serial: %s" % (nj, sk, e)
        return True, ""
    if rel == "skew":
        if not o["unchanged"]:
            return False, "input-mutated: transform(skew=True) changed the caller's array"
        e = _close(o["S"], o["N"], tol)
        if e:
            return False, "skew: (b,d) with skew=True vs (b,d-b) with skew=False: %s" % e
        e = _close(o["S"], o["S2"], 0.0) or _close(o["S"], o["Scoll"][0], 0.0) or _close(o["S"], o["Scoll"][1], 0.0)
        return (e is None), ("skew: repeated call on the same array gives another image: %s" % e if e else "")
    if rel == "nonneg_total":
        pts = c["A"] + c["B"]
        ws = [c04._weight_ref(c["weight"], b, (d - b) if c["skew"] else d) for b, d in pts]
        if any(w < 0 for w in ws):
            return True, ""
        x = o["AB"]
        if not shape_ok(x):
            return False, "shape: %s for resolution %s" % (x["shape"], res)
        m = min(x["v"])
        if not (m >= -tol):
            return False, "nonneg: pixel %r < 0 with non-negative weights" % m
        tot, tw = math.fsum(x["v"]), math.fsum(ws)
        if not (tot <= tw + tol):
            return False, "total: pixel total %r exceeds total weight %r" % (tot, tw)
        return True, ""
    if rel == "fit_transform":
        ref = o["FT_BD"]
        if any(x["shape"] != o["W_BD"][2] or 0 in x["shape"] for x in ref):
            return False, "fit-transform: image shapes %s for fitted resolution %s" % ([x["shape"] for x in ref], o["W_BD"][2])
        for name, w in (("W_BP", "fit_transform(BP, skew=False)"), ("W3", "fit(BD, skew=True)"), ("W4", "fit(BP, skew=False)")):
            if o[name] != o["W_BD"]:
                return False, "fit-transform: %s fitted window %s, fit_transform(BD, skew=True) fitted %s" % (w, o[name], o["W_BD"])
        for name, w in (("FT_BP", "fit_transform(BP, skew=False)"), ("F_T_BD", "fit(BD, skew=True) then transform(BD, skew=True)"),
                        ("F_T_BP", "fit(BP, skew=False) then transform(BP, skew=False)")):
            if len(o[name]) != len(ref):
                return False, "fit-transform: %s returned %d images for %d diagrams" % (w, len(o[name]), len(ref))
            for k, (x, y) in enumerate(zip(ref, o[name])):
                e = _close(x, y, tol)
                if e:
                    return False, "fit-transform: fit_transform(BD, skew=True) vs %s, diagram %d: %s" % (w, k, e)
        return True, ""
    return False, "unknown relation %r" % rel


def nontrivial(c, o):
    if "error" in o:
        return False
    if c["rel"] == "empty":
        return True
    key = {"additivity": "AB", "permutation": "AB", "zero_weight": "A", "collection": "A", "skew": "S",
           "nonneg_total": "AB"}.get(c["rel"])
    x = o["J"]["None/True"][0] if c["rel"] == "njobs" else (o["FT_BD"][0] if c["rel"] == "fit_transform" else o.get(key))
    if x is None or max(abs(v) for v in x["v"]) <= 1e-9:
        return False
    if c["rel"] == "permutation":
        return c["perm"] != sorted(c["perm"])
    if c["rel"] == "zero_weight":
        return all(w == 0.0 for w in o["wz"])
    return True


# ---- model run inside Coq: a few additivity instances -------------------------------------------
def _img_rows(x):
    nb, npx = x["shape"]
    return [x["v"][i * npx:(i + 1) * npx] for i in range(nb)]


def coq_jobs(cases, outs):
    return []


def coq_judge(cases, outs, results):
    verdicts = ["skip:relation between implementation runs (model laws are the theorems of C11.v)"] * len(cases)
    lemmas, idx = [], []
    for i, (c, o) in enumerate(zip(cases, outs)):
        if len(idx) >= MAX_CERT:
            break
        if c["rel"] != "additivity" or "error" in o or not c04.certifiable(c):
            continue
        if len(c["A"]) + len(c["B"]) > 3 or not c["A"] or not c["B"] or o["AB"]["shape"][0] * o["AB"]["shape"][1] > 6:
            continue
        R = core.coq_R
        if any(v != v or abs(v) == float("inf") for v in o["AB"]["v"]):
            verdicts[i] = "disagree:implementation image of the union contains nan/inf"
            continue
        ca = dict(c); ca["dgm"] = c["A"]
        cb = dict(c); cb["dgm"] = c["B"]
        img = core.coq_list([core.coq_list([R(v) for v in row]) for row in _img_rows(o["AB"])])
        st = "img_close %s (img_add (%s) (%s)) %s" % (R(Fraction(1, 10 ** 9)), c04.coq_call(ca, o["bp"], o["pp"]),
                                                     c04.coq_call(cb, o["bp"], o["pp"]), img)
        lemmas.append((st, "cbv [img_add]; image_case."))
        idx.append(i)
    if lemmas:
        ok, wall = core.prove_lemmas(PID, c04.HEADER, lemmas, chunk=1, timeout=COQ_TIMEOUT)
        for i, good in zip(idx, ok):
            verdicts[i] = "agree" if good else \
                "disagree:certificate |model image(A) + model image(B) - impl image(A u B)| <= 1e-9 not provable"
    return verdicts


def shrink_candidates(c):
    for key in ("A", "B", "C"):
        pts = c.get(key) or []
        if len(pts) > 1 and c["rel"] != "permutation":
            for i in range(len(pts)):
                d = dict(c); d[key] = pts[:i] + pts[i + 1:]; yield d
    if c["weight"]["type"] != "persistence" and c["rel"] != "zero_weight":
        d = dict(c); d["weight"] = {"type": "persistence", "n": 1.0}; yield d
