"""C11 - persistence images are additive, order-free and call-style independent.
Theorems: coq/Properties/C11.v on the C04 model (Model/ImageM.v).  Tie: relations between runs of
the implementation (union vs sum, permutation, zero-weight points, empty diagram, single vs
collection, n_jobs, skew vs pre-converted, non-negativity, pixel total <= total weight), each
evaluated by the independent predicate; for a few additivity cases the sum of the MODEL images of
the two parts is certified inside Coq against the implementation's image of the union.
Beyond single relation instances: size classes just above typical block sizes (pairs per diagram, diagrams per
collection) and call histories on ONE imager object (harness/history.py) whose every step is again a relation
instance; images are kept by reference until all calls of an instance are done."""
import math
from fractions import Fraction

from .. import core, history
from . import c04

PID = "C11"
THEOREMS = [
    "transform_app", "transform_perm", "zero_weight_neutral", "transform_nil", "single_eq_collection",
    "parallel_eq_serial_partial", "skew_equiv", "pixels_nonneg", "pixel_total_le_weight",
    "pixel_sums_telescope", "product_kernels_valid", "uniform_kernel_valid",
    "cdf_like_iff_mono01", "image_nonneg_uniform", "image_total_le_weight_uniform",
    "image_nonneg_gaussian_zero_cov", "image_total_le_weight_gaussian_zero_cov", "kernelM_assumptions_hold",
    "pixels_nonneg_on_imager_state", "uniform_pixel_is_area_fraction", "uniform_mass_conserved",
    "uniform_mass_conserved_on_imager_state", "image_nonneg_gaussian_monotone_Phi",
    "run_instances_are_kernel_models", "image_nonneg_run_instance",
    "uniform_point_localised_on_imager_state",
]
RULE = ("seeded generator of relation instances {additivity on unions, permutation, zero-weight points, empty "
        "diagram / empty collection, single vs collection (element-wise, in order), n_jobs in {None,1,2,4} x skew in {True,False} "
        "bit-identical, skew=True on (b,d) vs skew=False on (b,d-b), non-negativity, pixel total <= total weight, "
        "caller's array untouched} x kernels {isotropic, axis-aligned, correlated on both sides of 0.925, uniform} x "
        "weights {persistence, linear_ramp, user}; a quarter of the instances hand integer-valued points over as an int64 array / nested list of ints (and must give the image of the same points as float64); resolutions 2x2 .. 6x5, 1-12 points, points inside / on the "
        "border / outside; tolerance 1e-12 * (1 + total weight) where sums are re-ordered, exact equality for "
        "n_jobs; a case is non-trivial when the images compared are not all-zero (except in the empty class) and "
        "the relation relates two different calls; distinct = distinct JSON input. "
        "SIZES: for every block size T in {48, 512, 4096} + one of {32, 64, 100, 128, 256, 1000, 1024, 2048} per run (thorough: all "
        "of them, 8192 and 10000) diagrams of T+1 .. T+T/8 pairs on the grid k/1024 (never a multiple of T): additivity with both "
        "parts below T and the union above (or one part above), permutation, non-negativity / pixel total, each on the isotropic-"
        "Gaussian fast path and on the kernel-function path, plus alone-vs-collection and skew at one T; 'many': a COLLECTION of "
        "T+1.. diagrams (T = 48, 512; thorough up to 10000) - number of images, every image serial vs n_jobs in {1,2} bit-identical, "
        "a sample of diagrams (first, last, middle, around every block size) alone vs inside; resolutions up to 8x7 and 33x3 / 3x65 "
        "/ 17x9. STYLES: one diagram alone / in a collection / through the workers branch (n_jobs 1, 2) / repeated after the other "
        "calls, all bit-identical, and image(A u B) = image(A) + image(B) with the parts taken from the collection and from the "
        "workers; layouts {C-contiguous, Fortran order, strided view inside a nan-filled buffer, read-only, nested list}. "
        "HISTORIES (harness/history.py): 4-8 relation instances run one after the other on ONE imager that is re-configured between "
        "them through its public attributes only where the configuration differs (kernel_params / weight_params re-assigned, "
        "updated in place, sigma matrix overwritten element-wise; kernel / weight function swapped; birth_range, pers_range, "
        "pixel_size setters there and back; fit / fit_transform again and again on the same object), on diagram objects shared by "
        "identity whose points share birth values and whole pairs; kinds {kernel sweep, weight sweep, window sweep, refit, calls "
        "that raise half-way (a malformed diagram in the middle of a collection, serial and through workers; broken weight / "
        "kernel parameters) followed by clean calls, diagram sweep}. Every step must satisfy its relation, and its image must equal "
        "(within the tolerance) the image a NEW imager of the same configuration gives for the same diagram. All images of an "
        "instance are converted only after its last call, so a result overwritten by a later call fails the relation. A size case "
        "is non-trivial when its diagram / collection really exceeds T and the image is not all-zero; a history when at least two of its steps are non-trivial. "
        "MAGNITUDES / NEAR-TIES (class mag/...): relation instances {additivity, permutation, styles, skew, non-negativity / total, "
        "alone vs collection} whose CONSECUTIVE ROWS are tied or nearly tied - births, persistences or whole pairs equal or 5e-6 / 1e-6 / "
        "1e-7 / 1e-9 apart in relative terms - with the union cut mostly BETWEEN two tied rows (the parts see the rows apart, the union "
        "sees them one after the other), in three flavours: 'tiny' (every length - window, pixel size, kernel widths, ramp thresholds, "
        "points - in units of 1e-8 / 1e-9 / 1e-10, so that all coordinates are < 1e-8 apart in absolute terms although pixels apart), "
        "'offset' (birth axis shifted by +-1e3 .. 9e6 on a pixel grid of 0.006 .. 0.125, short bars, so that 1e-5 relative spans pixels) and "
        "'neartie' (unit scale); kernels on both code paths, all weights, all layouts, resolutions 2x2 .. 8x7, 3-16 points; and whole "
        "HISTORIES carried to those magnitudes (_rescale: the same instance in another unit / on a shifted birth axis).  Magnitude "
        "instances are judged with tolerance 1e-12 * total |weight| (no absolute term: their pixels are ~1e-9 or ~1e+8) and are "
        "non-trivial when the image exceeds 1e-9 * min(1, mean |weight|).  Inside a history every array persim returned is overwritten "
        "(history.scribble) once its values are read out, so a result cache handing out its stored image fails a later step")
TRUSTED_BASE = c04.TRUSTED_BASE + [
    "harness: call histories (harness/history.py) and the re-configuration of the shared imager through public attributes (_imager)",
    "harness: _rescale (a relation instance / history carried to another unit or birth offset: window, pixel size, kernel widths, "
    "ramp thresholds and points are moved together)",
]
ASSUMPTIONS = [
    "joblib.Parallel returns its results in input order (hypothesis of single_eq_collection / "
    "parallel_eq_serial_partial); worker scheduling itself is not modelled - the tie runs n_jobs in {None,1,2,4}",
    "mono01 Phi (norm_cdf non-decreasing with values in [0,1]) and, for the correlated Gaussian, rectangle masses "
    "in [0,1] (kernel_assumption) are hypotheses of pixels_nonneg / pixel_total_le_weight; proved for product "
    "kernels and the uniform kernel",
    "the mesh is non-decreasing (C12's invariant) in pixels_nonneg / pixel_total_le_weight",
    "binary64 rounding of the implementation is bounded by the stated tolerances, not proved (magnitude instances: 1e-12 * total "
    "|weight|, i.e. >= 2^13 ulps of the largest possible pixel for <= 16 points)",
    "the configuration of an imager is what its public attributes (birth_range, pers_range, pixel_size, weight, weight_params, "
    "kernel, kernel_params) say at the time of the call: runs on different imager objects of equal configuration are runs of the "
    "same configuration (history steps compare a re-configured imager with a new one)",
]
TOL = 1e-12
COQ_DEPS = ["Corr/ImageCorr.vo"]
COQ_TIMEOUT = 600

MAX_CERT = 6
RELS = ["additivity", "permutation", "zero_weight", "empty", "collection", "njobs", "skew", "nonneg_total",
        "fit_transform"]


def _cfg(rng, big):
    kcls = rng.choice(c04.KCLS_COQ + c04.KCLS_CORR)
    wcls = rng.choice(["pers_nat", "pers_real", "ramp", "user"])
    res = (rng.randint(2, 6), rng.randint(2, 5)) if big else rng.choice([(2, 2), (2, 3), (3, 2)])
    dyadic = rng.random() < 0.5
    base = c04._case(rng, kcls, wcls, "mixed", res, 1, dyadic, True)
    return kcls, wcls, res, dyadic, base


def _pts(rng, base, n, skew, wcls, dyadic):
    br, pr = base["birth_range"], base["pers_range"]
    res = (round((br[1] - br[0]) / base["pixel_size"]), round((pr[1] - pr[0]) / base["pixel_size"]))
    c = c04._case(rng, "uniform", wcls, "mixed", res, n, dyadic, skew)
    # re-draw inside THIS base's region: shift the generated points
    out = []
    for b, d in c["dgm"]:
        p = d - b if skew else d
        b2 = b - c["birth_range"][0] + br[0]
        p2 = p - c["pers_range"][0] + pr[0]
        if wcls == "pers_real" and p2 <= 0:
            p2 = 0.125
        out.append([b2, (b2 + p2) if skew else p2])
    return out


def _integerise(rng, c, wcls):
    """Integer-valued points in an integer-dtype container, on an integer-based region; the ramp keeps
    fractional parameters so that its weights are not integers."""
    c["container"] = rng.choice(["i64", "list_int"])
    ps = rng.choice([1.0, 0.5])
    nb = max(2, min(4, round((c["birth_range"][1] - c["birth_range"][0]) / c["pixel_size"])))
    npx = max(2, min(4, round((c["pers_range"][1] - c["pers_range"][0]) / c["pixel_size"])))
    blo, plo = float(rng.randint(-1, 1)), float(rng.randint(0, 1))
    c["pixel_size"] = ps
    c["birth_range"] = [blo, blo + nb * ps]
    c["pers_range"] = [plo, plo + npx * ps]
    if c["weight"]["type"] == "linear_ramp":
        c["weight"] = {"type": "linear_ramp", "low": rng.choice([0.25, 0.0, 0.75]), "high": rng.choice([1.375, 2.5]),
                       "start": rng.choice([0.5, 1.5]), "end": rng.choice([2.5, 3.25])}
    for key in ("A", "B"):
        pts = []
        for _ in c[key]:
            b = float(rng.randint(int(blo) - 1, int(math.ceil(c["birth_range"][1])) + 1))
            p = float(rng.randint(0, 4))
            pts.append([b, (b + p) if c["skew"] else p])
        c[key] = pts


def _relation_cases(rng, tier):
    n = 153 if tier == "quick" else 3000
    cases = []
    for i in range(n):
        rel = RELS[i % len(RELS)]
        if rel == "njobs" and tier == "quick" and i >= len(RELS) * 6:
            rel = rng.choice(["additivity", "permutation", "skew", "collection"])
        kcls, wcls, res, dyadic, base = _cfg(rng, big=(i % 3 != 0))
        small = (rel == "additivity" and i < len(RELS) * MAX_CERT)     # the instances certified inside Coq
        if small:
            kcls = rng.choice(c04.KCLS_COQ)
            res = rng.choice([(2, 2), (2, 3), (3, 2)])
            base = c04._case(rng, kcls, wcls, "mixed", res, 1, dyadic, True)
        skew = rng.random() < 0.6
        if rel == "skew":
            skew = True
        c = {k: base[k] for k in ("birth_range", "pers_range", "pixel_size", "kernel", "weight")}
        c["skew"] = skew
        c["rel"] = rel
        c["cls"] = "%s/%s/%s" % (rel, kcls.split("_")[0], wcls)
        c["A"] = _pts(rng, base, 1 if small else rng.randint(1, 6), skew, wcls, dyadic)
        c["B"] = _pts(rng, base, 1 if small else rng.randint(1, 6), skew, wcls, dyadic)
        c["container"] = "list_float" if rng.random() < 0.2 else "f64"
        if (i // len(RELS) + i) % 4 == 1 and not small:
            _integerise(rng, c, wcls)
        if rel == "permutation":
            perm = list(range(len(c["A"] + c["B"])))
            rng.shuffle(perm)
            c["perm"] = perm
        if rel == "zero_weight":
            # points whose weight is exactly 0: persistence 0 under the persistence weight,
            # below `start` with low = 0 under linear_ramp
            w = c["weight"]
            if w["type"] == "user" or (w["type"] == "linear_ramp" and rng.random() < 0.5):
                w = {"type": "linear_ramp", "low": 0.0, "high": 1.0, "start": 0.25, "end": 1.0}
                c["weight"] = w
            zs = []
            integer = c["container"] in ("i64", "list_int")
            if integer and w["type"] == "linear_ramp":
                w.update(low=0.0, start=0.5)
            for _ in range(rng.randint(1, 3)):
                b = rng.uniform(c["birth_range"][0] - 0.5, c["birth_range"][1] + 0.5)
                if w["type"] == "persistence":
                    p = 0.0
                else:
                    if w["low"] != 0.0:
                        w["low"] = 0.0
                    p = rng.uniform(0.0, w["start"] * 0.99) if w["start"] > 0 else -0.125
                    if skew:
                        # make d - b reproduce p < start robustly
                        p = math.floor(p * 64) / 64
                        b = math.floor(b * 64) / 64
                if integer:
                    b, p = float(round(b)), 0.0
                zs.append([b, (b + p) if skew else p])
            c["Z"] = zs
            c["zpos"] = [rng.randint(0, len(c["A"])) for _ in zs]
        if rel == "fit_transform":
            # birth-death diagrams with non-zero births, >= 2 points of distinct birth and persistence each
            # (a 1-point diagram fits a zero-size image); half dyadic, half random doubles
            c["skew"] = True
            c["container"] = rng.choice(["f64", "f64", "list_float"])
            c["pixel_size"] = rng.choice([0.5, 0.25, rng.uniform(0.2, 0.6)])
            c["as_collection"] = (i // len(RELS)) % 2 == 1
            for key in ("A", "B"):
                c[key] = _ft_points(rng, dyadic)
        if rel == "njobs" and c["weight"]["type"] == "persistence" and c["weight"]["n"] != int(c["weight"]["n"]):
            # the arrays are read with both skew flags; a real exponent is nan on a negative persistence
            c["weight"] = {"type": "persistence", "n": float(rng.choice([1, 2, 3]))}
        if rel in ("collection", "njobs"):
            c["C"] = _pts(rng, base, rng.randint(1, 4), skew, wcls, dyadic)
            if c["container"] in ("i64", "list_int"):
                c["C"] = [[float(round(b)), float(round(b)) + float(round(abs(d - b))) if skew else float(round(abs(d)))]
                          for b, d in c["C"]]
        cases.append(c)
    return cases


# ---- sizes just above typical block sizes -----------------------------------------------------
BLOCKS_QUICK = [48, 512, 4096]
BLOCKS_MORE = [32, 64, 100, 128, 256, 1000, 1024, 2048]
BLOCKS_THOROUGH = [8192, 10000]
CFG_KEYS = ("birth_range", "pers_range", "pixel_size", "kernel", "weight")
LAYOUTS = ["f64", "f64", "f64_F", "f64_view", "f64_ro", "list_float"]


def _grid_pts(rng, cfg, n, skew):
    """n points on the grid k/1024 around the window (a tenth of them outside), persistence > 0."""
    (b0, b1), (p0, p1) = cfg["birth_range"], cfg["pers_range"]
    nb, npx = int((b1 - b0) * 1024), int((p1 - p0) * 1024)
    out = []
    for _ in range(n):
        b = b0 + rng.randint(-100, nb + 100) / 1024
        p = max(p0 + rng.randint(-100, npx + 100) / 1024, 1 / 1024)
        out.append([b, (b + p) if skew else p])
    return out


def _big_case(rng, rel, T, path=None):
    """A diagram (or a union / a collection) whose size is just above the block size T and not a multiple of it;
    path = "iso" (the isotropic-Gaussian fast path) / "general" (the kernel-function path) / None (either)."""
    small = T <= 600
    iso, gen = ["iso_scalar", "iso_matrix"], ["axis", "uniform"] + (["corr_mid", "corr_top"] if small else [])
    kcls = rng.choice({"iso": iso, "general": gen}.get(path, iso + iso + gen))
    wcls = rng.choice(["pers_nat", "pers_real", "ramp", "user"])
    res = rng.choice([(3, 3), (5, 4), (4, 6), (8, 7)] + ([(33, 3), (3, 65), (17, 9)] if small else []))
    base = c04._case(rng, kcls, wcls, "mixed", res, 1, True, True)
    c = {k: base[k] for k in CFG_KEYS}
    skew = True if rel == "skew" else rng.random() < 0.6
    n = T + rng.randint(1, max(2, T // 8))
    c.update(skew=skew, rel=rel, cls="size>%d/%s/%s/%s" % (T, rel, kcls.split("_")[0], wcls), block=T,
             container=rng.choice(["f64", "f64", "f64_F", "f64_view", "list_float"] if small else ["f64", "f64", "f64_view"]))
    if rel == "many":
        # a COLLECTION of n small diagrams drawn from a pool of a dozen points
        pool = _grid_pts(rng, c, 12, skew)
        c["dgms"] = [[list(rng.choice(pool)) for _ in range(rng.randint(1, 3))] for _ in range(n)]
        c["njobs"] = [1, 2] if rng.random() < 0.5 else [1]
        c["A"], c["B"] = [], []
        return c
    if rel in ("collection", "skew"):
        na = n
    elif rng.random() < 0.7:
        na = rng.randint(n // 3, (2 * n) // 3)        # both parts below the block size, the union above
    else:
        na = n - rng.randint(1, max(1, T // 4))        # one part above the block size already
    pts = _grid_pts(rng, c, n, skew)
    c["A"], c["B"] = pts[:na], pts[na:]
    if rel == "collection":
        c["B"] = _grid_pts(rng, c, rng.randint(1, 4), skew)
        c["C"] = _grid_pts(rng, c, rng.randint(1, 4), skew)
    if rel == "permutation":
        perm = list(range(n))
        rng.shuffle(perm)
        c["perm"] = perm
    return c


def _big_cases(rng, tier):
    out = []
    if tier == "quick":
        blocks = BLOCKS_QUICK + [rng.choice(BLOCKS_MORE)]
        for T in blocks:
            # both code paths see a re-ordering relation at every block size
            flip = rng.random() < 0.5
            out.append(_big_case(rng, "additivity", T, "general" if flip else "iso"))
            out.append(_big_case(rng, "permutation", T, "iso" if flip else "general"))
            out.append(_big_case(rng, rng.choice(["additivity", "permutation"]), T))
            out.append(_big_case(rng, "nonneg_total", T, "iso" if rng.random() < 0.7 else "general"))
        out.append(_big_case(rng, "collection", rng.choice(blocks)))
        out.append(_big_case(rng, "skew", rng.choice(blocks)))
        out.append(_big_case(rng, "many", 48))
        out.append(_big_case(rng, "many", 512))
        return out
    for rep in range(3):
        for T in BLOCKS_QUICK + BLOCKS_MORE + BLOCKS_THOROUGH:
            for rel in ("additivity", "permutation", "nonneg_total", "collection", "skew", "many"):
                if rel == "many" and T > 4096 and rep:
                    continue
                out.append(_big_case(rng, rel, T))
    return out


# ---- call histories on ONE imager object ----------------------------------------------------------
HIST_KINDS = ["kernel_sweep", "weight_sweep", "window_sweep", "refit", "fault", "diagram_sweep"]
STEP_RELS = ["styles", "styles", "additivity", "permutation", "skew", "collection", "nonneg_total"]


def _distinct(rng, draw, prev):
    for _ in range(20):
        x = draw()
        if x != prev:
            return x
    return x


def _ft_points(rng, dyadic):
    """>= 2 points for fit / fit_transform; births pairwise distinct and persistences pairwise distinct (a diagram whose
    births all coincide fits a zero-size image)."""
    pts, bs, ps = [], [], []
    for kk in range(rng.randint(2, 5)):
        b = rng.uniform(0.5, 3.0) + 0.25 * kk
        p = rng.uniform(0.2, 2.0) + 0.125 * kk
        if dyadic:
            b, p = round(b * 16) / 16, round(p * 16) / 16
        while any(abs(b - x) < 0.03125 for x in bs):
            b += 0.0625
        while any(abs(p - x) < 0.03125 for x in ps):
            p += 0.0625
        bs.append(b); ps.append(p)
        pts.append([b, b + p])
    return pts


def _history(rng, kind):
    """Steps are ordinary relation instances; they run one after the other on ONE imager that is re-configured
    through its public attributes between them, on diagram objects shared by identity."""
    kcls0 = rng.choice(["iso_scalar", "iso_scalar", "iso_matrix", "axis", "uniform", "corr_mid"])
    if kind in ("kernel_sweep", "diagram_sweep"):
        kcls0 = rng.choice(["iso_scalar", "iso_matrix"])
    wcls0 = rng.choice(["pers_nat", "pers_real", "ramp", "user"])
    res = rng.choice([(2, 2), (2, 3), (3, 2), (4, 3)])
    base = c04._case(rng, kcls0, wcls0, "mixed", res, 1, True, True)
    cfg = {k: base[k] for k in CFG_KEYS}
    ps = cfg["pixel_size"]
    skew = rng.random() < 0.6
    cont = rng.choice(LAYOUTS)
    pool = [_pts(rng, base, rng.randint(2, 5), skew, "pers_real", True) for _ in range(4)]
    if rng.random() < 0.7:
        # diagrams share coordinates (every H0 class is born at the same value) and whole pairs
        b0 = pool[0][0][0]
        for P in pool:
            for pt in P[:max(1, len(P) // 2)]:
                p = (pt[1] - pt[0]) if skew else pt[1]
                pt[0], pt[1] = b0, ((b0 + p) if skew else p)
        pool[1].append(list(pool[0][-1]))
        pool[2].append(list(pool[0][0]))
        pool[3].append(list(pool[1][0]))

    def step(cf, rel, trio=(0, 1, 2), reconf="assign"):
        s = {k: cf[k] for k in CFG_KEYS}
        A, B, C = (pool[t] for t in trio)
        if rel == "skew" and not skew:
            rel = "styles"          # the pool is in birth-persistence form: reading it as birth-death is another diagram
        s.update(skew=skew, rel=rel, cls="step/" + rel, A=A, B=B, C=C, container=cont, reconf=reconf)
        if rel == "skew":
            s["skew"] = True
        if rel == "permutation":
            perm = list(range(len(A) + len(B)))
            while len(perm) > 1 and perm == sorted(perm):
                rng.shuffle(perm)
            s["perm"] = perm
        if rel == "styles":
            s["njobs"] = rng.choice([[1], [1], [1, 2]])
        if rel == "fit_transform":
            s.update(skew=True, A=_ft_points(rng, True), B=_ft_points(rng, True), C=[],
                     as_collection=rng.random() < 0.5, container="list_float" if cont == "list_float" else "f64")
        return s

    def fault(cf, fkind):
        s = step(cf, "fault")
        s.update(fault=True, fault_kind=fkind, cls="step/fault/" + fkind)
        return s

    def rel_at(i):
        return "styles" if i % 2 == 1 else rng.choice(STEP_RELS)

    def how():
        return rng.choice(["assign", "mutate", "deep"])
    steps = []
    if kind == "kernel_sweep":
        ks = [cfg["kernel"]]
        classes = ["iso_scalar" if cfg["kernel"]["type"] == "gauss_scalar" else "iso_matrix"]
        classes += [rng.choice(["iso_scalar", "iso_matrix", "axis", "uniform", "corr_mid"]) for _ in range(rng.randint(2, 3))]
        for kc in classes:
            ks.append(_distinct(rng, lambda: c04._kernel(rng, kc), ks[-1]))
        ks.append(ks[0])                                             # ... and back to the first configuration
        for i, k in enumerate(ks):
            steps.append(step(dict(cfg, kernel=k), rel_at(i), reconf=how()))
    elif kind == "weight_sweep":
        first = cfg["weight"]
        ws = [first]
        for wc in [wcls0 if wcls0 != "user" else "ramp"] + [rng.choice(["pers_nat", "pers_real", "ramp", "user"]) for _ in range(rng.randint(2, 3))]:
            ws.append(_distinct(rng, lambda: c04._weight(rng, wc), ws[-1]) if wc != "user" else {"type": "user"})
        ws.append(first)
        for i, w in enumerate(ws):
            if i and w == ws[i - 1]:
                continue
            steps.append(step(dict(cfg, weight=w), rel_at(i), reconf=how()))
    elif kind == "window_sweep":
        (b0, b1), (p0, p1) = cfg["birth_range"], cfg["pers_range"]
        db, dp = rng.choice([-1, 1, 2]) * ps * rng.choice([0.5, 1.0]), rng.choice([0, 1]) * ps * rng.choice([0.5, 1.0])
        wins = [dict(cfg),
                dict(cfg, birth_range=[b0 + db, b1 + db]),
                dict(cfg, birth_range=[b0 + db, b1 + db], pers_range=[p0 + dp, p1 + dp + ps]),
                dict(cfg, pixel_size=2 * ps),
                dict(cfg, pixel_size=ps / 2, birth_range=[b0, b0 + ps * max(1, res[0] // 2)]),
                dict(cfg)]
        for i, w in enumerate(wins):
            steps.append(step(w, rel_at(i)))
    elif kind == "refit":
        steps = [step(cfg, "fit_transform"), step(cfg, "styles"), step(cfg, "fit_transform"),
                 step(cfg, rng.choice(STEP_RELS)), step(cfg, "fit_transform"), step(cfg, "styles", trio=(1, 2, 3))]
    elif kind == "fault":
        k2 = _distinct(rng, lambda: c04._kernel(rng, kcls0), cfg["kernel"])
        steps = [step(cfg, "styles"), fault(cfg, "bad_diagram"), step(cfg, "styles", trio=(1, 0, 2)),
                 fault(cfg, rng.choice(["bad_weight_params", "bad_kernel_params"])), step(cfg, rng.choice(STEP_RELS)),
                 fault(dict(cfg, kernel=k2), "bad_diagram_parallel"), step(dict(cfg, kernel=k2), "styles", trio=(2, 1, 0)),
                 step(cfg, "collection")]
    else:   # diagram_sweep: one configuration, the roles of the shared diagrams rotate
        trios = [(0, 1, 2), (1, 0, 3), (2, 0, 1), (3, 2, 0), (0, 1, 2)]
        for i, t in enumerate(trios):
            steps.append(step(cfg, rel_at(i + 1) if i % 2 == 0 else rng.choice(STEP_RELS), trio=t))
    return history.make(kind, steps)


def _histories(rng, n):
    return [_history(rng, HIST_KINDS[i % len(HIST_KINDS)]) for i in range(n)]


def _styles_cases(rng, n):
    """Single-call 'styles' instances (alone / collection / workers / union with parts from workers) in every layout."""
    out = []
    for i in range(n):
        kcls, wcls, res, dyadic, base = _cfg(rng, big=True)
        skew = rng.random() < 0.6
        c = {k: base[k] for k in CFG_KEYS}
        c.update(skew=skew, rel="styles", cls="styles/%s/%s" % (kcls.split("_")[0], wcls), njobs=[1, 2] if i % 3 == 0 else [1],
                 container=LAYOUTS[1:][i % (len(LAYOUTS) - 1)])
        for key in "ABC":
            c[key] = _pts(rng, base, rng.randint(1, 5), skew, wcls, dyadic)
        out.append(c)
    return out


# ---- magnitudes and near-ties between consecutive rows --------------------------------------------
MAG_UNITS = [1e-8, 1e-9, 1e-10]                    # every length of the instance in such a unit
MAG_FINE = [0.0625, 0.05, 0.125, 0.03]            # pixel grids of the offset flavour (times the base pixel size)
MAG_OFFSETS = [1e3, 1e4, 1e5, 1e6]                # the birth axis shifted that far, bars stay short
MAG_RELTIES = [5e-6, 1e-6, 1e-7, 1e-9]            # relative distance between near-tied coordinates
MAG_FLAVOURS = ["tiny", "offset", "neartie"]
MAG_RELS = ["additivity", "permutation", "styles", "additivity", "permutation", "skew", "nonneg_total", "collection"]
MAG_KCLS = ["iso_scalar", "iso_matrix", "iso_scalar", "iso_matrix", "axis", "uniform", "corr_mid"]
PT_KEYS = ("A", "B", "C", "Z")


def _rescale(c, u=1.0, off=0.0):
    """The same instance in another unit (every length times u) and / or on a birth axis shifted by off: window, pixel
    size, kernel widths, ramp thresholds and points all move together.  Histories: every step."""
    if history.is_hist(c):
        d = dict(c)
        d["seq"] = [_rescale(s, u, off) for s in c["seq"]]
        d["cls"] = "%s/mag(u=%g,off=%g)" % (c["cls"], u, off)
        return d
    d = dict(c)
    sk = c["skew"]

    def pt(q):
        b = q[0] * u + off
        return [b, (q[1] * u + off) if sk else q[1] * u]
    for key in PT_KEYS:
        if c.get(key) is not None:
            d[key] = [pt(q) for q in c[key]]
    if c.get("dgms") is not None:
        d["dgms"] = [[pt(q) for q in g] for g in c["dgms"]]
    d["birth_range"] = [x * u + off for x in c["birth_range"]]
    d["pers_range"] = [x * u for x in c["pers_range"]]
    d["pixel_size"] = c["pixel_size"] * u
    k = dict(c["kernel"])
    for key in ("s", "sxx", "sxy", "syy"):
        if key in k:
            k[key] = k[key] * u * u                      # variances
    for key in ("width", "height"):
        if key in k:
            k[key] = k[key] * u
    d["kernel"] = k
    w = dict(c["weight"])
    if w["type"] == "linear_ramp":
        w["start"], w["end"] = w["start"] * u, w["end"] * u
    d["weight"] = w
    m = dict(c.get("mag") or {"u": 1.0, "off": 0.0})
    m["u"], m["off"] = m["u"] * u, m["off"] + off
    d["mag"] = m
    return d


def _mag_case(rng, rel, flavour):
    """A relation instance whose consecutive rows are near-tied (births, persistences or whole pairs within 5e-6 .. 1e-9
    relative, or exactly tied), in nanometre-like units / far along the birth axis on a fine grid / at unit scale."""
    kcls = rng.choice(MAG_KCLS)
    wcls = rng.choice(["pers_nat", "pers_real", "ramp", "user"])
    res = rng.choice([(2, 2), (3, 2), (4, 3), (5, 4), (6, 5), (8, 7)])
    base = c04._case(rng, kcls, wcls, "mixed", res, 1, rng.random() < 0.5, True)
    c = {k: base[k] for k in CFG_KEYS}
    skew = True if rel == "skew" else rng.random() < 0.6
    c.update(skew=skew, rel=rel, A=[], B=[], container=rng.choice(LAYOUTS))
    if flavour == "tiny":
        c = _rescale(c, u=rng.choice(MAG_UNITS) * rng.choice([1.0, 1.0, rng.uniform(0.5, 8.0)]))
    elif flavour == "offset":
        c = _rescale(_rescale(c, u=rng.choice(MAG_FINE)), off=rng.choice(MAG_OFFSETS) * rng.choice([1.0, -1.0, rng.uniform(1.0, 9.0)]))
    else:
        c["mag"] = {"u": 1.0, "off": 0.0}
    c["mag"]["flavour"] = flavour
    c["cls"] = "mag/%s/%s/%s/%s" % (flavour, rel, kcls.split("_")[0], wcls)
    (b0, b1), (p0, p1), ps = c["birth_range"], c["pers_range"], c["pixel_size"]

    def near(x):
        r = rng.random()
        if r < 0.2:
            return x                                                     # an exact tie
        if flavour == "tiny" and r < 0.5:
            return x + rng.choice([-1, 1]) * rng.uniform(0.05, 2.0) * ps  # far apart in pixels, 1e-8 apart in absolute terms
        return x + rng.choice([-1, 1]) * rng.choice(MAG_RELTIES) * max(abs(x), ps)

    rows, starts = [], []
    for _ in range(rng.randint(2, 5)):
        b = rng.uniform(b0 - 0.3 * ps, b1 + 0.3 * ps)
        p = max(rng.uniform(p0, p1 + 0.3 * ps), 0.05 * ps)
        starts.append(len(rows))
        rows.append((b, p))
        for _ in range(rng.choice([0, 1, 1, 2])):
            how = rng.random()
            if how < 0.5:
                q = (near(b), max(rng.uniform(p0, p1 + 0.3 * ps), 0.05 * ps))     # births tied, persistences apart
            elif how < 0.7:
                q = (rng.uniform(b0, b1), max(near(p), 0.05 * ps))              # persistences tied
            else:
                q = (near(b), max(near(p), 0.05 * ps))                           # (nearly) the same pair again
            rows.append(q)
    if len(rows) == len(starts):
        rows.append((near(rows[-1][0]), rows[-1][1] * rng.choice([0.5, 1.0, 1.5])))
    pts = [[b, (b + p) if skew else p] for b, p in rows]
    inside = [i for i in range(1, len(pts)) if i not in starts]
    cut = rng.choice(inside) if rng.random() < 0.75 else rng.randint(1, len(pts) - 1)    # mostly between two tied rows
    c["A"], c["B"] = pts[:cut], pts[cut:]
    if rel == "permutation":
        perm = list(range(len(pts)))
        while perm == sorted(perm):
            rng.shuffle(perm)
        c["perm"] = perm
    if rel in ("collection", "styles"):
        c["C"] = [list(rng.choice(pts)) for _ in range(rng.randint(1, 3))]
    if rel == "styles":
        c["njobs"] = [1, 2] if rng.random() < 0.25 else [1]
    return c


def _mag_cases(rng, n):
    return [_mag_case(rng, MAG_RELS[i % len(MAG_RELS)], MAG_FLAVOURS[(i % len(MAG_RELS) + i // len(MAG_RELS)) % len(MAG_FLAVOURS)]) for i in range(n)]


def _mag_histories(rng, n):
    """Ordinary histories (one imager, shared diagram objects) carried to another magnitude as a whole."""
    out = []
    for i in range(n):
        h = _history(rng, rng.choice(HIST_KINDS))
        if i % 2 == 0:
            out.append(_rescale(h, u=rng.choice(MAG_UNITS)))
        else:
            out.append(_rescale(_rescale(h, u=rng.choice([0.125, 0.05, 0.25])), off=rng.choice(MAG_OFFSETS)))
    return out


def generate(rng, tier):
    cases = _relation_cases(rng, tier)
    quick = tier == "quick"
    cases += _styles_cases(rng, 10 if quick else 200)
    cases += _histories(rng, 12 if quick else 240)
    cases += _big_cases(rng, tier)
    cases += _mag_cases(rng, 48 if quick else 1200)
    cases += _mag_histories(rng, 4 if quick else 80)
    return cases


def corpus():
    base = {"birth_range": [0.0, 1.0], "pers_range": [0.0, 1.5], "pixel_size": 0.5,
            "kernel": {"type": "gauss_scalar", "s": 0.25}, "weight": {"type": "persistence", "n": 1.0}, "skew": True}
    out = []
    d = dict(base); d.update(rel="additivity", A=[[0.25, 1.0]], B=[[0.5, 1.75]]); out.append(d)
    d = dict(base); d.update(rel="skew", A=[[0.25, 1.0], [0.75, 1.0]], B=[]); out.append(d)
    d = dict(base); d.update(rel="empty", A=[], B=[]); out.append(d)
    d = dict(base); d.update(rel="collection", A=[[0.25, 1.0]], B=[[0.5, 1.75], [0.0, 0.5]], C=[[1.0, 1.25]]); out.append(d)
    # C13's region: |r| >= 0.925 gave negative pixels before the fix of images_kernels.py:173
    d = dict(base); d.update(rel="nonneg_total", kernel={"type": "gauss_matrix", "sxx": 1.0, "sxy": 0.95, "syy": 1.0},
                             skew=False, A=[[0.3351, 0.2785]], B=[[0.9, 0.4]]); out.append(d)
    return out


# ---- implementation --------------------------------------------------------------------------
INT = ("i64", "list_int")
MAIN = {"additivity": "AB", "permutation": "AB", "zero_weight": "A", "collection": "A", "skew": "A",
        "nonneg_total": "AB", "styles": "A"}


class _Img(object):
    """An image returned by persim, kept BY REFERENCE until all calls of the case are done (a result that is
    overwritten by a later call shows)."""
    def __init__(self, a):
        self.a = a


def _kernel_of(k):
    import numpy as np
    from persim import images_kernels
    if k["type"] == "gauss_scalar":
        return images_kernels.gaussian, {"sigma": float(k["s"])}
    if k["type"] == "gauss_matrix":
        return images_kernels.gaussian, {"sigma": np.array([[k["sxx"], k["sxy"]], [k["sxy"], k["syy"]]], dtype=float)}
    return images_kernels.uniform, {"width": float(k["width"]), "height": float(k["height"])}


def _weight_of(w):
    from persim import images_weights
    if w["type"] == "persistence":
        return images_weights.persistence, {"n": w["n"]}
    if w["type"] == "linear_ramp":
        return images_weights.linear_ramp, {"low": w["low"], "high": w["high"], "start": w["start"], "end": w["end"]}
    if w["type"] == "user_signed":
        return c04.user_weight_signed, {}
    return c04.user_weight, {}


def _set_params(im, attr_fn, attr_params, fn, params, how):
    """Re-configure through the public attributes: a new dict is assigned, or the dict the imager already holds
    is updated in place ('mutate'; 'deep' also overwrites a sigma matrix element-wise)."""
    import numpy as np
    cur = getattr(im, attr_params)
    if how in ("mutate", "deep") and getattr(im, attr_fn) is fn and isinstance(cur, dict) and set(cur) == set(params):
        for key, val in params.items():
            old = cur[key]
            if how == "deep" and isinstance(old, np.ndarray) and isinstance(val, np.ndarray) and old.shape == val.shape \
                    and old.flags.writeable:
                old[...] = val
            else:
                cur[key] = val
        return
    setattr(im, attr_fn, fn)
    setattr(im, attr_params, params)


def _imager(c, memo):
    """A fresh imager for a plain case; inside a history THE imager of the history, re-configured to the step's
    configuration - only what differs from its current configuration is assigned."""
    import copy
    if memo is None:
        return c04.make_imager(c)
    st = memo.get("__imager__")
    if st is None:
        st = memo["__imager__"] = {"im": c04.make_imager(c), "cfg": {k: copy.deepcopy(c[k]) for k in CFG_KEYS}}
        return st["im"]
    im, cur = st["im"], st["cfg"]
    how = c.get("reconf", "assign")
    if cur["pixel_size"] != c["pixel_size"]:
        im.pixel_size = c["pixel_size"]
        cur["birth_range"] = cur["pers_range"] = None          # the setter re-pads both ranges
    if cur["birth_range"] != c["birth_range"]:
        im.birth_range = tuple(c["birth_range"])
    if cur["pers_range"] != c["pers_range"]:
        im.pers_range = tuple(c["pers_range"])
    if cur["kernel"] != c["kernel"]:
        fn, kp = _kernel_of(c["kernel"])
        _set_params(im, "kernel", "kernel_params", fn, kp, how)
    if cur["weight"] != c["weight"]:
        fn, wp = _weight_of(c["weight"])
        _set_params(im, "weight", "weight_params", fn, wp, how)
    st["cfg"] = {k: copy.deepcopy(c[k]) for k in CFG_KEYS}
    return im


def _many_sample(n):
    ks = {0, 1, n // 2, n - 2, n - 1}
    for T in BLOCKS_QUICK + BLOCKS_MORE + BLOCKS_THOROUGH:
        ks.update((T - 1, T, T + 1))
    return sorted(k for k in ks if 0 <= k < n)


def impl_call(c, memo=None):
    """One relation instance.  memo is None for a plain case; inside a history it is the history's shared
    state: the imager object and the diagram objects (equal-valued diagrams are THE SAME objects)."""
    import copy
    import numpy as np

    cont = c.get("container", "f64")
    hist = memo is not None

    def build(pts):
        a = np.array(pts, dtype=np.int64 if cont in INT else float).reshape(-1, 2)
        if cont == "f64_F":
            a = np.asfortranarray(a)
        elif cont == "f64_view":
            buf = np.full((2 * len(a) + 1, 3), np.nan)
            buf[1::2, :2] = a
            a = buf[1::2, :2]                                   # neither C- nor F-contiguous, nan all around
        elif cont == "f64_ro":
            a.flags.writeable = False
        return a

    def arr(pts):
        if not hist:
            return build(pts)
        return history.intern(memo, ["arr", cont, pts], lambda: build(pts))

    def conv(x):
        """Hand a diagram (or a collection of diagrams) over in the container the case names."""
        if isinstance(x, np.ndarray):
            if not (x.shape[0] and cont in ("list_int", "list_float")):
                return x
            if not hist:
                return x.tolist()
            slot = memo.setdefault("__lists__", {})
            if id(x) not in slot:
                slot[id(x)] = (x, x.tolist())
            return slot[id(x)][1]
        if isinstance(x, list) and x and isinstance(x[0], np.ndarray):
            return [conv(y) for y in x]
        return x

    def same(x, y):
        return type(x) is type(y) and getattr(x, "dtype", None) == getattr(y, "dtype", None) and \
            bool(np.array_equal(np.asarray(x), np.asarray(y)))

    def lst(img):
        return _Img(img)

    def call():
        if c.get("fault"):
            return _fault(c, memo, arr, conv)
        im = _imager(c, memo)
        sk = c["skew"]
        rel = c["rel"]

        def T(x, **kw):
            return im.transform(conv(x), **kw)
        o = {"res": [int(x) for x in im.resolution], "bp": [float(x) for x in im._bpnts],
             "pp": [float(x) for x in im._ppnts]}
        A, B = arr(c["A"]), arr(c["B"])
        AB = np.vstack([A, B])
        if rel == "additivity":
            o["AB"] = lst(T(AB, skew=sk)); o["A"] = lst(T(A, skew=sk)) if len(A) else None
            o["B"] = lst(T(B, skew=sk)) if len(B) else None
        elif rel == "permutation":
            o["AB"] = lst(T(AB, skew=sk)); o["P"] = lst(T(AB[c["perm"]], skew=sk))
        elif rel == "zero_weight":
            rows = [list(r) for r in A]
            for z, pos in zip(c["Z"], c["zpos"]):
                rows.insert(min(pos, len(rows)), z)
            o["A"] = lst(T(A, skew=sk)); o["AZ"] = lst(T(arr(rows), skew=sk))
            Zf = np.array(c["Z"], dtype=float).reshape(-1, 2)
            wz = im.weight(Zf[:, 0], (Zf[:, 1] - Zf[:, 0]) if sk else Zf[:, 1], **im.weight_params)
            o["wz"] = [float(x) for x in np.asarray(wz).ravel()]
        elif rel == "empty":
            o["E1"] = lst(T(np.zeros((0, 2)), skew=sk))
            o["E2"] = lst(T([], skew=sk))
            r3 = T([np.zeros((0, 2)), A] if len(A) else [np.zeros((0, 2))], skew=sk)
            o["E3"] = lst(r3[0]); o["E3len"] = len(r3)
        elif rel == "collection":
            C = arr(c["C"])
            o["A"] = lst(T(A, skew=sk)); o["B"] = lst(T(B, skew=sk)); o["C"] = lst(T(C, skew=sk))
            r1 = T([A], skew=sk)
            o["L1"] = [lst(x) for x in r1]; o["L1type"] = type(r1).__name__
            o["L3"] = [lst(x) for x in T([A, B, C], skew=sk)]
            o["Alist"] = lst(T([list(map(float, r)) for r in A], skew=sk))
        elif rel == "njobs":
            o["J"] = {}; o["Jsingle"] = {}       # filled by impl_run, grouped by n_jobs (one worker pool per value)
        elif rel == "skew":
            A_in = conv(A)
            A0 = copy.deepcopy(A_in)
            o["S"] = lst(im.transform(A_in, skew=True))
            o["unchanged"] = same(A_in, A0)
            o["S2"] = lst(im.transform(A_in, skew=True))           # same object again: same image
            Ap = A.copy(); Ap[:, 1] = Ap[:, 1] - Ap[:, 0]
            o["N"] = lst(T(Ap, skew=False))
            L = [copy.deepcopy(A0), copy.deepcopy(A0)]
            r = im.transform(L, skew=True)
            o["Scoll"] = [lst(x) for x in r]
            o["unchanged"] = o["unchanged"] and same(L[0], A0) and same(L[1], A0)
        elif rel == "nonneg_total":
            o["AB"] = lst(T(AB, skew=sk))
        elif rel == "styles":
            # one diagram alone / inside a collection / through the workers branch, the union against parts that
            # came from a collection and from workers, and the first call repeated after all the others
            C = arr(c["C"])
            o["alone"] = lst(T(A, skew=sk))
            o["coll"] = [lst(x) for x in T([A, B, C], skew=sk)]
            o["par"] = {}
            for nj in c.get("njobs", [1]):
                o["par"][str(nj)] = [lst(x) for x in T([A, B, C], skew=sk, n_jobs=nj)]
            o["single_par"] = lst(T(A, skew=sk, n_jobs=c.get("njobs", [1])[0]))
            o["union"] = lst(T(AB, skew=sk))
            o["again"] = lst(T(A, skew=sk))
        elif rel == "many":
            # a long collection: serial, through the workers branch, and a sample of its diagrams one by one
            D = [arr(g) for g in c["dgms"]]
            o["L"] = [lst(x) for x in T(D, skew=sk)]
            o["P"] = {}
            for nj in c.get("njobs", [1]):
                o["P"][str(nj)] = [lst(x) for x in T(D, skew=sk, n_jobs=nj)]
            o["one"] = {str(k): lst(T(D[k], skew=sk)) for k in _many_sample(len(D))}
        elif rel == "fit_transform":
            def bp_of(X):
                Y = X.copy(); Y[:, 1] = Y[:, 1] - Y[:, 0]; return Y
            coll = bool(c.get("as_collection"))
            BD = [A, B] if coll else A
            BP = [bp_of(A), bp_of(B)] if coll else bp_of(A)

            def imgs(r):
                return [lst(x) for x in r] if coll else [lst(r)]

            def win(m):
                return [list(map(float, m.birth_range)), list(map(float, m.pers_range)), [int(x) for x in m.resolution]]

            def mk():
                # inside a history the ONE imager is fitted again and again
                return im if hist else c04.make_imager(c)
            m1 = mk(); o["FT_BD"] = imgs(m1.fit_transform(conv(BD), skew=True)); o["W_BD"] = win(m1)
            m2 = mk(); o["FT_BP"] = imgs(m2.fit_transform(conv(BP), skew=False)); o["W_BP"] = win(m2)
            m3 = mk(); m3.fit(conv(BD), skew=True)
            o["F_T_BD"] = imgs(m3.transform(conv(BD), skew=True)); o["W3"] = win(m3)
            m4 = mk(); m4.fit(conv(BP), skew=False)
            o["F_T_BP"] = imgs(m4.transform(conv(BP), skew=False)); o["W4"] = win(m4)
            if hist:
                m5 = c04.make_imager(c); o["FT_FRESH"] = imgs(m5.fit_transform(conv(BD), skew=True)); o["W_FRESH"] = win(m5)
                memo["__imager__"]["cfg"]["birth_range"] = memo["__imager__"]["cfg"]["pers_range"] = None
        if cont in INT and len(A):
            # the same points as an integer-dtype container and as a float64 array
            o["PRIM"] = lst(T(A, skew=sk))
            o["F64"] = lst(im.transform(np.array(c["A"], dtype=float).reshape(-1, 2), skew=sk))
        if hist and rel in MAIN:
            # the same configuration on another imager object, same input
            fresh = c04.make_imager(c)
            o["FRESH"] = lst(fresh.transform(conv(AB if MAIN[rel] == "AB" else A), skew=sk))
            o["FRESH_res"] = [int(x) for x in fresh.resolution]
        return _finish(o, scribble=hist)
    return core.guarded(call)


def _fault(c, memo, arr, conv):
    """A call that is expected to raise inside persim half-way through a collection / with broken parameters."""
    import numpy as np
    im = _imager(c, memo)
    A, B, C = arr(c["A"]), arr(c["B"]), arr(c["C"])
    bad = np.array([0.5, 1.0, 2.0])                       # not an (n, 2) array
    kind = c.get("fault_kind")
    try:
        if kind == "bad_diagram":
            im.transform([conv(A), bad, conv(C)], skew=c["skew"])
        elif kind == "bad_diagram_parallel":
            im.transform([conv(A), conv(B), bad], skew=c["skew"], n_jobs=1)
        elif kind == "bad_weight_params":
            if memo is not None:
                memo["__imager__"]["cfg"]["weight"] = None
            im.weight_params = {"bogus": 1.0}
            im.transform([conv(A), conv(B)], skew=c["skew"])
        elif kind == "bad_kernel_params":
            if memo is not None:
                memo["__imager__"]["cfg"]["kernel"] = None
            im.kernel_params = {}
            im.transform([conv(A), conv(B)], skew=c["skew"])
        return {"raised": None}
    except Exception as e:  # noqa
        return {"raised": type(e).__name__}


def _finish(o, scribble=False):
    """Read the images out; inside a history everything persim returned is then overwritten (history.scribble): a caller may
    edit what it got back, so a result cache handing out its stored array shows at a later step."""
    import numpy as np

    def fin(x):
        if isinstance(x, _Img):
            img = np.asarray(x.a)
            return {"shape": [int(v) for v in img.shape], "v": [float(v) for v in img.ravel()]}
        if isinstance(x, dict):
            return {k: fin(v) for k, v in x.items()}
        if isinstance(x, list):
            return [fin(v) for v in x]
        return x

    def scr(x):
        if isinstance(x, _Img):
            history.scribble(x.a)
        elif isinstance(x, dict):
            for v in x.values():
                scr(v)
        elif isinstance(x, list):
            for v in x:
                scr(v)
    res = fin(o)
    if scribble:
        scr(o)
    return res


def impl_run(cases):
    import numpy as np
    outs = [history.run(c, impl_call) if history.is_hist(c) else impl_call(c) for c in cases]
    for nj in (None, 1, 2, 4):
        for c, o in zip(cases, outs):
            if history.is_hist(c) or c["rel"] != "njobs" or "error" in o:
                continue
            def run():
                im = c04.make_imager(c)
                cont = c.get("container", "f64")
                arr = lambda pts: np.array(pts, dtype=np.int64 if cont in INT else float).reshape(-1, 2)   # noqa
                conv = lambda x: [conv(y) for y in x] if isinstance(x, list) else \
                    (x.tolist() if (x.shape[0] and cont in ("list_int", "list_float")) else x)            # noqa
                A, B, C = arr(c["A"]), arr(c["B"]), arr(c["C"])
                # n_jobs crossed with skew: the same arrays read as birth-death (skew=True) and as
                # birth-persistence (skew=False)
                got = {"J": {}, "Jsingle": {}}
                for sk in (True, False):
                    key = "%s/%s" % (nj, sk)
                    got["J"][key] = [_Img(x) for x in im.transform(conv([A, B, C]), skew=sk, n_jobs=nj)]
                    if nj in (None, 1, 2):
                        got["Jsingle"][key] = _Img(im.transform(conv(A), skew=sk, n_jobs=nj))
                got = _finish(got)
                o["J"].update(got["J"]); o["Jsingle"].update(got["Jsingle"])
                return None
            r = core.guarded(run)
            if r is not None:
                o.clear(); o.update(r)
    return outs


# ---- the relations (spec), on the implementation's outputs ---------------------------------------
def _total_weight(c, pts):
    t = 0.0
    if c["rel"] == "many":
        pts = [p for g in c["dgms"] for p in g]
    for b, d in pts:
        t += abs(c04._weight_ref(c["weight"], b, (d - b) if c["skew"] else d))
    return t


def _tol(c):
    """Sums are re-ordered between the calls compared: n * 2^-53 * total |weight| bounds the difference (kernel masses lie
    in [0, 1]).  Magnitude instances are judged relative to their total weight alone (their pixels are ~1e-9 or ~1e+8)."""
    W = _total_weight(c, c["A"] + c["B"] + (c.get("C") or []))
    return TOL * W if c.get("mag") else TOL * (1.0 + W)


def _floor(c):
    """Below this an image counts as all-zero."""
    if not c.get("mag"):
        return 1e-9
    return 1e-9 * min(1.0, _total_weight(c, c["A"] + c["B"]) / max(1, len(c["A"]) + len(c["B"])))


def _close(x, y, tol):
    if x is None or y is None:
        return "missing image"
    if x["shape"] != y["shape"]:
        return "shapes %s vs %s" % (x["shape"], y["shape"])
    for k, (a, b) in enumerate(zip(x["v"], y["v"])):
        if not (a == a and b == b) or abs(a - b) > tol:
            return "pixel %d: %r vs %r" % (k, a, b)
    return None


def _sum(x, y):
    return {"shape": x["shape"], "v": [a + b for a, b in zip(x["v"], y["v"])]}


def predicate(c, o):
    if history.is_hist(c):
        return history.predicate(c, o, predicate)
    if "error" in o:
        return False, "unexpected-error: %s" % o
    ok, detail = _relation(c, o)
    if ok and "FRESH" in o:
        # a step of a history: the relation holds among the calls on the re-used imager; the image must also be
        # the one a new imager of the same configuration produces
        res = o["res"]
        tol = _tol(c)
        main = {"additivity": "AB", "permutation": "AB", "zero_weight": "A", "collection": "A", "skew": "S",
                "nonneg_total": "AB", "styles": "alone"}[c["rel"]]
        e = ("resolutions %s vs %s" % (res, o["FRESH_res"]) if res != o["FRESH_res"] else None) or _close(o[main], o["FRESH"], tol)
        if e:
            return False, ("reuse: an imager re-configured through its public attributes and a new imager of the same "
                           "configuration give different images of the same diagram: %s" % e)
    return ok, detail


def _relation(c, o):
    rel = c["rel"]
    res = o["res"]
    tol = _tol(c)

    def shape_ok(x):
        return x is not None and x["shape"] == res
    if "F64" in o:
        e = _close(o["PRIM"], o["F64"], tol)
        if e:
            return False, "container: an integer-dtype diagram and the same points as float64 give different images: %s" % e
    if rel == "additivity":
        if not shape_ok(o["AB"]):
            return False, "shape: %s for resolution %s" % (o["AB"]["shape"], res)
        parts = [x for x in (o["A"], o["B"]) if x is not None]
        s = parts[0] if len(parts) == 1 else _sum(parts[0], parts[1])
        e = _close(o["AB"], s, tol)
        return (e is None), ("additivity: image(A u B) != image(A) + image(B): %s" % e if e else "")
    if rel == "permutation":
        e = _close(o["AB"], o["P"], tol)
        return (e is None), ("permutation: image depends on the order of the points: %s" % e if e else "")
    if rel == "zero_weight":
        if any(w != 0.0 for w in o["wz"]):
            return True, ""      # generator failed to produce zero weights (not a violation)
        e = _close(o["A"], o["AZ"], tol)
        return (e is None), ("zero-weight: points of weight 0 changed the image: %s" % e if e else "")
    if rel == "empty":
        for k in ("E1", "E2", "E3"):
            x = o[k]
            if x["shape"] != res:
                return False, "empty: %s has shape %s, resolution %s" % (k, x["shape"], res)
            if any(v != 0.0 for v in x["v"]):
                return False, "empty: %s is not all-zero" % k
        return True, ""
    if rel == "collection":
        e = _close(o["A"], o["L1"][0] if len(o["L1"]) == 1 else None, 0.0) or _close(o["A"], o["Alist"], 0.0)
        if e:
            return False, "collection: transform(D) vs transform([D])[0]: %s" % e
        if len(o["L3"]) != 3:
            return False, "collection: %d images for 3 diagrams" % len(o["L3"])
        for name, x in zip("ABC", o["L3"]):
            e = _close(o[name], x, 0.0)
            if e:
                return False, "collection: image of diagram %s inside the collection (element-wise, in order): %s" % (name, e)
        return True, ""
    if rel == "njobs":
        for sk in ("True", "False"):
            ref = o["J"]["None/" + sk]
            for nj in ("1", "2", "4"):
                got = o["J"]["%s/%s" % (nj, sk)]
                if len(got) != len(ref):
                    return False, "njobs: n_jobs=%s skew=%s returned %d images" % (nj, sk, len(got))
                for k, (x, y) in enumerate(zip(ref, got)):
                    e = _close(x, y, 0.0)
                    if e:
                        return False, "njobs: n_jobs=%s skew=%s image %d differs from serial: %s" % (nj, sk, k, e)
            for nj in ("1", "2"):
                e = _close(o["Jsingle"]["None/" + sk], o["Jsingle"]["%s/%s" % (nj, sk)], 0.0) or \
                    _close(o["Jsingle"]["None/" + sk], ref[0], 0.0)
                if e:
                    return False, "njobs: single diagram, n_jobs=%s skew=%s vs serial: %s" % (nj, sk, e)
        return True, ""
    if rel == "skew":
        if not o["unchanged"]:
            return False, "input-mutated: transform(skew=True) changed the caller's array"
        e = _close(o["S"], o["N"], tol)
        if e:
            return False, "skew: (b,d) with skew=True vs (b,d-b) with skew=False: %s" % e
        e = _close(o["S"], o["S2"], 0.0) or _close(o["S"], o["Scoll"][0], 0.0) or _close(o["S"], o["Scoll"][1], 0.0)
        return (e is None), ("skew: repeated call on the same array gives another image: %s" % e if e else "")
    if rel == "nonneg_total":
        pts = c["A"] + c["B"]
        ws = [c04._weight_ref(c["weight"], b, (d - b) if c["skew"] else d) for b, d in pts]
        if any(w < 0 for w in ws):
            return True, ""
        x = o["AB"]
        if not shape_ok(x):
            return False, "shape: %s for resolution %s" % (x["shape"], res)
        m = min(x["v"])
        if not (m >= -tol):
            return False, "nonneg: pixel %r < 0 with non-negative weights" % m
        tot, tw = math.fsum(x["v"]), math.fsum(ws)
        if not (tot <= tw + tol):
            return False, "total: pixel total %r exceeds total weight %r" % (tot, tw)
        return True, ""
    if rel == "styles":
        if len(o["coll"]) != 3:
            return False, "collection: %d images for 3 diagrams" % len(o["coll"])
        e = _close(o["alone"], o["coll"][0], 0.0)
        if e:
            return False, "collection: transform(D) vs transform([D, ..])[0]: %s" % e
        e = _close(o["alone"], o["again"], 0.0)
        if e:
            return False, "repeat: the same call on the same diagram, before and after other calls: %s" % e
        for nj, got in sorted(o["par"].items()):
            if len(got) != 3:
                return False, "njobs: n_jobs=%s returned %d images for 3 diagrams" % (nj, len(got))
            for k, (x, y) in enumerate(zip(o["coll"], got)):
                e = _close(x, y, 0.0)
                if e:
                    return False, "njobs: n_jobs=%s image %d differs from serial: %s" % (nj, k, e)
        e = _close(o["alone"], o["single_par"], 0.0)
        if e:
            return False, "njobs: single diagram through the workers branch vs serial: %s" % e
        if not shape_ok(o["union"]):
            return False, "shape: %s for resolution %s" % (o["union"]["shape"], res)
        for what, pa, pb in [("a collection", o["coll"][0], o["coll"][1])] + \
                [("workers (n_jobs=%s)" % nj, got[0], got[1]) for nj, got in sorted(o["par"].items())]:
            e = _close(o["union"], _sum(pa, pb), tol)
            if e:
                return False, "additivity: image(A u B) != image(A) + image(B) with the parts taken from %s: %s" % (what, e)
        return True, ""
    if rel == "many":
        n = len(c["dgms"])
        if len(o["L"]) != n:
            return False, "collection: %d images for %d diagrams" % (len(o["L"]), n)
        for k, x in enumerate(o["L"]):
            if x["shape"] != res:
                return False, "shape: image %d of the collection has shape %s, resolution %s" % (k, x["shape"], res)
        for k, x in sorted(o["one"].items(), key=lambda kv: int(kv[0])):
            e = _close(x, o["L"][int(k)], 0.0)
            if e:
                return False, "collection: diagram %s of %d alone vs inside the collection (element-wise, in order): %s" % (k, n, e)
        for nj, got in sorted(o["P"].items()):
            if len(got) != n:
                return False, "njobs: n_jobs=%s returned %d images for %d diagrams" % (nj, len(got), n)
            for k, (x, y) in enumerate(zip(o["L"], got)):
                e = _close(x, y, 0.0)
                if e:
                    return False, "njobs: n_jobs=%s image %d of %d differs from serial: %s" % (nj, k, n, e)
        return True, ""
    if rel == "fit_transform":
        ref = o["FT_BD"]
        if "FT_FRESH" in o:
            if o["W_FRESH"] != o["W_BD"]:
                return False, "reuse: a re-used imager fitted window %s, a new imager of the same configuration %s" % (o["W_BD"], o["W_FRESH"])
            for k, (x, y) in enumerate(zip(ref, o["FT_FRESH"])):
                e = _close(x, y, tol)
                if e:
                    return False, "reuse: fit_transform on a re-used imager vs on a new imager of the same configuration, diagram %d: %s" % (k, e)
        if any(x["shape"] != o["W_BD"][2] or 0 in x["shape"] for x in ref):
            return False, "fit-transform: image shapes %s for fitted resolution %s" % ([x["shape"] for x in ref], o["W_BD"][2])
        for name, w in (("W_BP", "fit_transform(BP, skew=False)"), ("W3", "fit(BD, skew=True)"), ("W4", "fit(BP, skew=False)")):
            if o[name] != o["W_BD"]:
                return False, "fit-transform: %s fitted window %s, fit_transform(BD, skew=True) fitted %s" % (w, o[name], o["W_BD"])
        for name, w in (("FT_BP", "fit_transform(BP, skew=False)"), ("F_T_BD", "fit(BD, skew=True) then transform(BD, skew=True)"),
                        ("F_T_BP", "fit(BP, skew=False) then transform(BP, skew=False)")):
            if len(o[name]) != len(ref):
                return False, "fit-transform: %s returned %d images for %d diagrams" % (w, len(o[name]), len(ref))
            for k, (x, y) in enumerate(zip(ref, o[name])):
                e = _close(x, y, tol)
                if e:
                    return False, "fit-transform: fit_transform(BD, skew=True) vs %s, diagram %d: %s" % (w, k, e)
        return True, ""
    return False, "unknown relation %r" % rel


def nontrivial(c, o):
    if history.is_hist(c):
        return history.nontrivial(c, o, nontrivial)
    if "error" in o:
        return False
    if c["rel"] == "empty":
        return True
    if c["rel"] == "many":
        return len(o["L"]) > c.get("block", 0) and any(max(abs(v) for v in x["v"]) > 1e-9 for x in o["L"])
    if c.get("block") and len(c["A"]) + (len(c["B"]) if c["rel"] != "collection" else 0) <= c["block"]:
        return False                      # a size class whose diagram does not exceed its block size
    key = {"additivity": "AB", "permutation": "AB", "zero_weight": "A", "collection": "A", "skew": "S",
           "nonneg_total": "AB", "styles": "alone"}.get(c["rel"])
    x = o["J"]["None/True"][0] if c["rel"] == "njobs" else (o["FT_BD"][0] if c["rel"] == "fit_transform" else o.get(key))
    if x is None or not max(abs(v) for v in x["v"]) > _floor(c):
        return False
    if c["rel"] == "permutation":
        return c["perm"] != sorted(c["perm"])
    if c["rel"] == "zero_weight":
        return all(w == 0.0 for w in o["wz"])
    return True


# ---- model run inside Coq: a few additivity instances -------------------------------------------
def _img_rows(x):
    nb, npx = x["shape"]
    return [x["v"][i * npx:(i + 1) * npx] for i in range(nb)]


def coq_jobs(cases, outs):
    return []


def coq_judge(cases, outs, results):
    verdicts = ["skip:relation between implementation runs (model laws are the theorems of C11.v)"] * len(cases)
    lemmas, idx = [], []
    for i, (c, o) in enumerate(zip(cases, outs)):
        if len(idx) >= MAX_CERT:
            break
        if history.is_hist(c) or c["rel"] != "additivity" or "error" in o or not c04.certifiable(c):
            continue
        if len(c["A"]) + len(c["B"]) > 3 or not c["A"] or not c["B"] or o["AB"]["shape"][0] * o["AB"]["shape"][1] > 6:
            continue
        R = core.coq_R
        if any(v != v or abs(v) == float("inf") for v in o["AB"]["v"]):
            verdicts[i] = "disagree:implementation image of the union contains nan/inf"
            continue
        ca = dict(c); ca["dgm"] = c["A"]
        cb = dict(c); cb["dgm"] = c["B"]
        img = core.coq_list([core.coq_list([R(v) for v in row]) for row in _img_rows(o["AB"])])
        st = "img_close %s (img_add (%s) (%s)) %s" % (R(Fraction(1, 10 ** 9)), c04.coq_call(ca, o["bp"], o["pp"]),
                                                     c04.coq_call(cb, o["bp"], o["pp"]), img)
        lemmas.append((st, "cbv [img_add]; image_case."))
        idx.append(i)
    if lemmas:
        ok, wall = core.prove_lemmas(PID, c04.HEADER, lemmas, chunk=1, timeout=COQ_TIMEOUT)
        for i, good in zip(idx, ok):
            verdicts[i] = "agree" if good else \
                "disagree:certificate |model image(A) + model image(B) - impl image(A u B)| <= 1e-9 not provable"
    return verdicts


def _without(c, key, lo, hi):
    """The case without points lo..hi-1 of list `key` (a permutation is re-labelled, order preserved)."""
    d = dict(c)
    d[key] = c[key][:lo] + c[key][hi:]
    if c["rel"] == "permutation":
        off = 0 if key == "A" else len(c["A"])
        gone = set(range(off + lo, off + hi))
        rank, r = {}, 0
        for j in range(len(c["A"]) + len(c["B"])):
            if j not in gone:
                rank[j] = r
                r += 1
        d["perm"] = [rank[j] for j in c["perm"] if j not in gone]
    return d


def shrink_candidates(c):
    if history.is_hist(c):
        yield from history.shrink(c)
        return
    keys = ("dgms",) if c["rel"] == "many" else ("A", "B", "C")
    for key in sorted(keys, key=lambda k: len(c.get(k) or [])):      # short lists first
        pts = c.get(key) or []
        if len(pts) > 24:
            # long lists: halves and quarters only (every candidate is a run of the implementation)
            for parts in (2, 4):
                step = len(pts) // parts
                for k in range(parts):
                    yield _without(c, key, k * step, (k + 1) * step)
        elif len(pts) > 1:
            for i in range(len(pts)):
                yield _without(c, key, i, i + 1)
    if c["weight"]["type"] != "persistence" and c["rel"] != "zero_weight":
        d = dict(c); d["weight"] = {"type": "persistence", "n": 1.0}; yield d
