"""C02 - Wasserstein distance is the true min-sum matching cost (and the Wasserstein half of C06).

Model: coq/Model/WassM.v (over R, linear_sum_assignment as a universally quantified oracle).
Execution: coq/Model/WassEncM.v - rational sqrt enclosures; the minimum over assignments is not
searched for inside Coq but enclosed through two CHECKED certificates computed here (an assignment
for the upper end, integer-exact dual potentials for the lower end, weak LP duality).  Soundness of
the enclosure for every optimal-assignment oracle is the theorem wass_enclosure_sound.

The spec predicate (independent of the model): brute force over all partial matchings with
40-digit decimal arithmetic for small sizes, scipy on a freshly built matrix cross-checked against
an exact rational solver for larger sizes.

For the integrator (C06): ``wass_cert_ok(S, T, dist, rows)`` is the certificate predicate of C06 in
pure Python, ``wass_cert_verdicts(cases, outs)`` evaluates the Coq checker Corr/WassCorr.cert_case
on the implementation's rows; ``impl_run`` already returns the rows.
"""
import math
from decimal import Decimal, getcontext
from fractions import Fraction

from .. import core, history

PID = "C02"
THEOREMS = [
    "rot_second_coord", "diag_point_neutral", "placeholder_neutral", "wasserstein_against_diagonal_points",
    "diagonal_point_is_neutral", "wasserstein_correct", "wasserstein_oracle_independent", "wasserstein_value", "wasserstein_infinite_deaths_ignored", "wasserstein_vs_empty", "weak_duality",
    "sqrt_enclosure_sound", "wass_enclosure_sound",
    "matching_flag_irrelevant", "wasserstein_matching_cert",      # shared with C06 (Wasserstein half)
]
RULE = ("seeded generator over classes {both empty, one side empty, repeated points (within and across "
        "diagrams), identical multisets in another order at offsets up to 1e5, diagonal points, infinite/nan deaths, Pythagorean offsets (all point-point costs rational), "
        "input dtype (integer-valued diagrams as uint8/uint16/int8/int16/int32/int64/float32/float64 arrays whose "
        "differences are negative or exceed the narrow range; spec evaluated on the values), "
        "mixed (optimal matching uses cross and diagonal pairings), dyadic grid, random doubles, scale 2^+-20, "
        "thin (short bars at offsets +-1e3..1e6 with persistence 3e-7..3e-4 of the coordinates; whole diagrams in units of "
        "1e-7..1e-12; two candidate partners whose costs differ by 1e-6..1e-4 relative), "
        "large (sizes just above 16/32/64/128 per side in quick, up to 260 in thorough; above 72 points in total the "
        "spec predicate alone judges)}; about 30% of the array cases are handed over in another memory layout / container "
        "(Fortran order, two-column view of a wider buffer, every-other-row view, negative row stride, read-only, tuple of tuples); "
        "sizes 0-6 per side (quick), up to 25 (thorough). "
        "Call histories (harness/history.py; 18 quick, 264 thorough; each in its own forked interpreter in which persim "
        "has made no call yet; equal-valued arguments of different steps are the same objects; every step is the "
        "call with matching=False, the call with matching=True and the first call repeated, and must satisfy the "
        "single-call predicate): fault (0-2 clean calls, one or two calls persim rejects - nan/-inf/+inf birth with finite "
        "death so that the solver raises on the filled cost matrix, or a malformed container; in half of them the "
        "other argument is a diagram object of the clean steps - then 2-4 clean calls on smaller / differently split "
        "sizes), sizes (sizes going down, the same M+N split differently, and up again), pairwise (all-pairs loop over "
        "3-4 diagram objects incl. d(x,x), optionally with a corrupt member whose pairs are rejected), slot (two caller "
        "buffers overwritten in place between calls). "
        "A single case is non-trivial when the call succeeds and either "
        "the optimal matching found independently pairs at least one point across and sends at least one point to "
        "the diagonal, or the case exercises an edge class (empty side, non-finite death, repeated or diagonal "
        "point, dtype, thin); a history is non-trivial when at least two of its clean steps are; distinct = distinct JSON input")
TRUSTED_BASE = [
    "Coq 8.16.1 kernel, vm_compute (no native_compute)",
    "stdlib axioms of the classical reals: ClassicalDedekindReals.sig_forall_dec, sig_not_dec, "
    "FunctionalExtensionality.functional_extensionality_dep, Classical_Prop.classic",
    "hand-written model Model/WassM.v of wasserstein.py lines 46-110; its executable enclosure Model/WassEncM.v",
    "Section hypothesis: scipy.optimize.linear_sum_assignment returns an optimal assignment "
    "(monitored on every real call: permutation + value equals the exact optimum of the same float matrix)",
    "harness: generator, float->exact-rational printer, certificate computation (wrong certificates give skip); "
    "call histories (harness/history.py) and their isolation by os.fork in impl_run; histories and cases with more "
    "than 72 points are judged by the Python spec predicate only (brute force / two independent solvers), not by the Coq model",
]
ASSUMPTIONS = [
    "numpy/scipy semantics of isfinite masking, cdist, dot, fill_diagonal, fancy indexing are as modelled",
    "binary64 rounding of the implementation is bounded by the tolerance 1e-9 * max(1-norm scale of the inputs), not proved",
    "inputs are (n,2) arrays / lists; extra columns are outside the property's quantifier",
    "the model is a function of one call's arguments: independence of a call from earlier calls in the same process "
    "(module state, caller's arrays modified in place, state left by a rejected call) is tested by the histories, not proved",
    "calls that persim rejects (non-finite birth, malformed container) are outside the property; nothing is asked of them "
    "except that later calls still satisfy it",
]
COQ_DEPS = ["Corr/WassCorr.vo"]
RTOL = Fraction(1, 10 ** 9)
PREC = 80            # bits after the binary point of every sqrt enclosure
BRUTE_MAX = 5        # brute force over all partial matchings up to this many finite points per side

NONFINITE = ("inf", "-inf", "nan")


# ------------------------------------------------------------------------------------ inputs
def _is_nonfinite(d):
    return isinstance(d, str)


def _f(x):
    return float(x)          # float("inf"), float("-inf"), float("nan") from the strings too


def finite_points(dgm):
    """The finite points of a diagram, as exact rationals."""
    return [(Fraction(float(b)), Fraction(float(d))) for b, d in dgm if not _is_nonfinite(d)]


def scale_of(c):
    m = Fraction(0)
    for dg in (c["S"], c["T"]):
        for b, d in finite_points(dg):
            m = max(m, abs(b), abs(d))
    return m


def tol_of(c):
    """absolute tolerance of a case: 1e-9 relative to the largest coordinate (and to 1 ulp-ish floor)."""
    return RTOL * scale_of(c)


# ------------------------------------------------------------------------------------ generator
PYTH = [(3, 4), (4, 3), (5, 12), (12, 5), (8, 15), (15, 8), (6, 8), (8, 6), (0, 1), (1, 0), (0, 2), (7, 24),
        (-3, 4), (3, -4), (-4, -3), (-5, 12), (0, 0)]


def _grid_pt(rng):
    b = rng.randint(-8, 24) / 4.0
    return [b, b + rng.randint(0, 24) / 4.0]


def _rand_pt(rng):
    b = rng.uniform(-5, 5)
    return [b, b + rng.choice([rng.uniform(0, 4), rng.uniform(0, 0.05), rng.uniform(0, 1)])]


def _dgm(rng, n, kind):
    return [(_grid_pt(rng) if kind == "grid" else _rand_pt(rng)) for _ in range(n)]


# integer-valued diagrams handed over in a given array dtype; the spec is evaluated on the exact VALUES.
# (lo, hi) = range the coordinates are drawn from: wide against the dtype, so that differences between
# points are negative (unsigned wrap-around) or exceed the narrow range (signed overflow).
DTYPES = {
    "uint8": (0, 255), "uint16": (0, 65535), "int8": (-128, 127), "int16": (-32768, 32767),
    "int32": (-2 ** 31, 2 ** 31 - 1), "int64": (-2 ** 40, 2 ** 40), "float32": (-2 ** 23, 2 ** 23),
    "float64": (-2 ** 40, 2 ** 40),
}


def _dtype_pt(rng, dt):
    lo, hi = DTYPES[dt]
    kind = rng.random()
    if kind < 0.45:      # long bar: birth near the bottom of the range, death near the top
        b = rng.randint(lo, lo + (hi - lo) // 8)
        d = rng.randint(hi - (hi - lo) // 8, hi)
    elif kind < 0.8:     # anywhere
        b = rng.randint(lo, hi)
        d = rng.randint(b, hi)
    else:                # short bar
        b = rng.randint(lo, hi)
        d = min(hi, b + rng.randint(0, max(1, (hi - lo) // 64)))
    return [float(b), float(d)]


def _dtype_case(rng, nmax):
    dt = rng.choice(sorted(DTYPES))
    dt2 = dt if rng.random() < 0.8 else rng.choice(sorted(DTYPES))
    m, n = rng.randint(1, max(1, nmax)), rng.randint(0, nmax)
    S = [_dtype_pt(rng, dt) for _ in range(m)]
    T = [_dtype_pt(rng, dt2) for _ in range(n)]
    if rng.random() < 0.3 and dt == dt2 and S:      # the same point on both sides: cost 0, differences of both signs
        T.insert(rng.randint(0, len(T)), list(rng.choice(S)))
    if rng.random() < 0.5:
        S, T, dt, dt2 = T, S, dt2, dt
    return {"cls": "dtype", "S": S, "T": T, "as_list": False, "dtype": [dt, dt2]}


def _case(rng, cls, nmax):
    if cls == "dtype":
        c = _dtype_case(rng, min(nmax, 6))
        if rng.random() < 0.25:
            c["layout"] = [rng.choice(LAYOUTS[:5]), rng.choice(LAYOUTS[:5] + (None,))]
        return c
    kind = rng.choice(["grid", "rand"])
    m, n = rng.randint(0, nmax), rng.randint(0, nmax)
    S, T = _dgm(rng, m, kind), _dgm(rng, n, kind)
    if cls == "both_empty":
        S, T = [], []
        if rng.random() < 0.5:
            S = [[rng.uniform(-1, 1), rng.choice(NONFINITE)] for _ in range(rng.randint(0, 2))]
    elif cls == "one_empty":
        if rng.random() < 0.5:
            S = []
            T = T or _dgm(rng, 2, kind)
        else:
            T = []
            S = S or _dgm(rng, 2, kind)
    elif cls == "repeated":
        S = S or _dgm(rng, 2, kind)
        for _ in range(rng.randint(1, 3)):
            p = list(rng.choice(S))
            (S if rng.random() < 0.4 else T).insert(rng.randint(0, 1), p)
        if rng.random() < 0.3:
            T = [list(p) for p in S]
            rng.shuffle(T)
    elif cls == "identical":
        # the same multiset in another order (value 0), at an offset that makes |x|^2 large against |x-y|^2
        off = rng.choice([0.0, 10.0, 1e3, 1e5])
        S = [[a + off, b + off] for a, b in (S or _dgm(rng, 2, "rand"))]
        T = [list(p) for p in S]
        rng.shuffle(T)
        if rng.random() < 0.5 and T:
            j = rng.randrange(len(T))
            T[j] = [T[j][0] + rng.uniform(-1e-3, 1e-3), T[j][1] + 1e-3 + rng.uniform(0, 1e-3)]
    elif cls == "diagonal":
        for _ in range(rng.randint(1, 3)):
            x = rng.randint(-8, 24) / 4.0 if kind == "grid" else rng.uniform(-5, 5)
            (S if rng.random() < 0.5 else T).append([x, x])
    elif cls == "infinite":
        for _ in range(rng.randint(1, 3)):
            dg = S if rng.random() < 0.5 else T
            dg.insert(rng.randint(0, len(dg)), [rng.uniform(-2, 2), rng.choice(NONFINITE)])
    elif cls == "pythagorean":
        # T-points are S-points moved by Pythagorean offsets: every point-point cost is rational
        S = [[float(rng.randint(-6, 6)), 0.0] for _ in range(max(1, m))]
        for p in S:
            p[1] = p[0] + float(rng.randint(0, 30))
        T = []
        for p in S:
            if rng.random() < 0.8:
                dx, dy = rng.choice(PYTH)
                q = [p[0] + dx, p[1] + dy]
                if q[1] >= q[0]:
                    T.append(q)
        rng.shuffle(T)
        k = rng.choice([1.0, 0.25, 0.5, 2.0])
        S = [[a * k, b * k] for a, b in S]
        T = [[a * k, b * k] for a, b in T]
    elif cls == "mixed":
        # long bars that pair up across, short bars near the diagonal that do not
        S, T = [], []
        for _ in range(rng.randint(1, max(1, nmax // 2))):
            b = rng.uniform(-3, 3) if kind == "rand" else rng.randint(-8, 8) / 4.0
            l = rng.uniform(3, 6) if kind == "rand" else rng.randint(12, 24) / 4.0
            S.append([b, b + l])
            e1, e2 = (rng.uniform(-.3, .3), rng.uniform(-.3, .3)) if kind == "rand" else (rng.randint(-1, 1) / 4.0, rng.randint(-1, 1) / 4.0)
            T.append([b + e1, b + l + e2])
        for _ in range(rng.randint(1, max(1, nmax // 2))):
            b = rng.uniform(-3, 3) if kind == "rand" else rng.randint(-8, 8) / 4.0
            l = rng.uniform(0, .4) if kind == "rand" else rng.randint(0, 2) / 4.0
            (S if rng.random() < 0.5 else T).append([b, b + l])
        rng.shuffle(S)
        rng.shuffle(T)
    elif cls == "scale":
        k = rng.choice([2.0 ** 20, 2.0 ** -20, 1e6, 1e-6, 2.0 ** 10])
        S = [[a * k, b * k] for a, b in S]
        T = [[a * k, b * k] for a, b in T]
    elif cls == "repaired":
        # same multiset of births and same multiset of deaths, paired differently
        k = max(2, m)
        bs = sorted(rng.randint(-8, 8) / 4.0 for _ in range(k))
        ds = [max(bs) + rng.randint(0, 16) / 4.0 for _ in range(k)]
        p1, p2 = ds[:], ds[:]
        rng.shuffle(p1)
        rng.shuffle(p2)
        S = [[b, d] for b, d in zip(bs, p1)]
        T = [[b, d] for b, d in zip(bs, p2)]
        rng.shuffle(T)
    elif cls == "straddle":
        # births below zero, deaths above, persistence large against the coordinates
        def sp():
            a = rng.choice([rng.uniform(2.5, 50), float(rng.randint(3, 40))])
            return [-a + rng.uniform(-.2, .2) * (kind == "rand"), a + rng.uniform(-.2, .2) * (kind == "rand")]
        S = [sp() for _ in range(max(1, m))]
        T = [sp() for _ in range(n)] if rng.random() < 0.6 else []
        if rng.random() < 0.5:
            S, T = T, S
    elif cls == "thin":
        var = rng.choice(["offset", "offset", "tiny", "neartie"])
        if var == "offset":
            # short bars far from the origin: persistence 3e-7..3e-4 of the coordinates (>= 300 x the tolerance),
            # partners shifted by a fraction of the persistence, plus unpaired short bars
            off = rng.choice([1e3, 1e4, 1e5, 1e6, 1024.0, 65536.0, -1e4, -1e5])
            S, T = [], []
            for _ in range(rng.randint(1, max(1, nmax // 2))):
                p = abs(off) * 10 ** rng.uniform(-6.5, -3.5)
                b = off + rng.uniform(-40, 40) * p
                S.append([b, b + p])
                if rng.random() < 0.8:
                    T.append([b + rng.uniform(-.3, .3) * p, b + p + rng.uniform(-.3, .3) * p])
            for _ in range(rng.randint(0, max(1, nmax // 2))):
                p = abs(off) * 10 ** rng.uniform(-6.5, -3.5)
                b = off + rng.uniform(-40, 40) * p
                (S if rng.random() < 0.5 else T).append([b, b + p])
            rng.shuffle(S)
            rng.shuffle(T)
        elif var == "tiny":
            # a whole diagram in tiny units
            k = rng.choice([1e-7, 1e-8, 1e-9, 1e-10, 2.0 ** -30, 2.0 ** -40, 1e-12])
            S = [[a * k, b * k] for a, b in (S or _dgm(rng, 2, kind))]
            T = [[a * k, b * k] for a, b in T]
        else:
            # two candidate partners whose costs differ by 1e-6..1e-4 relative, next to a cheap diagonal
            S, T = [], []
            for _ in range(rng.randint(1, max(1, nmax // 2))):
                b, l = rng.uniform(-3, 3), rng.uniform(2, 6)
                e = rng.uniform(.05, .5)
                r = 1 + rng.choice([-1, 1]) * 10 ** rng.uniform(-6, -4)
                S.append([b, b + l])
                T.append([b + e, b + l])
                T.append([b, b + l + e * r])
            rng.shuffle(T)
    elif cls == "malformed":
        # births above deaths: negative diagonal cost in code and spec alike
        for dg in (S, T):
            for p in dg:
                if rng.random() < 0.3:
                    p[0], p[1] = p[1], p[0]
    case = {"cls": cls, "S": S, "T": T, "as_list": rng.random() < 0.25}
    if all(not _is_nonfinite(d) and float(b).is_integer() and float(d).is_integer() and abs(b) < 2 ** 40 and abs(d) < 2 ** 40
           for dg in (S, T) for b, d in dg) and rng.random() < 0.5:
        case["as_int"] = True        # integer dtype arrays / lists of Python ints
    if not case["as_list"] and rng.random() < 0.3:
        # memory layout / container of the two arguments (same values)
        case["layout"] = [rng.choice(LAYOUTS), rng.choice(LAYOUTS + (None,))]
    return case


CLASSES = ["both_empty", "one_empty", "repeated", "identical", "diagonal", "infinite", "pythagorean", "mixed", "mixed",
           "scale", "plain", "plain", "malformed", "repaired", "straddle", "dtype", "dtype", "thin", "thin"]

# ---- call histories (harness/history.py): all steps of one history run in one interpreter, equal-valued
# arguments are the same objects, every step must satisfy the predicate of a single call
STEP_CLASSES = ["plain", "mixed", "mixed", "diagonal", "repeated", "one_empty", "infinite", "thin", "both_empty"]
FAULT_KINDS = ["nan_birth"] * 4 + ["neginf_birth"] * 2 + ["posinf_birth", "nan_both", "nan_both",      # rejected by the solver
               "one_column", "flat", "cube", "strings", "none"]                                        # rejected on entry


def _step(rng, nmax, cls=None, sizes=None):
    """A clean single-call case used as a step (float64 ndarrays, occasionally lists)."""
    c = _case(rng, cls or rng.choice(STEP_CLASSES), nmax)
    if sizes is not None:
        kind = rng.choice(["grid", "rand"])
        c = {"cls": "sized", "S": _dgm(rng, sizes[0], kind), "T": _dgm(rng, sizes[1], kind), "as_list": False}
    c.pop("layout", None)
    c.pop("as_int", None)
    c["as_list"] = rng.random() < 0.15
    c["again"] = True
    return c


def _fault_step(rng, m, n, clean=None):
    """A call persim is expected to reject AFTER it has started working (non-finite birth with a finite death:
    the solver raises on the cost matrix) or before (malformed container).  With ``clean`` (a diagram of
    another step) the other argument of the rejected call is that diagram - the same object, see _arg."""
    fk = rng.choice(FAULT_KINDS)
    S, T = _dgm(rng, max(1, m), "rand"), _dgm(rng, max(1, n), "rand")
    c = {"cls": "fault:" + fk, "fault": True, "S": S, "T": T, "as_list": False}
    side = rng.choice([0, 1])
    if clean is not None and fk != "nan_both":
        c["S" if side == 1 else "T"] = [list(p) for p in clean]
        S, T = c["S"], c["T"]
    dg = (S, T)[side]
    j = rng.randrange(len(dg))
    if fk == "nan_birth":
        dg[j][0] = "nan"
    elif fk == "neginf_birth":
        dg[j][0] = "-inf"
    elif fk == "posinf_birth":
        dg[j][0] = "inf"
    elif fk == "nan_both":
        S[rng.randrange(len(S))][0] = "nan"
        T[rng.randrange(len(T))][0] = "nan"
    else:
        c["shape"] = [fk if side == 0 else None, fk if side == 1 else None]
    return c


def _histories(rng, n, nmax=5):
    hs = []
    kinds = ["fault", "fault", "fault", "sizes", "pairwise", "slot"]
    for h in range(n):
        kind = kinds[h % len(kinds)]
        if kind == "fault":
            # clean calls, a rejected call on larger / smaller / differently split diagrams, clean calls again
            steps = [_step(rng, nmax) for _ in range(rng.randint(0, 2))]
            big = rng.random() < 0.7
            after = [_step(rng, rng.choice([2, 3, nmax])) for _ in range(rng.randint(2, 4))]
            # half of the rejected calls have one clean argument that later (and earlier) calls use as well
            shared = rng.choice([x for st in steps + after for x in (st["S"], st["T"])] + [None] * 4) if rng.random() < 0.5 else None
            steps.append(_fault_step(rng, rng.randint(3, 8) if big else rng.randint(1, 3),
                                     rng.randint(3, 8) if big else rng.randint(1, 3), clean=shared))
            if rng.random() < 0.3:
                steps.append(_fault_step(rng, rng.randint(1, 8), rng.randint(1, 8)))
            steps += after
        elif kind == "sizes":
            # the sizes (M,N) go down, change their split at the same M+N, and go up again
            a, b = rng.randint(3, nmax), rng.randint(2, nmax)
            seq = [(a, b), (max(0, a - 2), max(0, b - 1)), (b, a), (1, rng.randint(0, 2)), (a + b - min(a + b - 1, nmax), min(a + b - 1, nmax)),
                   (0, rng.randint(1, 3)), (a, b)]
            if rng.random() < 0.5:
                seq = [(y, x) for x, y in seq]
            steps = [_step(rng, nmax, sizes=sz) for sz in seq[:rng.randint(4, len(seq))]]
        elif kind == "pairwise":
            # a pairwise-distance loop over a small collection: the same objects in many calls, on both sides
            k = rng.randint(3, 4)
            coll = [_dgm(rng, rng.randint(0, nmax), rng.choice(["grid", "rand"])) for _ in range(k)]
            if rng.random() < 0.5:
                coll[rng.randrange(k)].append([rng.uniform(-2, 2), rng.choice(NONFINITE)])
            pairs = [(i, j) for i in range(k) for j in range(k)]
            rng.shuffle(pairs)
            steps = [{"cls": "pair", "S": coll[i], "T": coll[j], "as_list": False, "again": True} for i, j in pairs[:6]]
            if rng.random() < 0.5:
                # one corrupt member in the collection: its pairs are rejected, the loop carries on
                bad = _dgm(rng, rng.randint(2, nmax + 2), "rand")
                bad[rng.randrange(len(bad))][0] = rng.choice(["nan", "nan", "-inf"])
                for pos in sorted(rng.sample(range(1, len(steps)), min(2, len(steps) - 1)), reverse=True):
                    i = rng.randrange(k)
                    st = {"cls": "fault:pair", "fault": True, "S": bad, "T": coll[i], "as_list": False}
                    if rng.random() < 0.5:
                        st["S"], st["T"] = st["T"], st["S"]
                    steps.insert(pos, st)
        else:
            # the caller keeps two buffers and overwrites their contents between calls (same objects, new values)
            m, n2 = rng.randint(1, nmax), rng.randint(1, nmax)
            steps = []
            for t in range(rng.randint(3, 5)):
                kd = rng.choice(["grid", "rand"])
                c = {"cls": "slot", "S": _dgm(rng, m, kd), "T": _dgm(rng, n2, kd), "as_list": False, "again": True,
                     "slots": ["a", "b"]}
                if t and rng.random() < 0.4:
                    c["S"] = [list(p) for p in steps[-1]["S"]]      # only one of the two buffers changes
                steps.append(c)
        hs.append(history.make(kind, steps))
    return hs


MODEL_MAX = 72       # the Coq enclosure is evaluated up to this many finite points in total; above: spec predicate only


def _large_case(rng, m, n):
    """Sizes just above typical block sizes (16, 32, 64, 128, 256): about half of T are moved copies of
    S-points, the rest independent, so that the optimum mixes cross and diagonal pairings."""
    S = _dgm(rng, m, "rand")
    T = []
    for p in S[:min(m, n) // 2]:
        e = rng.choice([0.3, 0.02])
        T.append([p[0] + rng.uniform(-e, e), p[1] + abs(rng.uniform(-e, e))])
    T += _dgm(rng, n - len(T), "rand")
    rng.shuffle(T)
    if rng.random() < 0.5:
        S, T = T, S
    return {"cls": "large", "S": S, "T": T, "as_list": False}


def generate(rng, tier):
    cases = []
    if tier == "quick":
        cases.append(_large_case(rng, rng.choice([17, 18, 33, 34]), rng.choice([17, 19, 33, 35])))
        cases.append(_large_case(rng, rng.choice([65, 67, 129, 131]), rng.choice([40, 65, 66])))
        for i in range(266):
            cases.append(_case(rng, CLASSES[i % len(CLASSES)], rng.choice([2, 3, 4, 6, 6])))
        cases += _histories(rng, 18)
    else:
        for i in range(5200):
            cases.append(_case(rng, CLASSES[i % len(CLASSES)], rng.choice([2, 3, 4, 6, 6, 6, 8])))
        for i in range(240):
            cases.append(_case(rng, CLASSES[i % len(CLASSES)], rng.choice([12, 18, 25])))
        cases += _histories(rng, 240) + _histories(rng, 24, nmax=7)
        for _ in range(12):
            cases.append(_large_case(rng, rng.choice([17, 33, 34, 49]), rng.choice([17, 19, 33, 35])))
        for _ in range(10):
            cases.append(_large_case(rng, rng.choice([65, 67, 129, 131, 257, 260]), rng.choice([40, 65, 66, 129, 258])))
    return cases


def search_generate(rng, n):
    return ([_case(rng, CLASSES[i % len(CLASSES)], rng.choice([1, 2, 3, 4])) for i in range(n)]
            + _histories(rng, max(6, n // 10), nmax=4))


def corpus():
    cs = [
        # (the witnesses of the repaired sklearn-cancellation defect live in corpus/C02/*.json)
        {"S": [], "T": []},
        {"S": [[0.0, 1.0]], "T": []},
        {"S": [], "T": [[-3.0, -1.0], [2.0, 2.0]]},
        {"S": [[0.0, "inf"]], "T": [[0.0, 2.0]]},
        # optimum mixes: (0,4)-(0.25,4) across, (1,1.25) and (3,3.5) to the diagonal
        {"S": [[0.0, 4.0], [1.0, 1.25]], "T": [[3.0, 3.5], [0.25, 4.0]]},
        # diagonal cost decides: sqrt-2 vs 2:  two points at distance 1.45 > 2*(1/sqrt2)=1.414 but < 2*... (d-b)/2 would pair them
        {"S": [[0.0, 1.0]], "T": [[1.05, 2.05]]},
        {"S": [[0.0, 1.0]], "T": [[0.9, 1.9]]},
        {"S": [[0.0, 2.0], [0.0, 2.0], [5.0, 5.0]], "T": [[0.0, 2.0]]},
    ]
    for c in cs:
        c["as_list"] = False
    # narrow / unsigned input dtypes: differences wrap around unless the costs are computed in float64
    cs += [
        {"S": [[3.0, 200.0]], "T": [[100.0, 120.0]], "as_list": False, "dtype": ["uint8", "uint8"]},
        {"S": [[-100.0, 100.0]], "T": [[90.0, 110.0]], "as_list": False, "dtype": ["int8", "int8"]},
        {"S": [[-30000.0, 30000.0], [5.0, 7.0]], "T": [[-29990.0, 29000.0]], "as_list": False, "dtype": ["int16", "int16"]},
        {"S": [[1.0, 16777215.0]], "T": [[3.0, 16777213.0], [8000001.0, 8000003.0]], "as_list": False, "dtype": ["float32", "float32"]},
        {"S": [[10.0, 60000.0]], "T": [[200.0, 250.0]], "as_list": False, "dtype": ["uint16", "uint8"]},
    ]
    import json
    d = core.VERIF / "corpus" / PID
    if d.is_dir():
        for f in sorted(d.glob("*.json")):
            j = json.loads(f.read_text())
            cs.append({"S": j["S"], "T": j["T"], "as_list": bool(j.get("as_list", False))})
            if j.get("dtype"):
                cs[-1]["dtype"] = j["dtype"]
    return cs


# ------------------------------------------------------------------------------------ implementation
LAYOUTS = ("F", "view_cols", "view_rows", "readonly", "neg_stride", "tuple")


def _build_arg(c, dg, side):
    """The argument object handed to persim for one diagram of a (single-call) case."""
    import numpy as np

    def lay(a):
        # memory layouts of an (n,2) array with the same VALUES; only for non-empty ndarrays
        L = c.get("layout")
        if not L or not isinstance(a, np.ndarray) or a.ndim != 2 or a.shape[0] == 0:
            return a
        L = L[side] if isinstance(L, (list, tuple)) else L
        if L == "F":
            return np.asfortranarray(a)
        if L == "view_cols":       # the first two columns of a wider buffer: an (n,2) view with row stride 3
            w = np.full((a.shape[0], 3), 7.0 if a.dtype.kind == "f" else 7, dtype=a.dtype)
            w[:, :2] = a
            return w[:, :2]
        if L == "view_rows":       # every other row of a taller buffer
            w = np.full((2 * a.shape[0], 2), 5.0 if a.dtype.kind == "f" else 5, dtype=a.dtype)
            w[::2, :] = a
            return w[::2, :]
        if L == "neg_stride":
            return np.ascontiguousarray(a[::-1, :])[::-1, :]
        if L == "readonly":
            a = a.copy()
            a.setflags(write=False)
            return a
        return a

    if c.get("dtype") and all(not _is_nonfinite(d) for _, d in dg):
        dt = np.dtype(c["dtype"][side])
        vals = [[float(b), float(d)] for b, d in dg] if dt.kind == "f" else [[int(b), int(d)] for b, d in dg]
        a = np.array(vals, dtype=dt).reshape(-1, 2) if dg else np.array([], dtype=dt)
        if dg and [[float(x) for x in r] for r in a.tolist()] != [[float(b), float(d)] for b, d in dg]:
            raise RuntimeError("harness: values %r are not representable in %s" % (dg, dt))
        return lay(a)
    if c.get("as_int") and all(not _is_nonfinite(d) and float(b).is_integer() and float(d).is_integer()
                               for b, d in dg):
        vals = [[int(b), int(d)] for b, d in dg]
        return vals if c.get("as_list") else lay(np.array(vals, dtype=np.int64).reshape(-1, 2) if dg else np.array([], dtype=np.int64))
    if c.get("as_list"):
        return [[_f(b), _f(d)] for b, d in dg]
    if c.get("layout") == "tuple" or (isinstance(c.get("layout"), (list, tuple)) and c["layout"][side] == "tuple"):
        return tuple((_f(b), _f(d)) for b, d in dg)
    return lay(np.array([[_f(b), _f(d)] for b, d in dg], dtype=float).reshape(-1, 2)) if dg else np.array([])


def _fault_arg(c, dg, side):
    """Arguments of a call that persim is expected to reject (steps of a history flagged "fault"): the
    births are taken literally ("nan", "inf", "-inf" allowed), "shape" selects a malformed container."""
    import numpy as np
    sh = c.get("shape")
    sh = sh[side] if isinstance(sh, (list, tuple)) else sh
    a = np.array([[_f(b), _f(d)] for b, d in dg], dtype=float).reshape(-1, 2)
    if sh == "one_column":
        return a[:, :1]
    if sh == "flat":
        return a.ravel()
    if sh == "cube":
        return a.reshape(-1, 2, 1)
    if sh == "strings":
        return [["a", "b"] for _ in dg]
    if sh == "none":
        return None
    return a


def _arg(c, dg, side, memo):
    """Equal-valued arguments of different steps of one history are THE SAME object; a step that names a
    "slot" for a side re-uses that ndarray and overwrites its contents in place (the caller updating its
    own buffer between calls)."""
    import numpy as np
    if c.get("fault"):
        sh = c.get("shape")
        sh = sh[side] if isinstance(sh, (list, tuple)) else sh
        if sh or any(isinstance(b, str) for b, _ in dg):
            return _fault_arg(c, dg, side)
        # the well-formed argument of a rejected call: the same object as in the clean steps
    slot = (c.get("slots") or [None, None])[side]
    if slot is not None:
        new = _build_arg(c, dg, side)
        old = memo.get(("slot", slot))
        if (isinstance(old, np.ndarray) and isinstance(new, np.ndarray) and old.shape == new.shape
                and old.dtype == new.dtype and old.flags.writeable):
            old[...] = new
            return old
        memo[("slot", slot)] = new
        return new
    lay = c.get("layout")
    key = ["dgm", dg, (c.get("dtype") or [None, None])[side], bool(c.get("as_int")), bool(c.get("as_list")),
           (lay[side] if isinstance(lay, (list, tuple)) else lay)]
    return history.intern(memo, key, lambda: _build_arg(c, dg, side))


def impl_run(cases):
    import sys
    import warnings
    import numpy as np
    import persim
    from persim import wasserstein as wfun
    wmod = sys.modules["persim.wasserstein"]
    real_lsa = wmod.optimize.linear_sum_assignment
    calls = []

    class _Opt:      # persim.wasserstein sees this instead of scipy.optimize
        def __getattr__(self, name):
            return getattr(real_opt, name)

        @staticmethod
        def linear_sum_assignment(D, *a, **k):
            r = real_lsa(D, *a, **k)
            calls.append((np.array(D, dtype=float), np.array(r[0]), np.array(r[1])))
            return r
    real_opt = wmod.optimize
    wmod.optimize = _Opt()

    def impl_call(c, memo):
        """One case = the call with matching=False (value, warnings, solver monitor) and the call with
        matching=True, both on the same argument objects."""
        def call():
            o = {}
            del calls[:]
            A, B = _arg(c, c["S"], 0, memo), _arg(c, c["T"], 1, memo)
            if isinstance(A, np.ndarray) and isinstance(B, np.ndarray) and not c.get("fault"):
                before = (A.tobytes(), B.tobytes(), A.shape, B.shape)
            else:
                before = None
            with warnings.catch_warnings(record=True) as w:
                warnings.simplefilter("always")
                d0 = wfun(A, B)
                o["warn"] = [any("dgm1" in str(x.message) for x in w if "non-finite" in str(x.message)),
                             any("dgm2" in str(x.message) for x in w if "non-finite" in str(x.message))]
            o["dist"] = float(d0)
            o["oracle"] = _monitor(calls)
            with warnings.catch_warnings():
                warnings.simplefilter("ignore")
                d1, rows = wfun(A, B, matching=True)
            o["dist_m"] = float(d1)
            rows = np.asarray(rows, dtype=float).reshape(-1, 3)
            o["rows"] = [[float(r[0]), float(r[1]), float(r[2])] for r in rows]
            if c.get("again"):
                # the identical call once more, after the matching=True call, on the same objects
                with warnings.catch_warnings():
                    warnings.simplefilter("ignore")
                    o["dist_again"] = float(wfun(A, B))
            if before is not None and before != (A.tobytes(), B.tobytes(), A.shape, B.shape):
                # not a property failure by itself (the next step of the history shows the consequence);
                # recorded for the replay file only
                o["args_modified"] = True
            return o
        return core.guarded(call)

    outs = [None] * len(cases)
    try:
        # every history runs in its own forked copy of THIS interpreter as it is now (persim imported, no call
        # made yet), so that what a history reports depends on its own steps only and its replay file
        # reproduces it; the single-call cases then run one after the other in this process, as before
        for i, c in enumerate(cases):
            if history.is_hist(c):
                outs[i] = _isolated(lambda c=c: history.run(c, impl_call))
        for i, c in enumerate(cases):
            if not history.is_hist(c):
                outs[i] = impl_call(c, {})
    finally:
        wmod.optimize = real_opt
    return outs


def _isolated(fn):
    """fn() in a forked child; the JSON-able result comes back through a pipe."""
    import json
    import os
    import sys
    if not hasattr(os, "fork"):
        return fn()
    sys.stdout.flush()
    sys.stderr.flush()
    r, w = os.pipe()
    pid = os.fork()
    if pid == 0:
        code = 0
        try:
            os.close(r)
            try:
                data = json.dumps(fn())
            except BaseException as e:  # noqa
                data = json.dumps({"error": "harness-child", "msg": repr(e)[:300]})
            with os.fdopen(w, "w") as f:
                f.write(data)
        except BaseException:  # noqa
            code = 1
        finally:
            os._exit(code)
    os.close(w)
    with os.fdopen(r, "r") as f:
        data = f.read()
    _, status = os.waitpid(pid, 0)
    if not data:
        return {"error": "harness-child", "msg": "child process ended with status %r and no result" % (status,)}
    return json.loads(data)


def _monitor(calls):
    """The oracle assumption on the real call: an assignment whose value is the exact optimum of the same matrix."""
    if len(calls) == 0:
        return "ok-unmonitored"      # the solver is reached through another name: nothing to say
    if len(calls) != 1:
        return "calls=%d" % len(calls)
    D, mi, mj = calls[0]
    K = D.shape[0]
    if D.shape != (K, K) or sorted(mi.tolist()) != list(range(K)) or sorted(mj.tolist()) != list(range(K)):
        return "not-a-permutation"
    cells = [[(None if not math.isfinite(D[i, j]) else Fraction(float(D[i, j]))) for j in range(K)] for i in range(K)]
    if any(cells[i][j] is None for i, j in zip(mi.tolist(), mj.tolist())):
        return "uses-inf-cell"
    got = sum(cells[i][j] for i, j in zip(mi.tolist(), mj.tolist()))
    best, _, _, _ = exact_assignment(cells)
    mag = max([abs(x) for r in cells for x in r if x is not None] + [Fraction(0)])
    if got - best > Fraction(1, 10 ** 12) * mag:
        return "suboptimal by %g" % float(got - best)
    return "ok"


# ------------------------------------------------------------------------------------ exact solver
def exact_assignment(cells):
    """Min-sum assignment of a square matrix of Fractions (None = forbidden), by the Hungarian method
    in exact integer arithmetic.  Returns (value, sigma, u, v) with u_i + v_j <= c_ij on every allowed
    cell and value = sum u + sum v (Fractions)."""
    n = len(cells)
    if n == 0:
        return Fraction(0), [], [], []
    den = 1
    for r in cells:
        for x in r:
            if x is not None:
                den = den * x.denominator // math.gcd(den, x.denominator)
    a = [[(None if x is None else int(x * den)) for x in r] for r in cells]
    big = 1 + 2 * sum(abs(x) for r in a for x in r if x is not None)
    a = [[(big if x is None else x) for x in r] for r in a]
    INF = float("inf")
    u = [0] * (n + 1)
    v = [0] * (n + 1)
    p = [0] * (n + 1)
    way = [0] * (n + 1)
    for i in range(1, n + 1):
        p[0] = i
        j0 = 0
        minv = [INF] * (n + 1)
        used = [False] * (n + 1)
        while True:
            used[j0] = True
            i0 = p[j0]
            delta = INF
            j1 = 0
            row = a[i0 - 1]
            for j in range(1, n + 1):
                if not used[j]:
                    cur = row[j - 1] - u[i0] - v[j]
                    if cur < minv[j]:
                        minv[j] = cur
                        way[j] = j0
                    if minv[j] < delta:
                        delta = minv[j]
                        j1 = j
            for j in range(n + 1):
                if used[j]:
                    u[p[j]] += delta
                    v[j] -= delta
                else:
                    minv[j] -= delta
            j0 = j1
            if p[j0] == 0:
                break
        while True:
            j1 = way[j0]
            p[j0] = p[j1]
            j0 = j1
            if j0 == 0:
                break
    sigma = [0] * n
    for j in range(1, n + 1):
        sigma[p[j] - 1] = j - 1
    uu = [Fraction(u[i], den) for i in range(1, n + 1)]
    vv = [Fraction(v[j], den) for j in range(1, n + 1)]
    return sum(uu) + sum(vv), sigma, uu, vv


# ------------------------------------------------------------------------------------ the spec in Python
getcontext().prec = 50


def _dsqrt(q):
    return (Decimal(q.numerator) / Decimal(q.denominator)).sqrt() if q > 0 else Decimal(0)


def d_euclid(p, q):
    return _dsqrt((p[0] - q[0]) ** 2 + (p[1] - q[1]) ** 2)


def d_diag(p):
    t = p[1] - p[0]
    return (Decimal(t.numerator) / Decimal(t.denominator)) / Decimal(2).sqrt()


def brute_force(S, T):
    """min over ALL partial matchings of the summed cost; returns (value: Decimal, matching)."""
    M, N = len(S), len(T)
    ce = [[d_euclid(S[i], T[j]) for j in range(N)] for i in range(M)]
    ds = [d_diag(p) for p in S]
    dt = [d_diag(q) for q in T]
    best = [None, None]

    def rec(i, used, acc, m):
        if i == M:
            tot = acc + sum((dt[j] for j in range(N) if not used[j]), Decimal(0))
            if best[0] is None or tot < best[0]:
                best[0], best[1] = tot, list(m)
            return
        rec(i + 1, used, acc + ds[i], m)
        for j in range(N):
            if not used[j]:
                used[j] = True
                m.append((i, j))
                rec(i + 1, used, acc + ce[i][j], m)
                m.pop()
                used[j] = False
    rec(0, [False] * N, Decimal(0), [])
    return best[0], best[1]


def solver_value(S, T):
    """Larger sizes: scipy on a freshly built float matrix (math.hypot, (d-b)/sqrt 2), cross-checked
    against the exact solver on the same matrix; the matching is re-costed in 50-digit decimals."""
    import numpy as np
    from scipy.optimize import linear_sum_assignment
    M, N = len(S), len(T)
    K = M + N
    D = np.full((K, K), np.inf)
    for i in range(M):
        for j in range(N):
            D[i, j] = math.hypot(float(S[i][0] - T[j][0]), float(S[i][1] - T[j][1]))
        D[i, N + i] = float(S[i][1] - S[i][0]) / math.sqrt(2.0)
    for j in range(N):
        D[M + j, j] = float(T[j][1] - T[j][0]) / math.sqrt(2.0)
    D[M:, N:] = 0.0
    if K == 0:
        return Decimal(0), []
    ri, ci = linear_sum_assignment(D)
    cells = [[(None if not math.isfinite(D[i, j]) else Fraction(float(D[i, j]))) for j in range(K)] for i in range(K)]
    best, sig, _, _ = exact_assignment(cells)
    got = sum(cells[i][j] for i, j in zip(ri.tolist(), ci.tolist()))
    if abs(got - best) > Fraction(1, 10 ** 11) * (1 + abs(best)):
        raise RuntimeError("independent solvers disagree: %r vs %r" % (float(got), float(best)))
    m = [(i, j) for i, j in zip(ri.tolist(), ci.tolist()) if i < M and j < N]
    return matching_cost(S, T, m), m


def matching_cost(S, T, m):
    us = {i for i, _ in m}
    ut = {j for _, j in m}
    tot = sum((d_euclid(S[i], T[j]) for i, j in m), Decimal(0))
    tot += sum((d_diag(S[i]) for i in range(len(S)) if i not in us), Decimal(0))
    tot += sum((d_diag(T[j]) for j in range(len(T)) if j not in ut), Decimal(0))
    return tot


_spec_cache = {}


def spec_value(c):
    key = core.sha({"S": c["S"], "T": c["T"]})
    if key not in _spec_cache:
        S, T = finite_points(c["S"]), finite_points(c["T"])
        if len(S) <= BRUTE_MAX and len(T) <= BRUTE_MAX:
            _spec_cache[key] = brute_force(S, T)
        else:
            _spec_cache[key] = solver_value(S, T)
    return _spec_cache[key]


def _dec(fr):
    return Decimal(fr.numerator) / Decimal(fr.denominator)


def _show(x):
    return "%.20E" % x if x != 0 and abs(x) < Decimal("1e-4") else str(x)[:24]


def predicate(c, o):
    if history.is_hist(c):
        return history.predicate(c, o, predicate)
    if "error" in o:
        return False, "error: %s" % o
    d = o["dist"]
    if not (isinstance(d, float) and math.isfinite(d)):
        return False, "value: returned %r is not a finite number" % (d,)
    want, m = spec_value(c)
    tol = _dec(tol_of(c))
    if abs(Decimal(d) - want) > tol:
        return False, "value: returned %r, minimum over all partial matchings is %s (|diff| %.3g > tol %.3g)" % (
            d, _show(want), float(abs(Decimal(d) - want)), float(tol))
    if "dist_m" in o and abs(Decimal(o["dist_m"]) - Decimal(d)) > tol:
        return False, "flag: matching=True returns %r, matching=False %r" % (o["dist_m"], d)
    if "dist_again" in o:
        d2 = o["dist_again"]
        if not (isinstance(d2, float) and math.isfinite(d2)) or abs(Decimal(d2) - want) > tol:
            return False, "again: the same call repeated on the same objects returns %r, minimum over all partial matchings is %s" % (
                d2, _show(want))
    if "warn" in o:
        exp = [any(_is_nonfinite(x[1]) for x in c["S"]), any(_is_nonfinite(x[1]) for x in c["T"])]
        if list(o["warn"]) != exp:
            return False, "warning: non-finite-death warnings %s, expected %s" % (o["warn"], exp)
    if not o.get("oracle", "ok").startswith("ok"):
        # the assumption about scipy failed on a real call: the theorems do not speak about this run
        return False, "oracle: linear_sum_assignment monitor says %s" % o["oracle"]
    return True, ""


EDGE = ("both_empty", "one_empty", "repeated", "identical", "diagonal", "infinite", "dtype", "thin")


def nontrivial(c, o):
    if history.is_hist(c):
        return history.nontrivial(c, o, nontrivial)
    if "error" in o:
        return False
    if c.get("cls") in EDGE:
        return True
    S, T = finite_points(c["S"]), finite_points(c["T"])
    _, m = spec_value(c)
    cross = len(m)
    diag = (len(S) - cross) + (len(T) - cross)
    return cross >= 1 and diag >= 1


# ------------------------------------------------------------------------------------ C06 certificate predicate
def wass_cert_ok(S, T, dist, rows, tol=None):
    """Certificate predicate of C06 (Wasserstein half), pure Python.

    S, T: the input diagrams as lists of [b, d] with d a float or one of "inf"/"-inf"/"nan";
    dist: the reported distance; rows: the returned (k,3) matching.  An empty diagram (after the
    non-finite deaths are dropped) is represented by the one-point diagram [(0,0)], index 0.
    Checks: every index of each diagram occurs in exactly one row (column 0 for S, column 1 for T),
    the partner is an index of the other diagram or -1 (diagonal), no (-1,-1) row, each third entry
    is the Euclidean / (d-b)/sqrt 2 cost of that pairing, the third entries sum to ``dist``.
    Tolerance 1e-9 relative to the largest coordinate (absolute 1e-9 when ``tol`` is given)."""
    Sf, Tf = finite_points(S), finite_points(T)
    Sf = Sf or [(Fraction(0), Fraction(0))]
    Tf = Tf or [(Fraction(0), Fraction(0))]
    if tol is None:
        tol = RTOL * max([abs(x) for p in Sf + Tf for x in p] + [Fraction(0)])
    tol = _dec(Fraction(tol))
    M, N = len(Sf), len(Tf)
    seen_s, seen_t = [0] * M, [0] * N
    total = Decimal(0)
    for r in rows:
        if len(r) != 3:
            return False, "row-shape: %r" % (r,)
        i, j, cst = r
        if i != int(i) or j != int(j):
            return False, "index: non-integer index in row %r" % (r,)
        i, j = int(i), int(j)
        if not (-1 <= i < M) or not (-1 <= j < N):
            return False, "index: out of range in row %r (sizes %d, %d)" % (r, M, N)
        if i == -1 and j == -1:
            return False, "diag-diag: row (-1,-1) present"
        if i >= 0:
            seen_s[i] += 1
        if j >= 0:
            seen_t[j] += 1
        if i >= 0 and j >= 0:
            want = d_euclid(Sf[i], Tf[j])
        elif i >= 0:
            want = d_diag(Sf[i])
        else:
            want = d_diag(Tf[j])
        if not math.isfinite(cst) or abs(Decimal(cst) - want) > tol:
            return False, "cost: row %r, pairing costs %s" % (r, str(want)[:22])
        total += Decimal(cst)
    if any(k != 1 for k in seen_s):
        return False, "cover: indices of dgm1 occur %s times" % seen_s
    if any(k != 1 for k in seen_t):
        return False, "cover: indices of dgm2 occur %s times" % seen_t
    if not math.isfinite(dist) or abs(total - Decimal(dist)) > tol * max(1, len(rows)):
        return False, "sum: row costs sum to %s, reported distance %r" % (str(total)[:22], dist)
    return True, ""


# ------------------------------------------------------------------------------------ the model, run inside Coq
HEADER = """From Coq Require Import QArith ZArith List Bool.
From Persim Require Import Model.WassM Model.WassEncM Corr.WassCorr.
Import ListNotations.
Open Scope Q_scope.
"""


def sqrt_bounds(q, prec=PREC):
    """Python twin of WassEncM.sqrt_bounds (same integers, so the exact duals pass the Coq check)."""
    q = Fraction(q)
    n, d = q.numerator, q.denominator
    if n <= 0:
        return Fraction(0), Fraction(0)
    e = 2 ** prec
    X = n * d * e * e
    s = math.isqrt(X)
    return Fraction(s, d * e), Fraction(s if s * s == X else s + 1, d * e)


def _euclid_iv(a, b):
    return sqrt_bounds((a[0] - b[0]) ** 2 + (a[1] - b[1]) ** 2)


def _diag_iv(a):
    t = a[1] - a[0]
    lo, hi = sqrt_bounds(t * t / 2)
    return (lo, hi) if t >= 0 else (-hi, -lo)


def certificates(c):
    """(sigma, u, v) for the lower-end matrix of the enclosure: an optimal assignment and exact duals."""
    S = finite_points(c["S"]) or [(Fraction(0), Fraction(0))]
    T = finite_points(c["T"]) or [(Fraction(0), Fraction(0))]
    M, N = len(S), len(T)
    K = M + N
    cells = [[None] * K for _ in range(K)]
    for i in range(M):
        for j in range(N):
            cells[i][j] = _euclid_iv(S[i], T[j])[0]
        cells[i][N + i] = _diag_iv(S[i])[0]
    for j in range(N):
        cells[M + j][j] = _diag_iv(T[j])[0]
        for i in range(M):
            cells[M + j][N + i] = Fraction(0)
    _, sigma, u, v = exact_assignment(cells)
    return sigma, u, v


def _coq_dgm(dg):
    return core.coq_list(["(%s, %s)" % (core.coq_Q(Fraction(float(b))),
                                       "None" if _is_nonfinite(d) else "Some " + core.coq_Q(Fraction(float(d))))
                          for b, d in dg]) if dg else "(@nil (xpt Q))"


def _coq_nats(l):
    return core.coq_list(["%d%%nat" % x for x in l]) if l else "(@nil nat)"


def _coq_qs(l):
    return core.coq_list([core.coq_Q(x) for x in l]) if l else "(@nil Q)"


def check_term(c, o):
    if "error" in o or not math.isfinite(o.get("dist", float("nan"))):
        return None
    sigma, u, v = certificates(c)
    w = o.get("warn")
    if w is None:        # warnings not observed: compare the value only
        w = [any(_is_nonfinite(x[1]) for x in c["S"]), any(_is_nonfinite(x[1]) for x in c["T"])]
    return "check_full %d%%positive %s %s %s %s %s %s %s %s %s" % (
        PREC, _coq_dgm(c["S"]), _coq_dgm(c["T"]), _coq_nats(sigma), _coq_qs(u), _coq_qs(v),
        core.coq_Q(Fraction(o["dist"])), core.coq_Q(tol_of(c)),
        "true" if w[0] else "false", "true" if w[1] else "false")


def cert_term(c, o):
    if "error" in o or "rows" not in o or not math.isfinite(o.get("dist_m", float("nan"))):
        return None
    rows = []
    for r in o["rows"]:
        if not all(math.isfinite(x) for x in r) or r[0] != int(r[0]) or r[1] != int(r[1]):
            return None
        rows.append("(%s, %s, %s)" % (core.coq_Z(int(r[0])), core.coq_Z(int(r[1])), core.coq_Q(Fraction(r[2]))))
    rl = core.coq_list(rows) if rows else "(@nil qrow)"
    tol = tol_of(c) * max(1, len(rows))
    return "cert_case %d%%positive %s %s %s %s %s" % (
        PREC, _coq_dgm(c["S"]), _coq_dgm(c["T"]), core.coq_Q(Fraction(o["dist_m"])), rl, core.coq_Q(tol))


def coq_jobs(cases, outs):
    return []       # compiled by coq_judge through core.eval_cases


def coq_judge(cases, outs, results):
    verdicts = ["disagree:not-expressible (exception or non-finite value: %s)" % str(o)[:120] for o in outs]
    terms, idx = [], []
    for i, (c, o) in enumerate(zip(cases, outs)):
        if history.is_hist(c):
            # every step is judged by the spec predicate; the model is a function of one call's arguments
            verdicts[i] = "skip:history (every step is judged by the spec predicate)"
            continue
        if len(c["S"]) + len(c["T"]) > MODEL_MAX:
            verdicts[i] = "skip:size (more than %d points: spec predicate only)" % MODEL_MAX
            continue
        t = check_term(c, o)
        if t is not None:
            terms.append(t)
            idx.append(i)
    toks, _ = core.eval_cases(PID, HEADER, terms, chunk=max(8, (len(terms) + core.NPROC - 1) // core.NPROC), tag="enc")
    for i, t in zip(idx, toks):
        if t == "Agree":
            verdicts[i] = "agree"
        elif t == "Disagree":
            verdicts[i] = "disagree:value %r outside the certified enclosure of the model (tol %.3g)" % (
                outs[i]["dist"], float(tol_of(cases[i])))
        elif t == "WarnMismatch":
            verdicts[i] = "disagree:non-finite-death warnings %s differ from the model's" % (outs[i].get("warn"),)
        elif t == "SkipCert":
            verdicts[i] = "skip:certificate rejected by the Coq checker"
        elif t == "SkipGap":
            verdicts[i] = "skip:enclosure wider than the tolerance"
        else:
            verdicts[i] = "skip:coq evaluation failed (%s)" % t
    return verdicts


def wass_cert_verdicts(cases, outs, pid="C06"):
    """For c06.py: per case "agree" / "disagree:..." / "skip:..." from Corr/WassCorr.cert_case evaluated
    on the implementation's rows (never compared with the model's own matching)."""
    verdicts = ["disagree:rows not expressible (%s)" % str(o)[:120] for o in outs]
    terms, idx = [], []
    for i, (c, o) in enumerate(zip(cases, outs)):
        t = cert_term(c, o)
        if t is not None:
            terms.append(t)
            idx.append(i)
    toks, _ = core.eval_cases(pid, HEADER, terms, chunk=max(8, (len(terms) + core.NPROC - 1) // core.NPROC), tag="wcert")
    for i, t in zip(idx, toks):
        verdicts[i] = "agree" if t == "true" else ("disagree:rows are not a certificate for the distance" if t == "false"
                                                   else "skip:coq evaluation failed (%s)" % t)
    return verdicts


# ------------------------------------------------------------------------------------ shrinking
def shrink_candidates(c):
    if history.is_hist(c):
        yield from history.shrink(c)
        if len(c["seq"]) == 1 and not c["seq"][0].get("fault"):
            yield c["seq"][0]          # one step left: not a history effect, report the single call
        return
    for key in ("S", "T"):
        n = len(c[key])
        if n > 8:          # large diagrams: halves and quarters first
            for lo, hi in ((0, n // 2), (n // 2, n), (0, n // 4), (n - n // 4, n)):
                d = dict(c)
                d[key] = c[key][:lo] + c[key][hi:]
                yield d
    for key in ("S", "T"):
        for i in range(len(c[key])):
            d = dict(c)
            d[key] = c[key][:i] + c[key][i + 1:]
            yield d
    for key in ("as_list", "as_int"):
        if c.get(key):
            d = dict(c)
            d[key] = False
            yield d
    if c.get("layout"):
        d = dict(c)
        d.pop("layout")
        yield d
    if c.get("dtype"):
        for side in (0, 1):
            if c["dtype"][side] != "float64":
                d = dict(c)
                d["dtype"] = list(c["dtype"])
                d["dtype"][side] = "float64"
                yield d
        return          # coordinates stay as they are: they must remain representable in the dtype
    for digits in (0, 1, 2, 4):
        d = dict(c)
        d["S"] = [[round(b, digits), (x if _is_nonfinite(x) else round(x, digits))] for b, x in c["S"]]
        d["T"] = [[round(b, digits), (x if _is_nonfinite(x) else round(x, digits))] for b, x in c["T"]]
        if d["S"] != c["S"] or d["T"] != c["T"]:
            yield d
