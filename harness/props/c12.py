"""C12 - imager geometry stays self-consistent under any configuration history.

Model: coq/Model/ImagerM.v (one text, instances Q and binary64).  Tie: every generated history is
run on persim.PersistenceImager and on the PrimFloat instance inside Coq (Corr/ImagerCorr.v,
vm_compute); all public attributes, both mesh arrays, transform's shape and the pixel in which a
narrow kernel puts a point mass are compared bit for bit, floats crossing as hex literals.
Independent predicate: the invariant of the property evaluated with exact Fractions of the
implementation's reported floats within a few-ulp tolerance."""
import math
from fractions import Fraction

from .. import core, history

PID = "C12"
THEOREMS = [
    "imager_ctor_inv", "imager_setter_inv", "imager_history_inv", "imager_history_inv_from_ctor",
    "imager_ctor_legacy_inv_iff", "imager_ctor_legacy_refuted", "imager_legacy_setters_exact",
    "imager_setter_float_refuted", "imager_pixels_square", "imager_locate_pixel",
    "imager_mesh_feeds_transform", "fit_covers_points_then_mass", "point_mass_lands_in_located_pixel",
]
RULE = ("seeded histories: constructor (ranges/pixel from {exact multiples, non-multiples, inexact quotients "
        "0.3/0.1 0.7/0.1 1/3, k*ps for random doubles ps, random doubles, int arguments, large offsets}) followed by "
        "3-10 operations (near-whole-quotient class: extent/pixel_size = k*(1 +- 1e-4..1e-14), k up to 300, in constructor, setters, "
        "pixel-size changes and fit data) from {birth_range=, pers_range=, pixel_size=, fit(one diagram | list, skew on/off)}; after "
        "every step all attributes, meshes, transform shape and a narrow-kernel landing pixel are recorded; "
        "shared-argument histories (cls shared): fits draw their diagrams from a pool of 1-3 diagrams interned by content, so the SAME "
        "array objects (layouts: C, Fortran order, strided view of a wider table, read-only, nested lists) are repeated inside one "
        "fit list (bootstrap resample), fitted again after pixel-size / range assignments, with skew on and off, and handed to "
        "transform right after the fit (images must have the reported resolution and, through a narrow kernel, put each fitted point's "
        "mass in the pixel the reported geometry assigns to it); composite cases (hist:imagers): 2-3 imagers with different pixel "
        "sizes configured and fitted one after the other in one process on the same array objects; fault histories (+werr): "
        "operations run under warnings.simplefilter('error'), a Warning raised half-way is caught and the imager is used on - "
        "nothing is asked of the interrupted step, every later successful operation must restore the full invariant; everything "
        "persim returns from transform is overwritten after reading (history.scribble); the predicate only ever reads the "
        "case's own JSON data, never the arrays persim saw; a case "
        "is non-trivial when it has >= 3 operations and at least one requested extent is not an exact multiple of "
        "the pixel size in exact arithmetic (a composite case: at least two such imagers); distinct = distinct JSON input")
TRUSTED_BASE = [
    "Coq 8.16.1 kernel, vm_compute (no native_compute)",
    "PrimFloat primitives (add sub mul div ltb leb eqb of_uint63, Prim2SF) and their stdlib specification axioms",
    "hand-written model Model/ImagerM.v of images.py constructor / setters / _create_mesh / fit, tied twice: by the "
    "bit-exact correspondence and by harness/src2coq.py (imager_regen), which re-translates _num_pixels, __init__, the "
    "three setters, _create_mesh and fit's updates from the current source on every run; trusted there: the translator's "
    "reading of the Python subset (attribute assignments, tuples, + - * /, `/ 2` as halving, int(np.ceil(.)), "
    "np.linspace(lo, hi, n, endpoint=False), calls of self methods / property setters inlined)",
    "model of numpy.linspace(lo, hi, n, endpoint=False) as i*((hi-lo)/n)+lo, np.ceil/int via Prim2SF",
    "harness: generator, float->hex printer, verdict parser, Fraction predicate; interning of argument objects and composite "
    "cases (harness/history.py); composite cases are tied to the model imager by imager; the images of the fitted diagrams "
    "and interrupted (warning-as-error) steps are judged by the predicate only (the model has no exceptions: an interrupted "
    "step shows as a disagreement); shrink candidates are pre-filtered in one interpreter, core re-confirms each",
]
ASSUMPTIONS = [
    "the universal theorems are over exact rational arithmetic; on binary64 the repaired code is tied bit for bit "
    "to the float instance and the invariant is TESTED within a %d-ulp tolerance (of the largest magnitude involved), not proved" % 4,
    "numpy semantics of linspace / ceil / min / max are as modelled; resolutions below 2^53",
    "ranges with hi < lo and non-positive pixel sizes are outside the property's quantifier",
    "after an operation interrupted by a warning turned into an error, 'the ranges covered before' / 'the untouched axis stays' "
    "are not checked for the next operation (undefined state); self-consistency and the assigned axis are",
]
COQ_DEPS = ["Corr/ImagerCorr.vo"]


EXTRA_OBLIGATIONS_ASYNC = True    # compiled while the correspondence runs


def extra_obligations(tier):
    """Second tie (DESIGN 12.7): the geometry code of PersistenceImager is re-translated from the current
    source into Gallina over the abstract numeric record and must be convertible with Model/ImagerM.v
    (8 regenerated obligations, each `forall N state args, src_f = model_f` by reflexivity)."""
    from .. import src2coq
    return src2coq.check_regen(PID, "imager", src2coq.imager_regen, core.REPO)
ULPS = 4
EPS = Fraction(1, 2 ** 52)
MAXPIX = 60          # keep meshes small: requested extent / pixel size stays below this


# ------------------------------------------------------------------------------------ generator
def _pixel_pool(rng):
    return rng.choice([
        rng.choice([0.25, 0.5, 0.75, 1.0, 2.0, 0.125]),
        rng.choice([0.1, 0.2, 0.3, 0.7, 1.0 / 3.0, 0.05, 0.6]),
        rng.uniform(0.05, 2.0),
        rng.uniform(0.05, 2.0),
    ])


def _range_for(rng, ps, kind=None):
    """A range [lo, hi] of positive extent, extent / ps < MAXPIX."""
    kind = kind or rng.choice(["multiple", "nonmultiple", "inexact", "kps", "random", "offset"])
    lo = rng.choice([0.0, 0.0, -1.0, 0.5, rng.uniform(-3, 3), 0.1])
    k = rng.randint(1, 12)
    if kind == "multiple":
        ext = k * ps
        lo = rng.choice([0.0, -1.0, 0.5, 2.0])
    elif kind == "nonmultiple":
        ext = (k - 1 + rng.choice([0.5, 0.25, rng.uniform(0.01, 0.99)])) * ps
    elif kind == "inexact":
        ext = rng.choice([0.3, 0.7, 1.0, 1.0 / 3.0, 0.9, 2.1, 0.6])
        lo = rng.choice([0.0, 0.0, 0.1, -0.3])
    elif kind == "kps":
        ext = k * ps
        lo = 0.0
    elif kind == "offset":
        ext = rng.uniform(0.2, 4.0)
        lo = rng.choice([1000.0, -512.0, 1e5])
    elif kind == "near":
        # extent / pixel size slightly above or below a whole number (relative 1e-4 .. 1e-12)
        k = rng.choice([rng.randint(1, 12), rng.randint(1, 40), rng.randint(40, 300)])
        ext = k * ps * _near_one(rng)
        lo = rng.choice([0.0, 0.0, -1.0, 0.5, 0.1, rng.uniform(-3, 3)])
        return [lo, lo + ext]
    else:
        ext = rng.uniform(0.05, 6.0)
    hi = lo + ext
    if not (hi > lo) or (hi - lo) / ps >= MAXPIX:
        hi = lo + ps * rng.randint(1, 8)
    return [lo, hi]


def _near_one(rng):
    return 1.0 + rng.choice([-1.0, 1.0]) * 10.0 ** (-rng.uniform(4, 14))


def _near_dgms(rng, ps):
    """Fit data whose bounding box has near-whole quotients by the pixel size on both axes."""
    b = _range_for(rng, ps, "near")
    ext_p = _range_for(rng, ps, "near")
    plo = rng.choice([0.25, 0.5, 1.0])
    phi = plo + (ext_p[1] - ext_p[0])
    pts = [[b[0], b[0] + plo], [b[1], b[1] + phi]]
    for _ in range(rng.randint(0, 3)):
        x = rng.uniform(b[0], b[1]); y = rng.uniform(plo, phi)
        pts.append([x, x + y])
    rng.shuffle(pts)
    cut = rng.randint(1, len(pts))
    return [d for d in (pts[:cut], pts[cut:]) if d]


def _dgms(rng, ps):
    nd = rng.randint(1, 3)
    out = []
    span = ps * rng.uniform(1.5, 20)
    b0 = rng.choice([0.0, -1.0, 0.3, rng.uniform(-2, 2)])
    for _ in range(nd):
        n = rng.randint(1, 5)
        d = []
        for _ in range(n):
            b = b0 + rng.choice([rng.uniform(0, span), ps * rng.randint(0, 8), 0.1 * rng.randint(0, 9)])
            p = rng.choice([rng.uniform(0.01, span), ps * rng.randint(1, 8), 0.1 * rng.randint(1, 9)])
            d.append([b, b + p])
        out.append(d)
    # make sure the data spans a positive extent in both coordinates
    pts = [q for d in out for q in d]
    if len({q[0] for q in pts}) < 2 or len({q[1] - q[0] for q in pts}) < 2 or len({q[1] for q in pts}) < 2:
        out[0].append([b0 + span * 1.25, b0 + span * 1.25 + span * 0.75])
        out[0].append([b0 - ps * 0.5, b0 - ps * 0.5 + ps * 0.3])
    return out


def _history(rng, tier):
    cls = rng.choice(["mixed", "mixed", "mixed", "setters", "fits", "kps", "ints", "inexact", "near", "near"])
    if cls == "ints":
        ps = float(rng.choice([1, 2, 3]))
        br = [float(rng.randint(-2, 1)), float(rng.randint(2, 9))]
        pr = [float(rng.randint(-2, 1)), float(rng.randint(2, 9))]
        ctor = {"br": br, "pr": pr, "ps": ps, "ints": True}
    else:
        ps = _pixel_pool(rng)
        if cls == "inexact":
            ps = rng.choice([0.1, 0.3, 0.7, 1.0 / 3.0])
        if cls == "near":
            ps = rng.choice([0.1, 0.25, 1.0 / 3.0, rng.uniform(0.05, 2.0)])
        kind = {"kps": "kps", "inexact": "inexact", "near": "near"}.get(cls)
        ctor = {"br": _range_for(rng, ps, kind), "pr": _range_for(rng, ps, kind), "ps": ps, "ints": False}
        if rng.random() < 0.15 and cls != "near":
            ctor["default"] = True           # PersistenceImager(pixel_size=ps): default unit ranges
            ctor["br"], ctor["pr"] = [0.0, 1.0], [0.0, 1.0]
            if 1.0 / ps >= MAXPIX:
                ctor["ps"] = ps = 0.1
    nops = rng.randint(3, 10)
    ops = []
    ext = [ctor["br"][1] - ctor["br"][0] + ps, ctor["pr"][1] - ctor["pr"][0] + ps]   # rough covered extents
    for _ in range(nops):
        kinds = {"setters": ["birth", "pers", "pixel"], "fits": ["fit", "fit", "pixel"]}.get(
            cls, ["birth", "pers", "pixel", "fit"])
        k = rng.choice(kinds)
        kind = {"kps": "kps", "inexact": "inexact", "near": "near"}.get(cls)
        if cls == "near" and len(ops) >= 5:
            break                                     # these histories carry long meshes
        if k == "birth":
            r = _range_for(rng, ps, kind)
            ops.append({"op": "birth", "r": r}); ext[0] = r[1] - r[0] + ps
        elif k == "pers":
            r = _range_for(rng, ps, kind)
            ops.append({"op": "pers", "r": r}); ext[1] = r[1] - r[0] + ps
        elif k == "pixel" and cls == "near":
            # new pixel size for which the covered extents have near-whole quotients
            cov = max(ext) - ps
            q = cov / (rng.randint(2, 60) * _near_one(rng))
            ops.append({"op": "pixel", "ps": q}); ps = q
            ext = [ext[0] + q, ext[1] + q]
        elif k == "pixel":
            for _ in range(20):
                q = _pixel_pool(rng)
                if max(ext) / q < MAXPIX:
                    break
            else:
                q = max(ext) / 10.0
            ops.append({"op": "pixel", "ps": q}); ps = q
            ext = [ext[0] + q, ext[1] + q]
        else:
            d = _near_dgms(rng, ps) if cls == "near" else _dgms(rng, ps)
            skew = True if cls == "near" else rng.random() < 0.7
            single = len(d) == 1 and rng.random() < 0.6
            ops.append({"op": "fit", "dgms": d, "skew": skew, "single": single})
            pts = [q for dg in d for q in dg]
            ext[0] = max(q[0] for q in pts) - min(q[0] for q in pts) + ps
            ys = [(q[1] - q[0]) if skew else q[1] for q in pts]
            ext[1] = max(ys) - min(ys) + ps
    uv = [[rng.uniform(0.02, 0.98), rng.uniform(0.02, 0.98)] for _ in range(len(ops) + 1)]
    return {"cls": cls, "ctor": ctor, "ops": ops, "uv": uv}


def _spans(pts):
    """The points span a positive extent in birth, in persistence and in death (so both skew settings are inside
    the property's quantifier)."""
    return (len({q[0] for q in pts}) >= 2 and len({q[1] for q in pts}) >= 2
            and len({Fraction(q[1]) - Fraction(q[0]) for q in pts}) >= 2)


def _pool(rng, ps):
    """2-3 diagrams, EACH spanning a positive extent on its own, so that any selection of them can be fitted."""
    if rng.random() < 0.2:
        pool = [[q for d in _near_dgms(rng, ps) for q in d]]          # near-whole quotients on both axes
        nd = rng.randint(0, 1)
    else:
        pool, nd = [], rng.randint(2, 3)
    span = ps * rng.uniform(1.5, 20)
    b0 = rng.choice([0.0, -1.0, 0.3, rng.uniform(-2, 2), 1000.0])
    for _ in range(nd):
        d = []
        for _ in range(rng.randint(2, 6)):
            b = b0 + rng.choice([rng.uniform(0, span), ps * rng.randint(0, 8), 0.1 * rng.randint(0, 9)])
            p = rng.choice([rng.uniform(0.01, span), ps * rng.randint(1, 8), 0.1 * rng.randint(1, 9)])
            d.append([b, b + p])
        pool.append(d)
    for d in pool:
        if not _spans(d):
            d.append([b0 + span * 1.25, b0 + span * 1.25 + span * 0.75])
            d.append([b0 - ps * 0.5, b0 - ps * 0.5 + ps * 0.3])
    return pool


LAYOUTS = ["C", "C", "C", "F", "view", "ro", "list"]


def _shared_history(rng, pool=None, layout=None, ps=None):
    """One imager whose fits (and the transforms that follow them) receive THE SAME array objects again and again:
    a diagram repeated inside the list of one fit (bootstrap resample), the same diagrams fitted again after the
    configuration changed, the array just fitted handed to transform.  `share` makes impl_call intern the arrays
    by content; the predicate only ever looks at the JSON (pristine) data."""
    ps = ps or _pixel_pool(rng)
    pool = pool or _pool(rng, ps)
    layout = layout or rng.choice(LAYOUTS)
    ctor = {"br": _range_for(rng, ps), "pr": _range_for(rng, ps), "ps": ps, "ints": False}
    allp = [q for d in pool for q in d]
    pool_ext = max(max(q[0] for q in allp) - min(q[0] for q in allp),
                   max(q[1] for q in allp) - min(q[1] for q in allp),
                   max(q[1] - q[0] for q in allp) - min(q[1] - q[0] for q in allp))
    if pool_ext / ps >= MAXPIX:
        ctor["ps"] = ps = pool_ext / rng.uniform(5, 40)
        ctor["br"], ctor["pr"] = _range_for(rng, ps), _range_for(rng, ps)
    ext = [ctor["br"][1] - ctor["br"][0] + ps, ctor["pr"][1] - ctor["pr"][0] + ps]
    nops = rng.randint(3, 7)
    first = None
    ops = []
    for k in range(nops):
        kind = "fit" if k in (0, nops - 1) else rng.choice(["fit", "fit", "pixel", "pixel", "birth", "pers"])
        if kind == "birth":
            r = _range_for(rng, ps); ops.append({"op": "birth", "r": r}); ext[0] = r[1] - r[0] + ps
        elif kind == "pers":
            r = _range_for(rng, ps); ops.append({"op": "pers", "r": r}); ext[1] = r[1] - r[0] + ps
        elif kind == "pixel":
            for _ in range(20):
                q = _pixel_pool(rng)
                if max(ext + [pool_ext]) / q < MAXPIX:
                    break
            else:
                q = max(ext + [pool_ext]) / rng.uniform(5, 40)
            ops.append({"op": "pixel", "ps": q}); ps = q
            ext = [ext[0] + q, ext[1] + q]
        else:
            how = rng.choice(["one", "all", "boot", "boot"])
            if how == "one":
                idx = [rng.randrange(len(pool))]
            elif how == "all":
                idx = list(range(len(pool)))
            else:                                   # resample with repeats: the same object several times in one list
                idx = [rng.randrange(len(pool)) for _ in range(len(pool) + rng.randint(1, 3))]
                idx.append(idx[0])
            if first is None:
                first = idx[0]
            elif first not in idx:
                idx.append(first)                   # every later fit meets an array that was fitted before
            skew = rng.random() < 0.8
            ops.append({"op": "fit", "dgms": [[list(q) for q in pool[i]] for i in idx], "skew": skew,
                        "single": len(idx) == 1 and rng.random() < 0.6, "tf": rng.random() < 0.6})
            ext = [pool_ext + ps, pool_ext + ps]
    uv = [[rng.uniform(0.02, 0.98), rng.uniform(0.02, 0.98)] for _ in range(len(ops) + 1)]
    return {"cls": "shared", "ctor": ctor, "ops": ops, "uv": uv, "share": True, "layout": layout}


def _imagers(rng):
    """Two or three imagers (different pixel sizes) configured and fitted one after the other, in one process, on
    the same array objects (a coarse and a fine image of the same data)."""
    ps = _pixel_pool(rng)
    pool = _pool(rng, ps)
    layout = rng.choice(LAYOUTS)
    steps = [_shared_history(rng, pool, layout, ps)]
    for _ in range(rng.randint(1, 2)):
        steps.append(_shared_history(rng, pool, layout))
    return history.make("imagers", steps)


def _with_faults(rng, h):
    """Marks operations of one imager's history as running where warnings are errors (`werr`): should persim warn
    half-way through a setter / fit, the operation is interrupted there, the caller catches the Warning and keeps
    using the imager.  At least one marked operation is followed by an unmarked one."""
    ops = h["ops"]
    for o in ops:
        o["werr"] = rng.random() < 0.5
    if len(ops) >= 2:
        i = rng.randrange(len(ops) - 1)
        ops[i]["werr"] = True
        ops[rng.randrange(i + 1, len(ops))]["werr"] = False
    h["cls"] = h["cls"] + "+werr"
    return h


def generate(rng, tier):
    n, ns, nh, nw = (500, 90, 18, 60) if tier == "quick" else (12000, 1500, 300, 1500)
    return ([_history(rng, tier) for _ in range(n)] + [_shared_history(rng) for _ in range(ns)]
            + [_imagers(rng) for _ in range(nh)]
            + [_with_faults(rng, _history(rng, tier)) for _ in range(nw)]
            + [_with_faults(rng, _shared_history(rng)) for _ in range(nw // 4)])


def search_generate(rng, n):
    def one(i):
        if i % 10 == 9:
            return _imagers(rng)
        if i % 10 in (3, 6):
            return _with_faults(rng, _history(rng, "quick"))
        return _shared_history(rng) if i % 3 == 2 else _history(rng, "quick")
    return [one(i) for i in range(n)]


PS_W = float.fromhex("0x1.76f7bea3dabf5p-1")     # witness of imager_setter_float_refuted


def corpus():
    """Refutation witnesses and the suite's own examples, stored under corpus/C12/*.json."""
    import json
    d = core.VERIF / "corpus" / PID
    out = []
    for p in sorted(d.glob("*.json")):
        c = json.loads(p.read_text())
        c.pop("_id", None)
        c["cls"] = "corpus"
        out.append(c)
    return out


# ------------------------------------------------------------------------------------ implementation
def _const_weight(birth, pers, **kw):
    import numpy as np
    return np.ones_like(np.asarray(birth, dtype=float))


def _snapshot(p, uv):
    import numpy as np
    snap = {
        "ps": float(p.pixel_size), "br": [float(x) for x in p.birth_range], "pr": [float(x) for x in p.pers_range],
        "width": float(p.width), "height": float(p.height), "res": [int(x) for x in p.resolution],
        "bp": [float(x) for x in p._bpnts], "pp": [float(x) for x in p._ppnts], "shape": None, "land": None,
    }
    # a point mass inside the covered region, seen through a very narrow isotropic Gaussian
    x = snap["br"][0] + uv[0] * (snap["br"][1] - snap["br"][0])
    y = snap["pr"][0] + uv[1] * (snap["pr"][1] - snap["pr"][0])
    sd = 1e-4 * snap["ps"]
    saved = p.kernel_params
    try:
        p.kernel_params = {"sigma": [[sd * sd, 0.0], [0.0, sd * sd]]}
        img = np.asarray(p.transform(np.array([[x, y]], dtype=float), skew=False))
        snap["shape"] = [int(v) for v in img.shape]
        keep = img
        img = np.array(img, dtype=float)
        history.scribble(keep)                     # the caller owns (and may overwrite) what transform returned
        margin = min([abs(x - t) for t in snap["bp"]] + [abs(y - t) for t in snap["pp"]] + [float("inf")])
        if img.size and margin > 1e-3 * snap["ps"]:
            i, j = np.unravel_index(int(np.argmax(img)), img.shape)
            if abs(float(img[i, j]) - 1.0) < 1e-6 and abs(float(img.sum()) - 1.0) < 1e-6:
                snap["land"] = [float(x), float(y), int(i), int(j)]
            else:
                snap["land"] = [float(x), float(y), -2, -2]      # mass not in one pixel
    except Exception as e:  # noqa
        snap["shape_error"] = "%s: %s" % (type(e).__name__, str(e)[:120])
    finally:
        p.kernel_params = saved
    return snap


def _build_arr(d, layout):
    """The caller's diagram object in one of the layouts a user may hold it in."""
    import numpy as np
    a = np.array(d, dtype=float).reshape(-1, 2)
    if layout == "F":
        return np.asfortranarray(a)
    if layout == "view":                      # two columns / every other row of a larger table
        big = np.full((2 * len(d) + 1, 4), 7.25)
        big[1::2, 1:3] = a
        return big[1::2, 1:3]
    if layout == "ro":                        # e.g. a memory-mapped or frozen array
        a.flags.writeable = False
        return a
    if layout == "list":
        return [[float(b), float(e)] for b, e in d]
    return a


def _transform_fitted(p, arg, single, skew, ps):
    """transform() of the very objects that were just fitted, through a very narrow Gaussian: per image its shape,
    its total mass and the pixels that carry mass."""
    import numpy as np
    sd = 1e-4 * ps
    saved = p.kernel_params
    try:
        p.kernel_params = {"sigma": [[sd * sd, 0.0], [0.0, sd * sd]]}
        imgs = p.transform(arg, skew=skew)
        recs = []
        for img in ([imgs] if single else list(imgs)):
            a = np.asarray(img, dtype=float)
            rec = {"shape": [int(v) for v in a.shape], "sum": float(a.sum()), "nz": None}
            if a.ndim == 2:
                nz = np.argwhere(~(np.abs(a) <= 1e-9))
                if len(nz) <= 400:
                    rec["nz"] = [[int(i), int(j), float(a[i, j])] for i, j in nz]
            recs.append(rec)
        history.scribble(imgs)                # the caller owns what transform returned
        return recs
    except Exception as e:  # noqa
        return {"error": "%s: %s" % (type(e).__name__, str(e)[:160])}
    finally:
        p.kernel_params = saved


def impl_call(c, memo):
    """One configuration history on one imager.  With c["share"] the diagrams are interned in `memo` by content:
    equal diagrams - inside one fit, in later fits, in the transform after a fit, in histories of OTHER imagers of
    the same composite case - are the same objects.  Without it every call gets fresh arrays."""
    import numpy as np
    from persim import PersistenceImager
    snaps = []
    try:
        ct = c["ctor"]
        conv = (lambda v: int(v)) if ct.get("ints") else float
        if ct.get("default"):
            p = PersistenceImager(pixel_size=conv(ct["ps"]), weight=_const_weight, weight_params={})
        else:
            p = PersistenceImager(birth_range=tuple(conv(v) for v in ct["br"]),
                                  pers_range=tuple(conv(v) for v in ct["pr"]),
                                  pixel_size=conv(ct["ps"]), weight=_const_weight, weight_params={})
        snaps.append(_snapshot(p, c["uv"][0]))
        for k, o in enumerate(c["ops"]):
            state = {"tf": None}

            def apply(o=o, state=state):
                if o["op"] == "birth":
                    p.birth_range = tuple(float(v) for v in o["r"])
                elif o["op"] == "pers":
                    p.pers_range = tuple(float(v) for v in o["r"])
                elif o["op"] == "pixel":
                    p.pixel_size = float(o["ps"])
                else:
                    if c.get("share"):
                        lay = c.get("layout", "C")
                        arrs = [history.intern(memo, ["dgm", lay, d], lambda d=d: _build_arr(d, lay)) for d in o["dgms"]]
                    else:
                        arrs = [np.array(d, dtype=float).reshape(-1, 2) for d in o["dgms"]]
                    arg = arrs[0] if o.get("single") else arrs
                    p.fit(arg, skew=o["skew"])
                    if o.get("tf"):
                        state["tf"] = (arg, float(p.pixel_size))

            raised = None
            if o.get("werr"):
                # the operation runs in a process where warnings are errors (python -W error, pytest -W error); the
                # caller catches the Warning and goes on using the imager.  The unchanged code warns nowhere here.
                import warnings
                with warnings.catch_warnings():
                    warnings.simplefilter("error")
                    try:
                        apply()
                    except Warning as w:
                        raised = "%s: %s" % (type(w).__name__, str(w)[:160])
            else:
                apply()
            tf = None
            if state["tf"] is not None and raised is None:
                tf = _transform_fitted(p, state["tf"][0], bool(o.get("single")), o["skew"], state["tf"][1])
            snaps.append(_snapshot(p, c["uv"][k + 1]))
            if tf is not None:
                snaps[-1]["tf"] = tf
            if raised is not None:
                snaps[-1]["raised"] = raised
        return {"snaps": snaps}
    except Exception as e:  # noqa
        return {"error": type(e).__name__, "msg": str(e)[:200], "snaps": snaps}


def impl_run(cases):
    return [history.run(c, impl_call) if history.is_hist(c) else impl_call(c, {}) for c in cases]


# ------------------------------------------------------------------------------------ the spec
def _F(x):
    return Fraction(float(x))


def _requested(c, k, prev):
    """What step k asked for, as exact rationals: (b_lo, b_hi, p_lo, p_hi, new_ps or None).
    A None range means 'that axis was not assigned: it must stay as it was'."""
    if k == 0:
        ct = c["ctor"]
        return _F(ct["br"][0]), _F(ct["br"][1]), _F(ct["pr"][0]), _F(ct["pr"][1])
    o = c["ops"][k - 1]
    if o["op"] == "birth":
        return _F(o["r"][0]), _F(o["r"][1]), None, None
    if o["op"] == "pers":
        return None, None, _F(o["r"][0]), _F(o["r"][1])
    if o["op"] == "pixel":
        return _F(prev["br"][0]), _F(prev["br"][1]), _F(prev["pr"][0]), _F(prev["pr"][1])
    pts = [q for d in o["dgms"] for q in d]
    bs = [_F(q[0]) for q in pts]
    ys = [(_F(q[1]) - _F(q[0])) if o["skew"] else _F(q[1]) for q in pts]
    return min(bs), max(bs), min(ys), max(ys)


def _axis(name, lo, hi, ext, res, mesh, ps, tol):
    if abs(res * ps - ext) > tol:
        return "resolution: %s resolution*pixel_size = %s differs from the covered extent %s" % (
            name, float(res * ps), float(ext))
    if abs((hi - lo) - ext) > tol:
        return "range: %s range extent %s differs from %s" % (name, float(hi - lo), float(ext))
    if len(mesh) != res + 1:
        return "mesh: %s mesh has %d nodes for resolution %d" % (name, len(mesh), res)
    if abs(mesh[0] - lo) > tol or abs(mesh[-1] - hi) > tol:
        return "mesh: %s mesh ends %s..%s are not the range %s..%s" % (
            name, float(mesh[0]), float(mesh[-1]), float(lo), float(hi))
    for a, b in zip(mesh, mesh[1:]):
        if abs((b - a) - ps) > tol:
            return "pixel: %s mesh step %s is not the pixel size %s" % (name, float(b - a), float(ps))
    return None


def _fitted_images(c, k, s, ps, blo, plo):
    """Images of the diagrams fitted at step k (the same objects were handed to transform right after the fit):
    each has the reported resolution, and - seen through the narrow kernel - every fitted point (taken from the
    case's own data, never from the arrays persim saw) that lies inside a pixel of the REPORTED geometry puts its
    unit mass there; no mass appears away from the points."""
    tf = s.get("tf")
    if tf is None:
        return None
    op = c["ops"][k - 1]
    if isinstance(tf, dict):
        return "shape: transform of the fitted diagrams raised %s" % tf.get("error")
    if len(tf) != len(op["dgms"]):
        return "shape: transform returned %d images for %d diagrams" % (len(tf), len(op["dgms"]))
    rw, rh = s["res"]
    for n, (rec, d) in enumerate(zip(tf, op["dgms"])):
        if list(rec["shape"]) != [rw, rh]:
            return "shape: image %d of the fitted diagrams has shape %s, resolution is %s" % (n, rec["shape"], s["res"])
        strict, near = {}, set()
        for b, e in d:
            u = (_F(b) - blo) / ps
            v = ((_F(e) - _F(b)) if op["skew"] else _F(e)) - plo
            v = v / ps
            i, j = math.floor(u), math.floor(v)
            for di in (-1, 0, 1):
                for dj in (-1, 0, 1):
                    near.add((i + di, j + dj))
            if min(u - i, i + 1 - u, v - j, j + 1 - v) > Fraction(1, 1000):
                strict[(i, j)] = strict.get((i, j), 0) + 1
        if not (rec["sum"] <= len(d) + 1e-6):
            return "landing: image %d of the fitted diagrams carries mass %r for %d points" % (n, rec["sum"], len(d))
        if rec["nz"] is None:
            return "landing: image %d of the fitted diagrams has mass in more than 400 pixels for %d points" % (n, len(d))
        got = {(i, j): val for i, j, val in rec["nz"]}
        for ij, cnt in sorted(strict.items()):
            if not (got.get(ij, 0.0) >= cnt - 1e-6):
                return "landing: image %d of the fitted diagrams: %d fitted point(s) lie in pixel %s of the reported geometry, mass there is %r" % (
                    n, cnt, ij, got.get(ij, 0.0))
        for ij, val in sorted(got.items()):
            if not (abs(val) <= 1e-6) and ij not in near:
                return "landing: image %d of the fitted diagrams has mass %r in pixel %s, no fitted point is near it" % (n, val, ij)
    return None


def predicate(c, o):
    if history.is_hist(c):
        return history.predicate(c, o, predicate)
    if "error" in o:
        return False, "exception: %s %s after %d steps" % (o["error"], o.get("msg"), len(o.get("snaps", [])))
    snaps = o["snaps"]
    if len(snaps) != len(c["ops"]) + 1:
        return False, "harness: snapshot count"
    for k, s in enumerate(snaps):
        ps = _F(s["ps"])
        blo, bhi, plo, phi = _F(s["br"][0]), _F(s["br"][1]), _F(s["pr"][0]), _F(s["pr"][1])
        w, h = _F(s["width"]), _F(s["height"])
        rw, rh = s["res"]
        scale = max(abs(blo), abs(bhi), abs(plo), abs(phi), ps, w, h)
        tol = ULPS * EPS * scale
        where = "step %d (%s)" % (k, "constructor" if k == 0 else c["ops"][k - 1]["op"])
        if s.get("raised"):
            # the operation was interrupted by a warning-turned-error and the caller caught it: nothing is asked of
            # this step itself; every LATER operation that succeeds must leave a self-consistent imager again
            continue
        want_ps = [_F(c["ctor"]["ps"])]
        for q, sq in zip(c["ops"][:k], snaps[1:]):
            if q["op"] == "pixel":
                want_ps = (want_ps if sq.get("raised") else []) + [_F(q["ps"])]   # interrupted: old or new
        if ps not in want_ps:
            return False, "pixel: %s: pixel_size %s is not the configured %s" % (where, s["ps"], float(want_ps[-1]))
        for msg in (_axis("birth", blo, bhi, w, rw, [_F(t) for t in s["bp"]], ps, tol),
                    _axis("pers", plo, phi, h, rh, [_F(t) for t in s["pp"]], ps, tol)):
            if msg:
                return False, msg.split(":")[0] + ": " + where + ":" + msg.split(":", 1)[1]
        if s["shape"] is None or list(s["shape"]) != [rw, rh]:
            return False, "shape: %s: transform returned shape %s (%s), resolution is %s" % (
                where, s["shape"], s.get("shape_error"), s["res"])
        prev = snaps[k - 1] if k else None
        req = _requested(c, k, prev)
        after_fault = bool(prev and prev.get("raised"))
        for name, lo, hi, ext, rlo, rhi, pk in (("birth", blo, bhi, w, req[0], req[1], "br"),
                                                ("pers", plo, phi, h, req[2], req[3], "pr")):
            if after_fault and (rlo is None or c["ops"][k - 1]["op"] == "pixel"):
                continue        # "as it was before" is not defined right after an interrupted operation
            if rlo is None:
                if abs(lo - _F(prev[pk][0])) > tol or abs(hi - _F(prev[pk][1])) > tol:
                    return False, "untouched: %s: %s range moved from %s to %s" % (where, name, prev[pk], s[pk])
                continue
            if lo > rlo + tol or hi < rhi - tol:
                return False, "contain: %s: %s range %s..%s does not contain the requested %s..%s" % (
                    where, name, float(lo), float(hi), float(rlo), float(rhi))
            if ext - (rhi - rlo) > ps + tol:
                return False, "excess: %s: %s extent %s exceeds the requested %s by more than one pixel %s" % (
                    where, name, float(ext), float(rhi - rlo), float(ps))
        msg = _fitted_images(c, k, s, ps, blo, plo)
        if msg:
            return False, msg.split(":")[0] + ": " + where + ":" + msg.split(":", 1)[1]
        if s["land"] is not None:
            x, y, i, j = s["land"]
            ei = math.floor((_F(x) - blo) / ps)
            ej = math.floor((_F(y) - plo) / ps)
            if (i, j) != (ei, ej):
                return False, "landing: %s: point (%r, %r) landed in pixel %s, geometry says %s" % (
                    where, x, y, (i, j), (ei, ej))
    return True, ""


def nontrivial(c, o):
    if history.is_hist(c):
        return history.nontrivial(c, o, nontrivial)
    if "error" in o or len(c["ops"]) < 3:
        return False
    snaps = o["snaps"]
    for k in range(len(snaps)):
        req = _requested(c, k, snaps[k - 1] if k else None)
        ps = _F(snaps[k]["ps"])
        for lo, hi in ((req[0], req[1]), (req[2], req[3])):
            if lo is not None and ((hi - lo) / ps).denominator != 1:
                return True
    return False


# ------------------------------------------------------------------------------------ the model, in Coq
HEADER = """From Coq Require Import ZArith List Bool PrimFloat.
From Persim Require Import Model.ImagerM Corr.ImagerCorr.
Import ListNotations.
Open Scope float_scope.
Open Scope Z_scope.
"""


def fl(x):
    x = float(x)
    if x != x:
        return "nan%float"
    if x in (float("inf"), float("-inf")):
        return "infinity%float" if x > 0 else "neg_infinity%float"
    h = x.hex()
    return "(%s)%%float" % h if h.startswith("-") else "%s%%float" % h


def _fl_list(xs):
    return core.coq_list([fl(v) for v in xs])


def _coq_dgm(d):
    pts = ["(%s, %s)" % (fl(b), fl(e)) for b, e in d]
    return "(%s, %s)" % (pts[0], core.coq_list(pts[1:]))


def _coq_op(o):
    if o["op"] == "birth":
        return "@SetBirth FNum %s %s" % (fl(o["r"][0]), fl(o["r"][1]))
    if o["op"] == "pers":
        return "@SetPers FNum %s %s" % (fl(o["r"][0]), fl(o["r"][1]))
    if o["op"] == "pixel":
        return "@SetPixel FNum %s" % fl(o["ps"])
    ds = [_coq_dgm(d) for d in o["dgms"]]
    return "@Fit FNum (%s, %s) %s" % (ds[0], core.coq_list(ds[1:]), "true" if o["skew"] else "false")


def _coq_snap(s):
    st = "S %s %s %s %s %s %s %s %s %s %s %s" % (
        fl(s["ps"]), fl(s["br"][0]), fl(s["br"][1]), fl(s["pr"][0]), fl(s["pr"][1]), fl(s["width"]),
        fl(s["height"]), core.coq_Z(s["res"][0]), core.coq_Z(s["res"][1]), _fl_list(s["bp"]), _fl_list(s["pp"]))
    shp = "None" if s["shape"] is None or len(s["shape"]) != 2 else "(Some (%s, %s))" % (
        core.coq_Z(s["shape"][0]), core.coq_Z(s["shape"][1]))
    land = "None" if s["land"] is None or s["land"][2] == -2 else "(Some (%s, %s, %s, %s))" % (
        fl(s["land"][0]), fl(s["land"][1]), core.coq_Z(s["land"][2]), core.coq_Z(s["land"][3]))
    return "mkSnap (%s) %s %s" % (st, shp, land)


def _term(c, o):
    ct = c["ctor"]
    return "check_history %s %s %s %s %s %s %s" % (
        fl(ct["br"][0]), fl(ct["br"][1]), fl(ct["pr"][0]), fl(ct["pr"][1]), fl(ct["ps"]),
        core.coq_list([_coq_op(q) for q in c["ops"]], sep=";\n   "),
        core.coq_list([_coq_snap(s) for s in o["snaps"]], sep=";\n   "))


FIELDS = {1: "pixel_size", 2: "birth_range[0]", 3: "birth_range[1]", 4: "pers_range[0]", 5: "pers_range[1]",
          6: "width", 7: "height", 8: "resolution[0]", 9: "resolution[1]", 10: "_bpnts", 11: "_ppnts",
          12: "transform shape", 13: "landing pixel", 99: "history length"}


def _describe(code):
    return "step %d field %s" % (code // 100 - 1, FIELDS.get(code % 100, str(code % 100)))


def coq_jobs(cases, outs):
    return []


def coq_judge(cases, outs, results):
    # composite cases (several imagers in one process) are judged imager by imager
    flat = []                                   # (index of the case, one imager's history, its output)
    for i, (c, o) in enumerate(zip(cases, outs)):
        if history.is_hist(c):
            hs = o.get("hist") or []
            hs = hs if len(hs) == len(c["seq"]) else [{"error": "harness"}] * len(c["seq"])
            flat.extend((i, s, so) for s, so in zip(c["seq"], hs))
        else:
            flat.append((i, c, o))
    bad = "disagree:implementation raised or returned a malformed history"
    fv = [bad] * len(flat)
    idx, terms = [], []
    for n, (i, c, o) in enumerate(flat):
        if "error" in o or len(o.get("snaps", [])) != len(c["ops"]) + 1:
            continue
        idx.append(n)
        terms.append(_term(c, o))
    toks, _ = core.eval_cases(PID, HEADER, terms, chunk=max(1, (len(terms) + core.NPROC - 1) // core.NPROC))
    for n, t in zip(idx, toks):
        try:
            code = int(t.replace("%Z", "").strip("() "))
        except ValueError:
            fv[n] = "disagree:model run failed (%s)" % t[:40]
            continue
        intended, legacy = code % 100000, code // 100000
        if intended == 0:
            fv[n] = "agree"
        elif legacy == 0:
            fv[n] = "legacy:C12-imager-truncation"
        else:
            fv[n] = "disagree:float model differs at %s (legacy model: %s)" % (
                _describe(intended), _describe(legacy))
    per = {}
    for (i, _c, _o), v in zip(flat, fv):
        per.setdefault(i, []).append(v)
    verdicts = []
    for i in range(len(cases)):
        vs = per.get(i, [bad])
        dis = [v for v in vs if v.startswith("disagree")]
        leg = [v for v in vs if v.startswith("legacy")]
        verdicts.append(dis[0] if dis else leg[0] if leg else "agree")
    return verdicts


def finding_of(case, out, detail):
    return None


def _smaller(c):
    """Smaller variants, the biggest reductions first."""
    if history.is_hist(c):
        if len(c["seq"]) == 1:
            yield c["seq"][0]                    # one imager on its own: not an effect between imagers
        yield from history.shrink(c)
        for i, s in enumerate(c["seq"]):        # shrink one imager's history, keeping the others
            for t in _smaller(s):
                d = dict(c); d["seq"] = c["seq"][:i] + [t] + c["seq"][i + 1:]
                yield d
        return
    n = len(c["ops"])
    for k in range(n):                      # cut the history after operation k
        d = dict(c); d["ops"] = c["ops"][:k]; d["uv"] = c["uv"][:k + 1]
        yield d
    for k in range(n - 1, -1, -1):          # drop one operation
        d = dict(c); d["ops"] = c["ops"][:k] + c["ops"][k + 1:]; d["uv"] = c["uv"][:k + 1] + c["uv"][k + 2:]
        yield d
    # fitted data is only ever reduced to data that still spans a positive extent (the property's quantifier)
    for k, o in enumerate(c["ops"]):
        if o["op"] == "fit":
            for i, dg in enumerate(o["dgms"]):
                nd = o["dgms"][:i] + o["dgms"][i + 1:]
                if len(o["dgms"]) > 1 and _spans([q for x in nd for q in x]):
                    d = dict(c); d["ops"] = list(c["ops"])
                    d["ops"][k] = dict(o, dgms=nd, single=False)
                    yield d
    for k, o in enumerate(c["ops"]):
        if o["op"] == "fit" and not c.get("share"):
            for i, dg in enumerate(o["dgms"]):
                for j in range(len(dg)):
                    nd = [list(x) for x in o["dgms"]]; nd[i] = dg[:j] + dg[j + 1:]
                    if len(dg) > 1 and _spans([q for x in nd for q in x]):
                        d = dict(c); d["ops"] = list(c["ops"])
                        d["ops"][k] = dict(o, dgms=nd)
                        yield d
    for k, o in enumerate(c["ops"]):
        if o.get("werr") or o.get("tf"):
            d = dict(c); d["ops"] = list(c["ops"])
            d["ops"][k] = {a: b for a, b in o.items() if a not in ("werr", "tf")}
            yield d


def shrink_candidates(c):
    """core.shrink tries the candidates one by one, each in a fresh interpreter; to keep that affordable all
    candidates are first evaluated together in ONE interpreter and only those that fail there are offered (core
    still confirms each of them on its own)."""
    cands = []
    for d in _smaller(c):
        cands.append(d)
        if len(cands) >= 150:
            break
    if not cands:
        return
    try:
        outs = core.run_impl("c12", cands)
        keep = [d for d, o in zip(cands, outs) if not predicate(d, o)[0]]
    except Exception:  # noqa
        keep = cands
    yield from keep[:4]
