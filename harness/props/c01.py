"""C01 - the bottleneck distance is the true min-max matching cost.

Model: coq/Model/BneckM.v (exact rationals + infinity, the code's binary search with the external
maximum-matching routine as an argument).  The model is executed inside Coq with a certifying
answering routine: this module supplies, per case, the optimal value, a perfect matching of the
model's threshold graph at that value and a Hall violator for the next smaller threshold; the
verified checkers of coq/Corr/BneckCorr.v accept them (or the case is `skip`), then the model's own
search runs and its value is compared with the float returned by persim.bottleneck (exactly in the
exact family, within a stated tolerance in the tolerance family).

Inputs beyond plain value classes: `degenerate` (every pairing of the ways a side can be or become empty -
genuinely empty, only infinite points, infinite + diagonal points, ...), per-side containers / dtypes / layouts
(REPS, _arr), integer grids in the narrowest integer dtype, float32 / float16 arrays whose arithmetic rounds or
overflows in the narrow type (class narrow: the points are the numbers given, the spec is evaluated on their binary64
values), a few diagrams of 17-41 points, and call histories
(harness/history.py: `impl_call`, `_histories`): several calls in one interpreter on shared argument objects,
each judged by the same predicate and the same model run.  Every case is called without and with matching=True
(the flag spelled as keyword, positionally, numpy bool or 1; in histories also in the other order): the distance of
BOTH calls is held against the spec and the model, under 8 hash seeds (quick) / 14 (thorough).

Also exported for C06 (assembled by the integrator):
  bneck_cert_ok(S, T, dist, rows, tol=0) -> (ok, detail)   the certificate predicate in pure Python
  coq_cert_term(case, dist, rows, tol)                     the Coq term `bneck_cert_case ...` (bool)
"""
from fractions import Fraction as Fr

from .. import core, history

PID = "C01"
THEOREMS = [
    "aug_extend_perfect", "aug_costs_perm",
    "bsearch_least_feasible", "diag_point_neutral", "bottleneck_correct",
    "bottleneck_ignores_infinite_deaths", "bottleneck_oracle_independent",
    "matching_check_sound", "hall_violator_sound", "certified_run_sound", "case_verdict_sound",
    "max_matching_routine_exists",
]
RULE = ("seeded generator; exact family: coordinates (k/4)*2^s, k in [-8,24], one scale s per case "
        "(|s| <= 3, or +-20 in class scale), sizes 0-6 per side (quick; a few up to 10) / up to 20 (thorough), "
        "classes {generic, empty_side, both_empty, repeated, diagonal, ties, inf, scale, near_tie, repaired, straddle, "
        "permuted, big, offset (grid shifted by +-sc*2^10..2^30, short bars), intgrid (integer coordinates as arrays of the "
        "narrowest signed / unsigned integer dtype), narrow (float32 / float16 ARRAYS whose coordinates are random numbers of the "
        "narrow type, so that sums / differences / halves round - or, for float16 bars longer than 65504, overflow - when "
        "taken in the narrow type: styles unit, wide = small birth under a large death, kilo, mixmag = 1e-3..1e4 in one diagram, "
        "straddle = births far below and deaths far above zero; both sides in one narrow type, float32 against float16, or a "
        "narrow side against arbitrary doubles; the spec is the min-max cost of the points as given, i.e. of the binary64 values "
        "of the narrow numbers, compared EXACTLY whenever all their differences are binary64 numbers (_exact64), else in the "
        "tolerance family; about 25 of the 280 drawn cases plus a block of 40 quick / 600 thorough with 1-3 points a side; "
        "a third of the call histories also hold one or two such diagrams in their pool), large (4 quick / 30 thorough cases with 17, 23, 33 or 41 points on a side), "
        "degenerate (each side one of {empty, one infinite point, several infinite points, infinite + diagonal points, "
        "infinite + finite points, finite points, diagonal points}: every ordered pair of kinds once per quick run, "
        "12 times per thorough run, plus random pairs)}; "
        "tolerance family (classes tol, decimal, tol_mag = scales 1e-8..1e-10 and short bars on offsets 1e3..1e6): random doubles; "
        "about a third of the cases hand each side over in its own representation out of {float64 array, list of lists, "
        "tuple of tuples, list of row arrays, float32, float16, narrowest int, narrowest uint, Fortran order, strided view, "
        "read-only array} (a representation that cannot hold the values exactly falls back to float64); "
        "every case is called twice on the same argument objects, bottleneck(S, T) and bottleneck(S, T, matching=True), and "
        "the distance of EACH call (the first component under the flag) is compared with the min-max cost and with the model, "
        "as is the infinite-death warning of each call; half of C01's own cases spell the flag differently (positional, "
        "numpy bool, the integer 1); an exception under the flag is a failure; "
        "call histories (harness/history.py; 16 quick / 150 thorough, 5-7 calls each in one interpreter, equal-valued "
        "diagrams being the same objects in every call): pairwise distances over a pool of 3-5 diagrams incl. a diagram "
        "against itself, one pair called repeatedly and exchanged, a call that raises (ragged / 1-d / text / None argument, or "
        "warnings turned into errors on a diagram with infinite deaths) between clean calls; in 30% of the steps the flagged "
        "call comes before the plain one; the returned matching array is overwritten (history.scribble) once read - every call "
        "must satisfy the predicate; every batch under PYTHONHASHSEED 0,1,2,3,5,7,11,42 (quick; 14 values thorough: the model "
        "runs are shared, one more hash seed costs one implementation run). "
        "A case is non-trivial when the matching returned by the implementation uses both a cross pairing "
        "and a diagonal pairing, or two candidate costs (pair or diagonal) are equal, or an empty-diagram / "
        "infinite-death branch is exercised; a history when at least two of its calls are; distinct = distinct JSON input")
TRUSTED_BASE = [
    "Coq 8.16.1 kernel, vm_compute (no native_compute); all C01 theorems are closed under the global context",
    "hand-written model Model/BneckM.v of bottleneck.py lines 50-135",
    "hypothesis on external code: HopcroftKarp(graph).maximum_matching() returns a maximum matching "
    "(monitored on every real call by patching persim.bottleneck.HopcroftKarp)",
    "harness: generator, float->exact-rational printer, certificate search (only checked certificates are used), "
    "verdict parser; the independent Python predicate (brute force / threshold + augmenting paths); "
    "call histories (harness/history.py): each call judged by the same predicate and the same model run, nothing recorded",
]
ASSUMPTIONS = [
    "numpy semantics of isfinite masking, abs, maximum, fill_diagonal, unique, sort are as modelled",
    "exact family: every float operation of the code is exact on the dyadic grid, so the float equals the model's rational "
    "(class narrow: exact when taken in binary64 - all coordinates are multiples of one power of two g and below 2^51 g, "
    "checked per case by _exact64 - although not exact in the float32 / float16 type the caller's array has)",
    "tolerance family: one rounding per matrix entry, bounded by 2^-50 * max|coordinate| (not proved)",
    "diagrams have birth <= death (the property speaks of persistence diagrams)",
    "numpy converts float32 / float16 / integer arrays, tuples, row lists and non-contiguous / read-only arrays to float64 "
    "without changing a value (the representations are only used when they hold the coordinates exactly)",
]
# one more hash seed costs one implementation run (~2.5 s in the quick tier): the model runs are shared through _cache
HASHSEEDS = ["0", "1", "2", "3", "5", "7", "11", "42"]
HASHSEEDS_THOROUGH = ["0", "1", "2", "3", "5", "7", "8", "11", "12", "13", "42", "101", "1234", "65535"]
COQ_DEPS = ["Corr/BneckCorr.vo"]


# ------------------------------------------------------------------------------ generator

def _pt(rng, sc, krange=(-8, 24), maxlen=12, diag=False):
    b = rng.randint(*krange)
    ln = 0 if diag else rng.randint(0, maxlen)
    return [sc * b / 4.0, sc * (b + ln) / 4.0]


def _dgm(rng, n, sc, **kw):
    return [_pt(rng, sc, **kw) for _ in range(n)]


def _narrow(x, dt):
    """x rounded to the nearest float32 ("f32") / float16 ("f16") number, as a Python float (no numpy here)."""
    import struct
    fmt = "<f" if dt == "f32" else "<e"
    return struct.unpack(fmt, struct.pack(fmt, x))[0]


def _exact64(vals):
    """True when every difference (and half difference) of two of the numbers is a binary64 number: all of them
    are multiples of one power of two g, and below 2^51 * g in magnitude."""
    import math
    vs = [abs(float(v)) for v in vals if v != "inf" and float(v) != 0.0]
    if not vs:
        return True
    g = None
    for v in vs:
        m, e = math.frexp(v)            # v = m * 2^e, m has at most 53 bits
        k = int(m * 2 ** 53)
        low = e - 53 + ((k & -k).bit_length() - 1)
        g = low if g is None else min(g, low)
    return g > -1000 and max(vs) < 2.0 ** (g + 51)


# Narrow floating-point diagrams: what one point of a side looks like.
NARROW_STYLES = ["unit", "unit", "wide", "kilo", "mixmag", "straddle"]


def _narrow_dgm(rng, n, dt, style):
    """n points whose coordinates are float32 / float16 numbers that are NOT on a coarse grid: sums and differences of
    two of them are, as a rule, not numbers of the narrow type (they are binary64 numbers, see _exact64)."""
    top = 60000.0 if dt == "f16" else 3.0e6

    def pt():
        if style == "unit":
            b = rng.uniform(0, 1)
            d = b + rng.choice([rng.uniform(0, 1), rng.uniform(0, 1), rng.uniform(0, 0.05)])
        elif style == "wide":         # a small birth under a large death: the difference rounds in the narrow type
            b = rng.uniform(0, 0.3)
            d = rng.uniform(1, 40)
        elif style == "kilo":
            b = rng.uniform(0, 1000)
            d = b + rng.choice([rng.uniform(0, 1000), rng.uniform(0, 30)])
        elif style == "mixmag":       # magnitudes from 1e-3 to the top of the range in one diagram
            b = rng.uniform(0, 1) * 10.0 ** rng.randint(-3, 2)
            d = b + rng.uniform(0, 1) * 10.0 ** rng.randint(-2, 4)
        else:                           # straddle: births far below zero, deaths far above - the bar is longer than the
            a = rng.uniform(0.3, 0.95) * top    # largest float16 number / than any coordinate
            b, d = -a * rng.uniform(0.9, 1.0), a * rng.uniform(0.9, 1.0)
        b, d = _narrow(b, dt), _narrow(min(d, top), dt)
        return [b, max(b, d)]
    return [pt() for _ in range(n)]


def _narrow_case(rng, maxn, sides=True):
    """Class narrow: float32 / float16 arrays whose arithmetic rounds (or overflows) in the narrow type.  The property
    speaks of the points as given - every float16 / float32 number is a real number - so the spec is the min-max
    cost of those points, to binary64 accuracy (family exact when all differences are binary64 numbers)."""
    dt = rng.choice(["f32", "f32", "f16", "f16"])
    style = rng.choice(NARROW_STYLES)
    m, n = rng.randint(1, max(1, maxn)), rng.randint(0, maxn)
    if style == "straddle" and rng.random() < 0.5:
        n = rng.randint(0, max(0, m - 1))       # somebody has to go to the diagonal
    S = _narrow_dgm(rng, m, dt, style)
    u = rng.random()
    if u < 0.65:        # both sides in the same narrow type
        T, rT = _narrow_dgm(rng, n, dt, style), dt
    elif u < 0.8:       # the other narrow type
        rT = "f16" if dt == "f32" else "f32"
        T = _narrow_dgm(rng, n, rT, style if not (style == "straddle" and rT == "f16") else "kilo")
    else:               # mixed precision: arbitrary doubles on the other side
        rT, T = rng.choice(["array", "array", "list"]), []
        for q in _narrow_dgm(rng, n, dt, style):
            b = q[0] * rng.uniform(0.9, 1.1)
            T.append([b, b + (q[1] - q[0]) * rng.uniform(0.9, 1.1)])
    if T and rT == dt and rng.random() < 0.25:      # one point of S again in T (a zero pairing cost among rounded ones)
        T[rng.randrange(len(T))] = list(rng.choice(S))
    if rng.random() < 0.15:
        A = S if rng.random() < 0.5 else T
        A.append([A[0][0] if A else 0.5, "inf"])
    rS = dt
    if rng.random() < 0.5:
        S, T, rS, rT = T, S, rT, rS
    fam = "exact" if _exact64([x for P in (S, T) for p in P for x in p]) else "tol"
    c = _finish(rng, {"cls": "narrow", "family": fam, "S": S, "T": T}, sides)
    c["repS"], c["repT"] = rS, rT
    return c


def _gen_case(rng, cls, maxn, sides=False):
    if cls == "narrow":
        return _narrow_case(rng, maxn, sides)
    sc = 2.0 ** rng.randint(-3, 3)
    m, n = rng.randint(0, maxn), rng.randint(0, maxn)
    fam = "exact"
    if cls == "generic":
        S, T = _dgm(rng, m, sc), _dgm(rng, n, sc)
    elif cls == "empty_side":
        S, T = _dgm(rng, max(1, m), sc), []
        if rng.random() < 0.5:
            S, T = T, S
    elif cls == "both_empty":
        S, T = [], []
    elif cls == "repeated":
        S, T = _dgm(rng, max(1, m), sc), _dgm(rng, max(1, n), sc)
        for _ in range(rng.randint(1, 3)):
            A = rng.choice([S, T]); B = rng.choice([S, T])
            B.insert(rng.randint(0, len(B)), list(rng.choice(A)))
    elif cls == "diagonal":
        S, T = _dgm(rng, m, sc), _dgm(rng, n, sc)
        for _ in range(rng.randint(1, 3)):
            A = rng.choice([S, T])
            A.insert(rng.randint(0, len(A)), _pt(rng, sc, diag=True))
    elif cls == "ties":
        S = _dgm(rng, max(1, m), sc, krange=(0, 4), maxlen=4)
        T = _dgm(rng, max(1, n), sc, krange=(0, 4), maxlen=4)
    elif cls == "inf":
        S, T = _dgm(rng, m, sc), _dgm(rng, n, sc)
        for _ in range(rng.randint(1, 3)):
            A = rng.choice([S, T])
            A.insert(rng.randint(0, len(A)), [sc * rng.randint(-8, 24) / 4.0, "inf"])
        if rng.random() < 0.2:      # a diagram made of infinite bars only
            S = [[p[0], "inf"] for p in S] or [[0.0, "inf"]]
    elif cls == "scale":
        sc = 2.0 ** rng.choice([-60, -40, -30, -20, 20, 40, 60])
        S, T = _dgm(rng, m, sc), _dgm(rng, n, sc)
    elif cls == "repaired":
        # same multiset of births and same multiset of deaths, paired differently
        k = max(2, m)
        bs = sorted(rng.randint(-8, 8) for _ in range(k))
        ds = [max(bs) + rng.randint(0, 16) for _ in range(k)]
        p1, p2 = ds[:], ds[:]
        rng.shuffle(p1)
        rng.shuffle(p2)
        S = [[sc * b / 4.0, sc * d / 4.0] for b, d in zip(bs, p1)]
        T = [[sc * b / 4.0, sc * d / 4.0] for b, d in zip(bs, p2)]
        rng.shuffle(T)
    elif cls == "straddle":
        # births below zero, deaths above, persistence large against the coordinates
        def sp():
            a = rng.randint(10, 160)
            return [sc * (-a + rng.randint(-1, 1)) / 4.0, sc * (a + rng.randint(-1, 1)) / 4.0]
        S = [sp() for _ in range(max(1, m))]
        T = [sp() for _ in range(n)] if rng.random() < 0.6 else []
        if rng.random() < 0.5:
            S, T = T, S
    elif cls == "near_tie":
        # candidate costs that differ by a tiny (but exactly representable) relative amount:
        # grid points plus dyadic offsets j * 2^-e; every operation of the code stays exact
        S, T = _dgm(rng, max(1, m), sc), _dgm(rng, max(1, n), sc)
        eps = sc * 2.0 ** -rng.choice([18, 22, 26, 30, 34])
        for A in (S, T):
            for p in A:
                j1 = rng.randint(-3, 3)
                j2 = j1 + rng.randint(0, 3)
                p[0] += j1 * eps
                p[1] += j2 * eps
    elif cls == "permuted":
        S = _dgm(rng, max(1, m), sc)
        T = [list(p) for p in S]
        rng.shuffle(T)
        if rng.random() < 0.5 and T:
            T[rng.randrange(len(T))] = _pt(rng, sc)
    elif cls == "big":
        m, n = rng.randint(maxn + 1, maxn + 4), rng.randint(maxn + 1, maxn + 4)
        S, T = _dgm(rng, m, sc), _dgm(rng, n, sc)
    elif cls == "decimal":
        # coordinates on a decimal grid (not exactly representable), T = S with the bars widened
        # symmetrically: the distance equals a half-persistence difference up to one rounding
        fam = "tol"
        k = 1 if rng.random() < 0.7 else rng.randint(2, 3)
        S = [[rng.randint(-30, 60) / 10.0, 0.0] for _ in range(k)]
        for p in S:
            p[1] = round(p[0] + rng.randint(1, 40) / 10.0, 10)
        e = rng.choice([0.1, 0.05, 0.2, 0.3, 0.15, 0.25, 0.4])
        T = [[p[0] - e, p[1] + e] for p in S]
        if rng.random() < 0.5:
            S, T = T, S
        rng.shuffle(T)
    elif cls == "tol":
        fam = "tol"
        s = rng.choice([1.0, 1.0, 1e-3, 1e3, 1e6])

        def rp():
            b = rng.uniform(-2, 5) * s
            return [b, b + rng.choice([rng.uniform(0, 3), rng.uniform(0, 0.05), 0.0]) * s]
        S, T = [rp() for _ in range(m)], [rp() for _ in range(n)]
        if rng.random() < 0.2:
            T.append([rng.uniform(-1, 1) * s, "inf"])
    elif cls == "degenerate":
        # every way a side can be (or become) empty, against every other: see SIDE_KINDS
        S, T = _side(rng, rng.choice(SIDE_KINDS), sc), _side(rng, rng.choice(SIDE_KINDS), sc)
    elif cls == "intgrid":
        # integer coordinates handed over as integer arrays of the narrowest signed / unsigned dtype
        lo, hi = rng.choice([(0, 255), (0, 255), (-128, 127), (0, 60000), (-30000, 30000), (0, 12)])

        def ipt():
            b = rng.randint(lo, hi)
            return [float(b), float(rng.randint(b, min(hi, b + rng.choice([3, hi - lo]))))]
        S, T = [ipt() for _ in range(max(1, m))], [ipt() for _ in range(n)]
        if rng.random() < 0.3:
            T.insert(rng.randint(0, len(T)), list(rng.choice(S)))
        if rng.random() < 0.5:
            S, T = T, S
        c = _finish(rng, {"cls": cls, "family": "exact", "S": S, "T": T}, False)
        r = rng.choice(["uint", "int"])
        c["repS"], c["repT"] = r, (r if rng.random() < 0.7 else rng.choice(["uint", "int", "array", "list"]))
        return c
    elif cls == "offset":
        # short bars far from the origin: grid points shifted by sc * 2^e (still exact in binary64)
        off = sc * 2.0 ** rng.choice([10, 16, 20, 30]) * rng.choice([1, 1, -1])
        S, T = _dgm(rng, max(1, m), sc, maxlen=4), _dgm(rng, n, sc, maxlen=4)
        S = [[b + off, d + off] for b, d in S]
        T = [[b + off, d + off] for b, d in T]
    elif cls == "tol_mag":
        # tolerance family at the magnitudes the plain class does not reach: tiny scales, and
        # short bars on a large offset
        fam = "tol"
        if rng.random() < 0.5:
            s, off = rng.choice([1e-8, 1e-9, 1e-10]), 0.0
        else:
            s, off = 1.0, rng.choice([1e3, 1e4, 1e5, 1e6])

        def rq():
            b = off + rng.uniform(0, 4) * s
            return [b, b + rng.choice([rng.uniform(0, 2), rng.uniform(0, 0.02), 0.0]) * s]
        S, T = [rq() for _ in range(max(1, m))], [rq() for _ in range(n)]
    else:
        raise ValueError(cls)
    return _finish(rng, {"cls": cls, "family": fam, "S": S, "T": T}, sides)


# How one argument can be empty, become empty, or be as good as empty.  "inf*" kinds are emptied by
# the filter on non-finite deaths only (an H0 diagram of a connected space is [[0, inf]]).
SIDE_KINDS = ["empty", "inf1", "infk", "inf_diag", "inf_fin", "fin", "diag"]


def _side(rng, kind, sc):
    def ip():
        return [sc * rng.randint(-8, 24) / 4.0, "inf"]
    if kind == "empty":
        return []
    if kind == "inf1":
        return [ip()]
    if kind == "infk":
        return [ip() for _ in range(rng.randint(2, 4))]
    if kind == "inf_diag":
        P = [ip() for _ in range(rng.randint(1, 2))] + [_pt(rng, sc, diag=True) for _ in range(rng.randint(1, 2))]
    elif kind == "inf_fin":
        P = [ip() for _ in range(rng.randint(1, 2))] + _dgm(rng, rng.randint(1, 3), sc)
    elif kind == "fin":
        return _dgm(rng, rng.randint(1, 3), sc)
    elif kind == "diag":
        return [_pt(rng, sc, diag=True) for _ in range(rng.randint(1, 2))]
    else:
        raise ValueError(kind)
    rng.shuffle(P)
    return P


# Containers / dtypes / memory layouts in which a diagram is handed over (see _arr).  A representation
# that cannot hold the values exactly (int for non-integers, f32 for wide mantissas) falls back to "array".
REPS = ["array", "list", "tuple", "rows", "f32", "f16", "int", "uint", "fortran", "view", "readonly"]


# How the flag of the second call is spelled (C01's own cases; default "kw" = matching=True): positionally, as a
# numpy bool, as the integer 1.  Whatever comes back, its distance component must be the min-max cost.
FLAGS = ["kw", "kw", "kw", "pos", "np", "int"]


def _finish(rng, c, sides=True):
    # one representation for both sides (the stream C06 shares), or - C01's own cases - one per side
    c["rep"] = rng.choice(["array", "array", "list"])
    if sides and rng.random() < 0.35:
        c["repS"], c["repT"] = rng.choice(REPS), rng.choice(REPS)
    if sides:
        f = rng.choice(FLAGS)
        if f != "kw":
            c["flag"] = f
    return c


CLASSES = ["generic", "generic", "generic", "empty_side", "both_empty", "repeated", "repeated", "diagonal",
           "diagonal", "ties", "ties", "ties", "inf", "inf", "scale", "scale", "near_tie", "near_tie", "repaired", "repaired", "straddle", "decimal", "decimal", "decimal", "decimal", "decimal", "permuted", "big", "tol", "tol", "tol"]


# CLASSES is also the stream C06 draws from; the classes below are C01's own
CLASSES_C01 = CLASSES + ["degenerate", "degenerate", "degenerate", "offset", "offset", "tol_mag", "tol_mag",
                         "intgrid", "intgrid", "intgrid", "narrow", "narrow", "narrow", "narrow"]
LARGE_SIZES = [17, 23, 33, 41]      # just above 16 / 32 (nothing in the code is blocked; a threshold would be new)


def _degenerate_grid(rng, reps):
    # every ordered pair of side kinds, `reps` times
    out = []
    for _ in range(reps):
        for ks in SIDE_KINDS:
            for kt in SIDE_KINDS:
                sc = 2.0 ** rng.randint(-3, 3)
                c = _finish(rng, {"cls": "degenerate", "family": "exact", "S": _side(rng, ks, sc), "T": _side(rng, kt, sc)})
                out.append(c)
    return out


def _large(rng, n):
    out = []
    for _ in range(n):
        sc = 2.0 ** rng.randint(-3, 3)
        m, k = rng.choice(LARGE_SIZES), rng.choice(LARGE_SIZES + [3, 9])
        S, T = _dgm(rng, m, sc, krange=(-40, 120), maxlen=40), _dgm(rng, k, sc, krange=(-40, 120), maxlen=40)
        if rng.random() < 0.5:
            S, T = T, S
        out.append(_finish(rng, {"cls": "large", "family": "exact", "S": S, "T": T}))
    return out


def _hist_step(rng, S, T, fam="exact", rep=None):
    return {"cls": "step", "family": fam, "S": S, "T": T, "rep": rep or "array"}


def _histories(rng, n):
    """Call histories (harness/history.py): all calls of one history run in one interpreter and equal-valued
    diagrams of different calls are the same objects.
      pairwise : a pool of 3-5 diagrams (among them all-infinite, empty and ordinary ones), distances between
                 ordered pairs of the pool, including a diagram against itself (both arguments one object)
      repeat   : one pair called again and again, then with the arguments exchanged
      fault    : a call with a malformed argument (ragged rows / one-dimensional / text) between clean calls
                 on the same objects"""
    hs = []
    for _ in range(n):
        kind = rng.choice(["pairwise", "pairwise", "repeat", "fault"])
        sc = 2.0 ** rng.randint(-3, 3)
        pool = [_side(rng, rng.choice(SIDE_KINDS), sc) for _ in range(rng.randint(2, 3))]
        pool += [_dgm(rng, rng.randint(1, 4), sc) for _ in range(rng.randint(1, 2))]
        rng.shuffle(pool)
        reps = [rng.choice(REPS) for _ in pool]
        if rng.random() < 0.35:
            # float32 / float16 diagrams whose arithmetic rounds in the narrow type (class narrow), next to the others
            for _ in range(rng.randint(1, 2)):
                dt = rng.choice(["f32", "f16"])
                pool.append(_narrow_dgm(rng, rng.randint(1, 3), dt, rng.choice(NARROW_STYLES)))
                reps.append(dt)
        allx = _exact64([x for P in pool for p in P for x in p])

        def st(i, j):
            c = _hist_step(rng, pool[i], pool[j], fam="exact" if allx else "tol")
            c["repS"], c["repT"] = reps[i], reps[j]
            if rng.random() < 0.3:
                c["flag"] = rng.choice(["pos", "np", "int"])
            if rng.random() < 0.3:
                c["flag_first"] = True
            return c
        k = len(pool)
        if kind == "pairwise":
            pairs = [(i, j) for i in range(k) for j in range(k)]
            rng.shuffle(pairs)
            steps = [st(i, j) for i, j in pairs[:6]]
            i = rng.randrange(k)
            steps.insert(rng.randint(1, len(steps)), st(i, i))
        elif kind == "repeat":
            i, j = rng.randrange(k), rng.randrange(k)
            steps = [st(i, j), st(i, j), st(j, i), st(i, j), st(rng.randrange(k), j)]
        else:
            i, j = rng.randrange(k), rng.randrange(k)
            bad = rng.choice([[[0.0, 1.0], [2.0]], [0.0, 1.0, 2.0], [["a", "b"]], [[0.0, 1.0, 2.0, 3.0]], None])
            f = {"cls": "step", "fault": True, "family": "exact", "S": pool[i], "T": pool[j], "repS": reps[i], "repT": reps[j]}
            winf = [a for a in range(k) if _has_inf(pool[a])]
            if winf and rng.random() < 0.4:
                # the caller runs with warnings turned into errors: the infinite-death warning aborts the call
                i = rng.choice(winf)
                f["S"], f["repS"], f["warn_error"] = pool[i], reps[i], True
            else:
                f["raw" + rng.choice("ST")] = bad
            steps = [st(i, j), f, st(i, j), st(j, i), st(rng.randrange(k), rng.randrange(k))]
        hs.append(history.make(kind, steps))
    return hs


def generate(rng, tier):
    n_cases, maxn = (280, 6) if tier == "quick" else (2800, 16)
    cases = []
    for _ in range(n_cases):
        cls = rng.choice(CLASSES_C01)
        mx = maxn
        if tier != "quick" and rng.random() < 0.7:
            mx = 7          # most thorough cases stay small: ties and empty sides live there
        cases.append(_gen_case(rng, cls, mx, sides=True))
    # decimal-grid pairs are cheap (1-3 points): a dedicated block, because a wrong rounding
    # direction shows on only a few percent of them
    for _ in range(150 if tier == "quick" else 2000):
        cases.append(_gen_case(rng, "decimal", 3, sides=True))
    quick = tier == "quick"
    # float32 / float16 diagrams with rounding arithmetic: small and cheap, a block of their own
    for _ in range(40 if quick else 600):
        cases.append(_gen_case(rng, "narrow", 3, sides=True))
    cases += _degenerate_grid(rng, 1 if quick else 12)
    cases += _large(rng, 4 if quick else 30)
    cases += _histories(rng, 16 if quick else 150)
    return cases


def search_generate(rng, n):
    return [_gen_case(rng, rng.choice(CLASSES_C01), rng.choice([2, 3, 4, 6]), sides=True) for _ in range(n)]


def corpus():
    import json
    out = [
        {"S": [], "T": [], "family": "exact", "rep": "array"},
        {"S": [[0.0, 1.0]], "T": [], "family": "exact", "rep": "list"},
        {"S": [], "T": [[-3.0, -1.0]], "family": "exact", "rep": "array"},
        {"S": [[0.0, 1.0], [2.0, 5.0]], "T": [[0.0, 1.5]], "family": "exact", "rep": "array"},
        # ties among thresholds, a repeated point, a diagonal point
        {"S": [[0.0, 2.0], [0.0, 2.0], [1.0, 1.0]], "T": [[0.0, 2.0], [1.0, 3.0]], "family": "exact", "rep": "array"},
        {"S": [[0.0, 4.0], [1.0, "inf"]], "T": [[0.5, 4.5], [0.0, "inf"], [2.0, "inf"]], "family": "exact", "rep": "array"},
        # the 2x2 regression of the past bisect bug (test_bottleneck)
        {"S": [[0.5, 1.0], [0.6, 1.1]], "T": [[0.5, 1.1], [0.6, 1.3]], "family": "tol", "rep": "array"},
        # equal sizes, different diagonal costs: separates the two off-diagonal blocks
        {"S": [[0.0, 4.0], [0.0, 0.0]], "T": [[0.0, 0.5], [0.0, 4.0]], "family": "exact", "rep": "array"},
        # negative coordinates with an empty side: the placeholder (0,0) must stay neutral
        {"S": [[-7.0, -6.5]], "T": [], "family": "exact", "rep": "array"},
        # decimal coordinates, symmetric widening: the distance is a half-persistence difference up to rounding
        {"S": [[0.0, 1.0]], "T": [[-0.1, 1.1]], "family": "tol", "rep": "array"},
        {"S": [[0.3, 0.9]], "T": [[0.1, 1.1]], "family": "tol", "rep": "array"},
    ]
    d = core.VERIF / "corpus" / PID
    if d.is_dir():
        for p in sorted(d.glob("*.json")):
            try:
                c = json.loads(p.read_text())
                out.append(c.get("case", c))
            except Exception:
                pass
    return out


# ------------------------------------------------------------------------------ exact helpers

def _fr(x):
    return Fr(float(x))


def finite_points(P):
    """Points with finite death, as exact rationals."""
    return [(_fr(b), _fr(d)) for b, d in P if d != "inf" and float(d) not in (float("inf"), float("-inf"))]


def linf(p, q):
    return max(abs(p[0] - q[0]), abs(p[1] - q[1]))


def diagc(p):
    return (p[1] - p[0]) / 2


def brute_bottleneck(S, T):
    """min over ALL partial matchings of the largest cost (exponential; sizes <= 5)."""
    best = [None]
    dT = [diagc(q) for q in T]

    def rec(i, used, cur):
        if best[0] is not None and cur >= best[0]:
            return
        if i == len(S):
            c = cur
            for j in range(len(T)):
                if not (used >> j) & 1:
                    c = max(c, dT[j])
            if best[0] is None or c < best[0]:
                best[0] = c
            return
        rec(i + 1, used, max(cur, diagc(S[i])))
        for j in range(len(T)):
            if not (used >> j) & 1:
                rec(i + 1, used | (1 << j), max(cur, linf(S[i], T[j])))
    rec(0, 0, Fr(0))
    return best[0]


def _kuhn(adj, nright, rows=None):
    """Maximum bipartite matching by augmenting paths.  adj[i] = list of columns.
    Returns (match_of_row dict, match_of_col dict)."""
    mr, mc = {}, {}
    rows = range(len(adj)) if rows is None else rows

    def aug(i, seen):
        for j in adj[i]:
            if j in seen:
                continue
            seen.add(j)
            if j not in mc or aug(mc[j], seen):
                mr[i] = j
                mc[j] = i
                return True
        return False
    import sys
    sys.setrecursionlimit(max(sys.getrecursionlimit(), 10000))
    for i in rows:
        aug(i, set())
    return mr, mc


def poly_bottleneck(S, T):
    """Polynomial exact algorithm, formulated on partial matchings (no augmented matrix):
    a threshold d is feasible iff the points whose diagonal cost exceeds d ("must" points) of S can
    all be matched into T along pairs of cost <= d, and likewise those of T into S
    (Mendelsohn-Dulmage: the two one-sided matchings combine into one).  Binary search over the
    sorted candidate costs."""
    cand = sorted({Fr(0)} | {linf(p, q) for p in S for q in T} | {diagc(p) for p in S} | {diagc(q) for q in T})

    def one_side(A, B, d):
        must = [i for i, p in enumerate(A) if diagc(p) > d]
        adj = [[j for j, q in enumerate(B) if linf(p, q) <= d] for p in A]
        mr, _ = _kuhn(adj, len(B), rows=must)
        return all(i in mr for i in must)

    def feasible(d):
        return one_side(S, T, d) and one_side(T, S, d)
    lo, hi = 0, len(cand) - 1       # cand[hi] is feasible: at the largest cost nobody is a must point ... or all pairs allowed
    if not feasible(cand[hi]):
        raise AssertionError("largest candidate infeasible")
    while lo < hi:
        mid = (lo + hi) // 2
        if feasible(cand[mid]):
            hi = mid
        else:
            lo = mid + 1
    return cand[lo]


_spec_cache = {}


def spec_value(case):
    key = repr((case["S"], case["T"]))
    if key not in _spec_cache:
        _spec_cache[key] = _spec_value(case)
    return _spec_cache[key]


def _spec_value(case):
    S, T = finite_points(case["S"]), finite_points(case["T"])
    v = poly_bottleneck(S, T)
    if len(S) <= 5 and len(T) <= 5:
        b = brute_bottleneck(S, T)
        if b != v:
            raise AssertionError("harness self-check: brute force %s != threshold algorithm %s" % (b, v))
    return v


def _tol(case):
    if case.get("family", "exact") == "exact":
        return Fr(0)
    co = [abs(_fr(x)) for P in (case["S"], case["T"]) for p in P for x in p if x != "inf"]
    return (max(co) if co else Fr(0)) / 2 ** 50


def _has_inf(P):
    return any(d == "inf" for _, d in P)


# ------------------------------------------------------------------------------ implementation

def _arr(P, rep):
    """The diagram P in the requested container / dtype / memory layout (REPS).  Values are never changed:
    a representation that cannot hold them exactly falls back to a float64 array."""
    import numpy as np
    rows = [[float(b), float("inf") if d == "inf" else float(d)] for b, d in P]
    if rep == "list":
        return rows
    if rep == "tuple":
        return tuple(tuple(r) for r in rows)
    if rep == "rows":
        return [np.array(r, dtype=float) for r in rows]
    A = np.array(rows, dtype=float).reshape(-1, 2)
    fin = A[np.isfinite(A)]
    if rep in ("f32", "f16"):
        dt = np.float32 if rep == "f32" else np.float16
        with np.errstate(over="ignore"):
            ok = (fin.astype(dt).astype(float) == fin).all()
        if ok:
            return A.astype(dt)
    elif rep in ("int", "uint"):
        if fin.size == A.size and (fin == np.round(fin)).all() and (np.abs(fin) < 2.0 ** 52).all():
            # the narrowest dtype that holds the values: where differences wrap / overflow first
            lo, hi = (fin.min(), fin.max()) if fin.size else (0, 0)
            if rep == "int":
                for bits, dt in ((7, np.int8), (15, np.int16), (31, np.int32)):
                    if -2 ** bits <= lo and hi < 2 ** bits:
                        return A.astype(dt)
                return A.astype(np.int64)
            if lo >= 0:
                return A.astype(np.uint8 if hi < 2 ** 8 else np.uint16 if hi < 2 ** 16 else np.uint32 if hi < 2 ** 32 else np.uint64)
    elif rep == "fortran":
        return np.asfortranarray(A)
    elif rep == "view":
        big = np.full((2 * A.shape[0] + 1, 5), 777.25)
        big[1::2, 1::3] = A
        return big[1::2, 1::3]
    elif rep == "readonly":
        A.setflags(write=False)
    return A


def _max_matching_size(graph):
    keys = sorted(graph)
    adj = [sorted(graph[k]) for k in keys]
    mr, _ = _kuhn(adj, 0)
    return len(mr)


CASE_TIMEOUT_S = 4.0
MAX_TIMEOUTS = 3


class _CaseTimeout(BaseException):
    pass


def _on_alarm(signum, frame):
    raise _CaseTimeout()


_RUN = {"monitor": {"calls": 0, "bad": None}, "timeouts": 0}


def _reps(c):
    r = c.get("rep", "array")
    return c.get("repS", r), c.get("repT", r)


def _one_call(c, memo):
    """bottleneck(S, T) and bottleneck(S, T, matching=True) on the case's diagrams.  With a memo (call
    histories) equal-valued diagrams in the same representation are the same objects in every call."""
    import sys
    import warnings
    import numpy as np
    bottleneck = sys.modules["persim.bottleneck"].bottleneck
    monitor = _RUN["monitor"]
    monitor["calls"], monitor["bad"] = 0, None
    rS, rT = _reps(c)
    if memo is None:
        S, T = _arr(c["S"], rS), _arr(c["T"], rT)
    else:
        S = history.intern(memo, ["dgm", c["S"], rS], lambda: _arr(c["S"], rS))
        T = history.intern(memo, ["dgm", c["T"], rT], lambda: _arr(c["T"], rT))
    if c.get("fault"):      # a malformed argument; whatever happens, the later calls must be right
        S = c["rawS"] if "rawS" in c else S
        T = c["rawT"] if "rawT" in c else T
    filt = "error" if c.get("warn_error") else "always"
    st = {"d0": None, "msgs": [], "res": None, "flag_err": None, "msgs_m": []}

    def plain():
        with warnings.catch_warnings(record=True) as w:
            warnings.simplefilter(filt)
            st["d0"] = float(bottleneck(S, T))
        st["msgs"] = [str(x.message) for x in w]

    def flagged():
        # the same arguments with the flag set: the distance component is C01's (the property is about the
        # distance returned, whatever the flag); the rows are C06's business and only used by `nontrivial`
        with warnings.catch_warnings(record=True) as wm:
            warnings.simplefilter(filt)
            try:
                flag = c.get("flag", "kw")
                if flag == "pos":
                    st["res"] = bottleneck(S, T, True)
                else:
                    st["res"] = bottleneck(S, T, matching=np.True_ if flag == "np" else 1 if flag == "int" else True)
            except Exception as e:  # noqa  (_CaseTimeout is a BaseException and passes through)
                st["flag_err"] = {"error": type(e).__name__, "msg": str(e)[:200]}
        st["msgs_m"] = [str(x.message) for x in wm]

    # usually the plain call first; "flag_first" exchanges the two (what the first leaves behind meets the second)
    for f in ((flagged, plain) if c.get("flag_first") else (plain, flagged)):
        f()
    d0, msgs, res, flag_err, msgs_m = st["d0"], st["msgs"], st["res"], st["flag_err"], st["msgs_m"]
    d1, rows = None, (dict(flag_err) if flag_err is not None else [])
    if flag_err is None:
        pair = isinstance(res, (tuple, list)) and len(res) == 2
        try:        # whether a matching comes with it is C06's business: the distance is what C01 observes
            d1 = float(res[0] if pair else res)
        except Exception as e:  # noqa
            flag_err = {"error": type(e).__name__, "msg": "distance component of the result: " + str(e)[:160]}
        try:
            rows = [[float(x) for x in r] for r in np.asarray(res[1], dtype=float).reshape(-1, 3)]
        except Exception as e:  # noqa
            rows = {"error": type(e).__name__, "msg": str(e)[:200]}
        # a caller may edit what it got back: a later call of the same history must not depend on it
        history.scribble(res[1] if pair else None)
    out = {"dist": float(d0), "dist_m": d1, "rows": rows,
           "warn1": any("dgm1" in m and "non-finite" in m for m in msgs),
           "warn2": any("dgm2" in m and "non-finite" in m for m in msgs),
           "warn1_m": any("dgm1" in m and "non-finite" in m for m in msgs_m),
           "warn2_m": any("dgm2" in m and "non-finite" in m for m in msgs_m),
           "hk_calls": monitor["calls"], "oracle_bad": monitor["bad"]}
    if flag_err is not None:
        out["flag_error"] = flag_err
    return out


def impl_call(c, memo=None):
    """One guarded call: exceptions and a search that does not terminate become error outputs."""
    import signal
    if _RUN["timeouts"] >= MAX_TIMEOUTS:
        return {"error": "NotRun", "msg": "%d earlier cases of this batch timed out" % _RUN["timeouts"]}
    signal.signal(signal.SIGALRM, _on_alarm)
    signal.setitimer(signal.ITIMER_REAL, CASE_TIMEOUT_S)
    try:
        return _one_call(c, memo)
    except _CaseTimeout:
        _RUN["timeouts"] += 1
        return {"error": "Timeout", "msg": "no result within %g s (the search loop did not terminate)" % CASE_TIMEOUT_S}
    except Exception as e:  # noqa
        return {"error": type(e).__name__, "msg": str(e)[:300]}
    finally:
        signal.setitimer(signal.ITIMER_REAL, 0)


def impl_run(cases):
    import sys
    import persim  # noqa: F401
    pb = sys.modules["persim.bottleneck"]      # `persim.bottleneck` the attribute is the function
    real_hk = pb.HopcroftKarp
    monitor = _RUN["monitor"]
    _RUN["timeouts"] = 0

    class WatchedHK(object):
        def __init__(self, graph):
            self._graph = {k: set(v) for k, v in graph.items()}
            self._inner = real_hk(graph)

        def maximum_matching(self, *a, **k):
            res = self._inner.maximum_matching(*a, **k)
            monitor["calls"] += 1
            try:
                g = self._graph
                left = {k: v for k, v in res.items() if isinstance(k, str)}
                right = {k: v for k, v in res.items() if not isinstance(k, str)}
                okm = (len(left) == len(right) and all(k in g and v in g[k] for k, v in left.items())
                       and all(right.get(v) == k for k, v in left.items())
                       and len(set(left.values())) == len(left))
                if not okm:
                    monitor["bad"] = "result is not a matching of the graph"
                elif len(left) != _max_matching_size(g):
                    monitor["bad"] = "matching of size %d is not maximum (%d)" % (len(left), _max_matching_size(g))
            except Exception as e:  # noqa
                monitor["bad"] = "monitor raised %r" % (e,)
            return res
    pb.HopcroftKarp = WatchedHK
    try:
        return [history.run(c, impl_call) if history.is_hist(c) else impl_call(c) for c in cases]
    finally:
        pb.HopcroftKarp = real_hk


# ------------------------------------------------------------------------------ the spec predicate

def predicate(c, o):
    if history.is_hist(c):
        return history.predicate(c, o, predicate)
    if "error" in o:
        return False, "error: bottleneck raised %s: %s" % (o["error"], o.get("msg"))
    v = spec_value(c)
    d = o["dist"]
    if d != d or d in (float("inf"), float("-inf")):
        return False, "value: returned %r, min-max matching cost is %s" % (d, float(v))
    tol = _tol(c)
    if abs(Fr(d) - v) > tol:
        return False, "value: returned %r, min-max matching cost is %r (%s)" % (d, float(v), v)
    if _has_inf(c["S"]) != bool(o.get("warn1")) or _has_inf(c["T"]) != bool(o.get("warn2")):
        return False, "warning: infinite deaths in (dgm1, dgm2) = (%s, %s) but warnings = (%s, %s)" % (
            _has_inf(c["S"]), _has_inf(c["T"]), o.get("warn1"), o.get("warn2"))
    if o.get("oracle_bad"):
        return False, "oracle-assumption: HopcroftKarp %s" % o["oracle_bad"]
    # the distance component of bottleneck(S, T, matching=True) on the same arguments: the property speaks of
    # the distance returned, whatever the flag (outputs without the key predate this part of the check)
    if "dist_m" in o:
        fe = o.get("flag_error")
        if fe is not None:
            return False, "flag-error: bottleneck(..., matching=True) raised %s: %s (matching=False returned %r)" % (
                fe.get("error"), fe.get("msg"), d)
        dm = o["dist_m"]
        if dm is None or dm != dm or dm in (float("inf"), float("-inf")):
            return False, "flag-value: matching=True returned the distance %r, min-max matching cost is %s" % (dm, float(v))
        if abs(Fr(dm) - v) > tol:
            return False, "flag-value: matching=True returned the distance %r, min-max matching cost is %r (%s); matching=False returned %r" % (
                dm, float(v), v, d)
        if "warn1_m" in o and (_has_inf(c["S"]) != bool(o.get("warn1_m")) or _has_inf(c["T"]) != bool(o.get("warn2_m"))):
            return False, "flag-warning: matching=True, infinite deaths in (dgm1, dgm2) = (%s, %s) but warnings = (%s, %s)" % (
                _has_inf(c["S"]), _has_inf(c["T"]), o.get("warn1_m"), o.get("warn2_m"))
    return True, ""


def nontrivial(c, o):
    if history.is_hist(c):
        return history.nontrivial(c, o, nontrivial)
    if "error" in o:
        return False
    if not finite_points(c["S"]) or not finite_points(c["T"]) or _has_inf(c["S"]) or _has_inf(c["T"]):
        return True
    rows = o.get("rows", [])
    if not isinstance(rows, list):
        rows = []
    cross = any(r[0] >= 0 and r[1] >= 0 for r in rows)
    dg = any(r[0] < 0 or r[1] < 0 for r in rows)
    if cross and dg:
        return True
    S, T = finite_points(c["S"]), finite_points(c["T"])
    costs = [linf(p, q) for p in S for q in T] + [diagc(p) for p in S] + [diagc(q) for q in T]
    return len(set(costs)) < len(costs)


# ------------------------------------------------------------------------------ C06: certificate predicate

def prep_points(P):
    F = finite_points(P)
    return F if F else [(Fr(0), Fr(0))]


def bneck_cert_ok(S, T, dist, rows, tol=0):
    """The C06 certificate predicate for the bottleneck distance, in exact arithmetic.
    S, T: the caller's diagrams (lists of [birth, death], death may be "inf"); an empty (or all-infinite)
    diagram stands for the one-point diagram [(0,0)], index 0.  rows: [[i, j, cost], ...] as returned.
    True iff every index of S occurs exactly once in column 0 and every index of T exactly once in
    column 1 (other entries are -1), no row is (-1,-1), each third entry is the cost of that pairing
    (L-infinity between the two points, (d-b)/2 for a diagonal partner), and the maximum third entry
    equals dist (each comparison within tol; tol=0 is exact)."""
    tol = Fr(tol)
    A, B = prep_points(S), prep_points(T)
    try:
        R = [(Fr(float(r[0])), Fr(float(r[1])), Fr(float(r[2]))) for r in rows]
        dist = Fr(float(dist))
    except (ValueError, OverflowError, TypeError) as e:
        return False, "shape: non-finite entry (%s)" % e
    for (i, j, _) in R:
        if i.denominator != 1 or j.denominator != 1:
            return False, "index: non-integer index in row %s" % ([float(i), float(j)],)
    c0 = sorted(int(i) for i, _, _ in R if i != -1)
    c1 = sorted(int(j) for _, j, _ in R if j != -1)
    if c0 != list(range(len(A))):
        return False, "cover0: column 0 holds %s, expected each of 0..%d once" % (c0, len(A) - 1)
    if c1 != list(range(len(B))):
        return False, "cover1: column 1 holds %s, expected each of 0..%d once" % (c1, len(B) - 1)
    for (i, j, c) in R:
        if i == -1 and j == -1:
            return False, "diagdiag: a (-1,-1) row is present"
        if j == -1:
            want = diagc(A[int(i)])
        elif i == -1:
            want = diagc(B[int(j)])
        else:
            want = linf(A[int(i)], B[int(j)])
        if abs(c - want) > tol:
            return False, "rowcost: row (%d,%d) carries %r, the pairing costs %r" % (int(i), int(j), float(c), float(want))
    mx = max([Fr(0)] + [c for _, _, c in R])
    if abs(mx - dist) > tol:
        return False, "max: largest row cost %r differs from the distance %r" % (float(mx), float(dist))
    return True, ""


# ------------------------------------------------------------------------------ the model, run inside Coq

HEADER = """From Coq Require Import QArith List ZArith.
From Persim Require Import Spec.BottleneckS Spec.BneckCertS Model.BneckM Corr.BneckCorr.
Import ListNotations.
Open Scope Q_scope.
"""


def _coq_xdgm(P):
    return core.coq_list(["(%s, %s)" % (core.coq_Q(_fr(b)), "CInf" if d == "inf" else "CFin " + core.coq_Q(_fr(d)))
                          for b, d in P])


def _coq_nat(n):
    return "%d%%nat" % n


def _coq_pairs(E):
    return core.coq_list(["(%s, %s)" % (_coq_nat(i), _coq_nat(j)) for i, j in E])


def _aug(A, B):
    """The model's matrix in exact arithmetic (None = infinity).  Only used to FIND certificates:
    a mistake here makes the Coq checkers reject them (verdict skip), never accept a wrong value."""
    M, N = len(A), len(B)
    K = M + N
    D = [[None] * K for _ in range(K)]
    for i in range(M):
        for j in range(N):
            D[i][j] = linf(A[i], B[j])
        D[i][N + i] = diagc(A[i])
    for j in range(N):
        D[M + j][j] = diagc(B[j])
        for i in range(M):
            D[M + j][N + i] = Fr(0)
    return D


def certificates(case, vstar):
    """(Estar, X): a perfect matching of the threshold graph at vstar, and a Hall violator of the
    threshold graph at the largest matrix entry below vstar ([] if there is none)."""
    A, B = prep_points(case["S"]), prep_points(case["T"])
    D = _aug(A, B)
    K = len(D)

    def adj(d):
        return [[j for j in range(K) if D[i][j] is not None and D[i][j] <= d] for i in range(K)]
    mr, _ = _kuhn(adj(vstar), K)
    E = sorted(mr.items())
    below = [x for row in D for x in row if x is not None and x < vstar]
    X = []
    if below:
        a = adj(max(below))
        mr2, mc2 = _kuhn(a, K)
        free = [i for i in range(K) if i not in mr2]
        if free:
            seen_r, seen_c, stack = {free[0]}, set(), [free[0]]
            while stack:
                i = stack.pop()
                for j in a[i]:
                    if j not in seen_c:
                        seen_c.add(j)
                        if j in mc2 and mc2[j] not in seen_r:
                            seen_r.add(mc2[j])
                            stack.append(mc2[j])
            X = sorted(seen_r)
    return E, X


def coq_term(case, out):
    v = spec_value(case)
    E, X = certificates(case, v)
    return "check_case %s %s %s %s %s %s %s" % (
        _coq_xdgm(case["S"]), _coq_xdgm(case["T"]), core.coq_Q(Fr(out["dist"])), core.coq_Q(_tol(case)),
        core.coq_Q(v), _coq_pairs(E), core.coq_list([_coq_nat(i) for i in X]))


def coq_cert_term(case, dist, rows, tol=0):
    """Coq bool: the C06 certificate predicate on the implementation's rows (exact rationals)."""
    def z(x):
        return "(%d)%%Z" % int(x)
    rs = core.coq_list(["(%s, %s, %s)" % (z(r[0]), z(r[1]), core.coq_Q(Fr(float(r[2])))) for r in rows])
    return "bneck_cert_case %s %s %s %s %s" % (core.coq_Q(Fr(tol)), _coq_xdgm(case["S"]), _coq_xdgm(case["T"]),
                                              core.coq_Q(Fr(float(dist))), rs)


_cache = {}


def coq_jobs(cases, outs):
    return []


def _judge_units(units):
    """Verdicts for plain (case, out) pairs: the model is run inside Coq on each, once per distinct distance
    the implementation returned (matching=False, and the first component under matching=True)."""
    verdicts = [None] * len(units)
    terms, idx = [], []
    pending, queued = {}, set()
    for i, (c, o) in enumerate(units):
        if "error" in o:
            verdicts[i] = "disagree:implementation raised %s" % o["error"]
            continue
        vals = [("", o["dist"])]
        if "dist_m" in o:
            if o.get("flag_error") is not None or o["dist_m"] is None:
                verdicts[i] = "disagree:implementation raised / returned no distance with matching=True"
                continue
            if repr(o["dist_m"]) != repr(o["dist"]):
                vals.append((" (matching=True)", o["dist_m"]))
        bad = [(w, d) for w, d in vals if d != d or d in (float("inf"), float("-inf"))]
        if bad:
            verdicts[i] = "disagree:implementation returned %r%s, the model a finite value" % (bad[0][1], bad[0][0])
            continue
        ckey = core.sha({k: c[k] for k in ("S", "T", "family") if k in c})
        pending[i] = []
        for w, d in vals:
            key = (ckey, repr(d))
            pending[i].append((key, w, d))
            if key in _cache or key in queued:
                continue
            queued.add(key)
            try:
                terms.append(coq_term(c, {"dist": d}))
                idx.append((i, key))
            except Exception as e:  # noqa
                _cache[key] = "skip:certificate search failed (%r)" % (e,)
    if terms:
        toks, _ = core.eval_cases(PID, HEADER, terms, chunk=max(8, (len(terms) + core.NPROC - 1) // core.NPROC))
        for (i, key), t in zip(idx, toks):
            if t == "Agree":
                v = "agree"
            elif t == "Disagree":
                v = "disagree:model value differs from the implementation's %s" % key[1]
            elif t == "Inconclusive":
                v = "skip:certificates rejected by the verified checkers"
            else:
                v = "disagree:coq evaluation failed"
            _cache[key] = v
    for i, ks in pending.items():
        vs = [(_cache.get(key, "disagree:coq evaluation failed"), w) for key, w, _ in ks]
        worst = ([x for x in vs if x[0].startswith("disagree")] or [x for x in vs if x[0].startswith("skip")] or vs)[0]
        verdicts[i] = worst[0] + (worst[1] if not worst[0].startswith("agree") else "")
    return verdicts


def coq_judge(cases, outs, results):
    """One verdict per case; a call history gets the worst verdict of its (non-fault) steps."""
    units, owner = [], []
    for i, (c, o) in enumerate(zip(cases, outs)):
        if history.is_hist(c):
            for u in history.flatten([c], [o]):
                units.append(u)
                owner.append(i)
        else:
            units.append((c, o))
            owner.append(i)
    uv = _judge_units(units)
    per = {}
    for i, v in zip(owner, uv):
        per.setdefault(i, []).append(v)
    verdicts = []
    for i, c in enumerate(cases):
        vs = per.get(i, [])
        if not history.is_hist(c):
            verdicts.append(vs[0])
            continue
        bad = [v for v in vs if v.startswith("disagree")] or [v for v in vs if v.startswith("skip")]
        if not vs:
            verdicts.append("disagree:history produced no step outputs")
        elif bad:
            verdicts.append(bad[0].replace(":", ":history step: ", 1))
        else:
            verdicts.append("agree")
    return verdicts


def shrink_candidates(c):
    if history.is_hist(c):
        yield from history.shrink(c)
        return
    for side in ("S", "T"):
        P = c[side]
        for j in range(len(P)):
            d = dict(c)
            d[side] = P[:j] + P[j + 1:]
            yield d
    # the default spelling of the flag / order of the two calls
    if c.get("flag") or c.get("flag_first"):
        yield {k: v for k, v in c.items() if k not in ("flag", "flag_first")}
    # the plain representation: tells a value effect from a container / dtype / layout effect
    if any(c.get(k, "array") != "array" for k in ("rep", "repS", "repT")):
        d = {k: v for k, v in c.items() if k not in ("repS", "repT")}
        d["rep"] = "array"
        yield d
    for side in ("S", "T"):
        P = c[side]
        for j in range(len(P)):
            for k in (0, 1):
                x = P[j][k]
                if x != "inf" and float(x) != round(float(x)):
                    d = dict(c)
                    Q = [list(p) for p in P]
                    Q[j][k] = float(round(float(x)))
                    if Q[j][1] != "inf" and Q[j][0] > Q[j][1]:
                        continue
                    d[side] = Q
                    yield d
