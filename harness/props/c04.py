"""C04 - persistence image pixels are weighted kernel mass over each pixel.
Model: coq/Model/ImageM.v (over R, kernel/Phi abstract), run inside Coq with Phi := the normal CDF
as an integral and the kernels of Model/KernelM.v (Corr/ImageCorr.v): per-case kernel-checked
certificates |model pixel - implementation pixel| <= 1e-9 (integral_intro + interval).
Independent spec predicate: every pixel against sum_points weight * kernel mass of the pixel's
rectangle, the mass computed by a reference that shares nothing with persim (erf products,
1-D adaptive quadrature of the conditional normal for correlated kernels, exact area fractions
for the uniform box)."""
import math
from fractions import Fraction

from .. import core

PID = "C04"
THEOREMS = [
    "transform_is_weighted_mass", "transform_is_spec_image", "fast_path_eq_general",
    "linear_ramp_spec", "persistence_weight_spec",
    "image_on_imager_state", "history_then_transform", "fast_path_eq_general_kernelM",
]
RULE = ("seeded generator over kernel classes {isotropic scalar sigma, isotropic 2x2 sigma (fast path), "
        "axis-aligned sxx != syy (general path), correlated |r| < 0.3 / < 0.75 / < 0.925 / >= 0.925 (both signs), "
        "uniform box} x weights {persistence n=1,2,3 and real n, linear_ramp (all three branches), user weight} x "
        "point placement {inside, on a mesh node / region border, outside the region} x skew in {True, False} x "
        "NEGATIVE weights of three kinds (pair below the diagonal under persistence with odd n, linear_ramp with low < 0, signed user weight; spec = signed sum of weight x mass); collections through transform(..., n_jobs=1/2) - the joblib branch - with skew=False and True, every returned image checked (a fifth of the plain cases also pass n_jobs=1); multi-step HISTORIES on one imager (transform; window moved at equal pixel count by the range setters or by fit on shifted data; transform; pixel_size doubled and restored; transform; in the fit_same variant the array given to fit is the SAME OBJECT that is transformed under the old window, right after the fit and again after the pixel-size round trip - equal-valued diagrams of one history are interned - and every array transform returned is overwritten with NaN once its values have been read) with general-path and fast-path kernels, every transform checked against the grid read from the public attributes birth_range / pers_range / pixel_size / resolution at that moment (the Coq run covers the last transform); an input-container class {float64 array, int64 array, nested list of ints, nested list of floats} x {linear_ramp with fractional low/high/start/end, persistence n in {1, 2, 1.5}, user callable} on integer-valued points; a UNIT class - magnitudes of the PARAMETERS: dyadic unit-scale cases (mixed placement) re-expressed in the units 2^-13 .. 2^-24 and 1e-4, 3e-5, 1e-5, 1e-6 (covariance entries 1e-8 .. 1e-15, box sides, ramp knots, window and pixel size of the order of the unit; one case in eight in the units 2^10, 1e3, 2^20) over kernels {axis-aligned, correlated in all four bands, uniform box, isotropic scalar / 2x2 as controls} x weights whose VALUES stay of order one so that the 1e-9 tolerance keeps its meaning {linear_ramp with scaled knots, user, persistence n=1 only for units >= 1e-5}, half of the 2x2 covariances handed over as nested lists (the axis-aligned / uniform / isotropic ones also go through the Coq run); a NEAR-ISOTROPIC class - 2x2 covariances whose variances differ by a relative 2e-7 .. 8e-6 and / or with a covariance of that relative order (they belong to the general path; treated as isotropic the pixels are off by ~1e-7); SIZE classes - (bulk) diagrams of block + remainder pairs for the blocks 32 .. 4096 (quick: above 1024, 2048 and 4096 on the isotropic fast path AND on the general path - axis-aligned, uniform, correlated -, plus 64 / 256 / 512 and 2 x 1024; never a multiple of a listed block nor of 16), random-double pairs in and around the window, on mesh nodes and far outside, all weights positive, handed over as float64 array / nested list / column-major array / non-contiguous two-column view of a wider array; (bulkhist) three diagrams of decreasing size (block + remainders, then 3-9 pairs) and the first one again through ONE imager, as successive calls or as one collection (n_jobs None / 2); (biggrid) 1-3 pairs on grids whose pixel or corner count is just above 512 / 1024 (thorough: 2048 / 4096), long thin ones included; in these three classes EVERY pixel is compared with the independent reference and the Coq certificate is not attempted (more than 8 pairs or 16 pixels: verdict skip); otherwise resolutions {2x2, 2x3, 3x2} (thorough: up to 3x4 / 4x3) with 1-2 points (thorough: up to 4), dyadic and "
        "random-double coordinates; the Coq model run covers isotropic / axis-aligned / uniform kernels, the "
        "correlated Gaussian is covered by the independent predicate only (verdict skip); a case is non-trivial "
        "when the image has two pixels that differ by more than 1e-9 and a pixel above 1e-9 in magnitude; "
        "distinct = distinct JSON input")
TRUSTED_BASE = [
    "harness/src2coq.py (weight_regen): its reading of the loop body of images_weights.linear_ramp as a real-valued function "
    "of one pair (regenerated obligation regen_linear_ramp, proved by Corr/RegenTac.v: conversion / case analysis / ring)",
    "Coq 8.16.1 kernel (vm_compute inside the Interval tactic's reflexive checker; no native_compute)",
    "stdlib axioms of the classical reals: ClassicalDedekindReals.sig_forall_dec, sig_not_dec, "
    "FunctionalExtensionality.functional_extensionality_dep, Classical_Prop.classic",
    "coq-interval + Coquelicot (per-case certificates) incl. primitive-float/int63 specification axioms of the stdlib",
    "hand-written model Model/ImageM.v of images.py:_transform / transform and images_weights.py; "
    "Model/KernelM.v (C13) for the kernels used in the runs",
    "harness: generator, float->exact-rational printer, the numeric reference of the predicate "
    "(math.erf, scipy.integrate.quad, exact Fractions)",
]
ASSUMPTIONS = [
    "Phi (scipy erfc) and images_kernels.gaussian are section variables of the theorems; the runs instantiate "
    "Phi with 1/2 + 1/sqrt(2 pi) * RInt exp(-t^2/2) 0 x",
    "the pixel grid handed to the model and to the predicate is lo + i * pixel_size read from the public attributes at the moment of each transform (its construction is C12's model)",
    "numpy semantics of broadcasting, slicing and += are as modelled",
    "binary64 rounding of the implementation is bounded by the 1e-9 tolerance, not proved",
    "per-pixel agreement with the true Gaussian mass is certified on the sampled cases only (a test, not a theorem)",
    "diagrams of more than 8 pairs and grids of more than 16 pixels are judged by the independent predicate alone (no Coq certificate)",
]
TOL = 1e-9
COQ_DEPS = ["Corr/ImageCorr.vo", "Corr/RegenTac.vo"]


EXTRA_OBLIGATIONS_ASYNC = True    # compiled while the correspondence runs


def extra_obligations(tier):
    """Second tie (DESIGN 12.7): images_weights.linear_ramp is re-translated from the current source to a real-valued
    Gallina function and must be provably equal to Model/ImageM.v's linear_ramp; `persistence` must still read
    `pers ** n`.  (The kernels are regenerated by C13's check, the imager geometry by C12's.)"""
    from .. import src2coq
    return src2coq.check_regen(PID, "weights", src2coq.weight_regen, core.REPO)
COQ_TIMEOUT = 600


# ---- user weight (a plain Python function, handed to the imager as a callable) ---------------
def user_weight_signed(birth, pers):
    """A user weight that takes both signs."""
    return 0.5 * pers - birth + 0.125


def user_weight(birth, pers, a=0.25, c=0.5):
    return a + c * pers + birth * birth


# ---- generator -------------------------------------------------------------------------------
def _dy(rng, lo, hi, den=16):
    return rng.randint(int(lo * den), int(hi * den)) / den


def _kernel(rng, kcls):
    if kcls == "iso_scalar":
        return {"type": "gauss_scalar", "s": rng.choice([0.25, 1.0, 0.0625, rng.uniform(0.02, 2.0)])}
    if kcls == "iso_matrix":
        s = rng.choice([0.25, 1.0, rng.uniform(0.02, 2.0)])
        return {"type": "gauss_matrix", "sxx": s, "sxy": 0.0, "syy": s}
    if kcls == "axis":
        sxx = rng.choice([0.25, 1.0, rng.uniform(0.02, 2.0)])
        syy = rng.choice([0.5, 0.04, rng.uniform(0.02, 2.0)])
        if sxx == syy:
            syy = sxx * 2
        return {"type": "gauss_matrix", "sxx": sxx, "sxy": 0.0, "syy": syy}
    if kcls.startswith("corr"):
        lo, hi = {"corr_lo": (0.02, 0.29), "corr_mid": (0.31, 0.74), "corr_hi": (0.76, 0.92),
                  "corr_top": (0.925, 0.995)}[kcls]
        r = rng.uniform(lo, hi) * rng.choice([-1, 1])
        sxx = rng.choice([0.25, 1.0, rng.uniform(0.05, 2.0)])
        syy = rng.choice([0.5, 1.0, rng.uniform(0.05, 2.0)])
        return {"type": "gauss_matrix", "sxx": sxx, "sxy": r * math.sqrt(sxx * syy), "syy": syy}
    if kcls == "uniform":
        return {"type": "uniform", "width": rng.choice([0.5, 1.0, 0.75, rng.uniform(0.1, 2.0)]),
                "height": rng.choice([0.5, 1.0, 0.25, rng.uniform(0.1, 2.0)])}
    raise ValueError(kcls)


def _weight(rng, wcls):
    if wcls == "pers_nat":
        return {"type": "persistence", "n": float(rng.choice([1, 1, 2, 3]))}
    if wcls == "pers_real":
        return {"type": "persistence", "n": rng.choice([0.5, 1.5, rng.uniform(0.3, 2.5)])}
    if wcls == "ramp":
        start = rng.choice([0.0, 0.25, rng.uniform(0, 0.5)])
        end = start + rng.choice([0.5, 1.0, rng.uniform(0.2, 1.5)])
        low = rng.choice([0.0, 0.5, rng.uniform(0, 1)])
        high = low + rng.choice([1.0, 2.0, rng.uniform(0.1, 3)])
        return {"type": "linear_ramp", "low": low, "high": high, "start": start, "end": end}
    return {"type": "user"}


def _case(rng, kcls, wcls, place, res, npts, dyadic, skew):
    ps = rng.choice([0.5, 0.25, 1.0]) if dyadic else rng.choice([0.5, rng.uniform(0.2, 1.0)])
    blo = _dy(rng, -1, 1) if dyadic else rng.uniform(-1, 1)
    plo = _dy(rng, 0, 1) if dyadic else rng.uniform(0, 1)
    br = [blo, blo + res[0] * ps]
    pr = [plo, plo + res[1] * ps]
    pts = []
    for _ in range(npts):
        pl = place if place != "mixed" else rng.choice(["inside", "border", "outside"])
        if pl == "inside":
            b = rng.uniform(br[0], br[1]); p = rng.uniform(pr[0], pr[1])
            if dyadic:
                b = round(b * 64) / 64; p = round(p * 64) / 64
        elif pl == "border":
            b = br[0] + rng.randint(0, res[0]) * ps
            p = pr[0] + rng.randint(0, res[1]) * ps
            if rng.random() < 0.5:
                b = rng.uniform(br[0], br[1]) if not dyadic else round(rng.uniform(br[0], br[1]) * 64) / 64
        else:
            b = rng.choice([br[0] - rng.uniform(0.1, 1.5), br[1] + rng.uniform(0.1, 1.5), rng.uniform(br[0], br[1])])
            p = rng.choice([pr[1] + rng.uniform(0.1, 1.5), max(pr[0] - rng.uniform(0.1, 1.5), 0.015625)])
            if dyadic:
                b = round(b * 64) / 64; p = round(p * 64) / 64
        if wcls == "pers_real" and p <= 0:
            p = 0.125
        pts.append([b, (p + b) if skew else p])
    return {"cls": "%s/%s/%s" % (kcls, wcls, place), "birth_range": br, "pers_range": pr, "pixel_size": ps,
            "kernel": _kernel(rng, kcls), "weight": _weight(rng, wcls), "skew": skew, "dgm": pts,
            "container": "list_float" if rng.random() < 0.25 else "f64",
            "n_jobs": 1 if rng.random() < 0.2 else None}


KCLS_COQ = ["iso_scalar", "iso_matrix", "axis", "uniform"]
KCLS_CORR = ["corr_lo", "corr_mid", "corr_hi", "corr_top"]
WCLS = ["pers_nat", "pers_real", "ramp", "user"]
PLACES = ["inside", "border", "outside", "mixed"]


CONTAINERS = ["f64", "i64", "list_int", "list_float"]
# weights of the input-container class: linear_ramp with fractional low/high/start/end (an integer-typed
# weight array would truncate 0.25 -> 0, 1.375 -> 1), persistence n in {1, 2, 1.5}, the user callable
CONT_WEIGHTS = [
    {"type": "linear_ramp", "low": 0.25, "high": 1.375, "start": 0.5, "end": 2.5},
    {"type": "persistence", "n": 1.0},
    {"type": "persistence", "n": 2.0},
    {"type": "persistence", "n": 1.5},
    {"type": "user"},
]


def _container_case(rng, container, weight, kcls, npts):
    """Integer-valued points handed over as float64 array / int64 array / nested list of ints / of floats."""
    res = rng.choice([(2, 2), (2, 3), (3, 2)])
    ps = rng.choice([1.0, 1.0, 0.5])
    blo = float(rng.randint(-1, 1))
    plo = float(rng.randint(0, 1))
    br = [blo, blo + res[0] * ps]
    pr = [plo, plo + res[1] * ps]
    skew = rng.random() < 0.6
    pts = []
    for k in range(npts):
        b = float(rng.randint(int(br[0]) - 1, int(math.ceil(br[1])) + 1))
        p = float(rng.randint(0, 4)) if k else float(rng.choice([0, 1, 2, 3]))
        pts.append([b, (b + p) if skew else p])
    w = dict(weight)
    if w["type"] == "linear_ramp" and rng.random() < 0.5:
        w = {"type": "linear_ramp", "low": rng.choice([0.25, 0.5, 0.75]), "high": rng.choice([1.375, 2.5, 1.25]),
             "start": rng.choice([0.5, 0.25, 1.5]), "end": rng.choice([2.5, 3.5, 2.25])}
    return {"cls": "container/%s/%s/%s" % (container, w["type"] + str(w.get("n", "")), kcls),
            "birth_range": br, "pers_range": pr, "pixel_size": ps, "kernel": _kernel(rng, kcls), "weight": w,
            "skew": skew, "dgm": pts, "container": container}


def container_cases(rng, reps=1):
    out = []
    kc = ["uniform", "iso_scalar", "axis", "corr_mid", "uniform", "iso_matrix", "corr_top", "uniform"]
    k = 0
    for _ in range(reps):
        for container in CONTAINERS:
            for w in CONT_WEIGHTS:
                # all four ramp branches need >= 2 points; the first point has persistence in 0..3
                out.append(_container_case(rng, container, w, kc[k % len(kc)], 2 if w["type"] == "linear_ramp" else rng.randint(1, 2)))
                k += 1
    return out


HIST_KERNELS = ["uniform", "axis", "corr_mid", "uniform", "iso_scalar", "axis", "corr_top", "iso_matrix"]


def _history_case(rng, kcls, wcls, variant):
    """transform -> move the window at equal pixel count (setter, or fit on shifted data) -> transform ->
    pixel_size there and back -> transform; all coordinates dyadic so that the pixel counts are exact."""
    res = rng.choice([(2, 2), (2, 3), (3, 2)])
    ps = rng.choice([0.5, 0.25, 1.0])
    blo, plo = _dy(rng, -1, 1), _dy(rng, 0, 1)
    skew = rng.random() < 0.6
    base = _case(rng, kcls, wcls, "inside", res, 1, True, skew)
    k, w = base["kernel"], base["weight"]

    def pts_in(lo_b, lo_p, n):
        out = []
        for _ in range(n):
            b = lo_b + rng.randint(0, res[0] * 8) * ps / 8
            p = lo_p + rng.randint(1, res[1] * 8) * ps / 8
            out.append([b, (b + p) if skew else p])
        return out
    db = rng.choice([-3, -1, 1, 2, 5]) * ps * rng.choice([0.5, 1.0, 1.5])
    dp = rng.choice([0, 1, 2, 3]) * ps * rng.choice([0.5, 1.0])
    nb_lo, np_lo = blo + db, plo + dp
    hist = [{"op": "transform", "dgm": pts_in(blo, plo, rng.randint(1, 2))}]
    if variant == "setter":
        hist.append({"op": "birth_range", "val": [nb_lo, nb_lo + res[0] * ps]})
        if dp:
            hist.append({"op": "pers_range", "val": [np_lo, np_lo + res[1] * ps]})
    else:   # fit on shifted data spanning exactly the same number of pixels
        b1, p1 = nb_lo + res[0] * ps, np_lo + res[1] * ps
        fd = [[nb_lo, (nb_lo + np_lo) if skew else np_lo], [b1, (b1 + p1) if skew else p1]]
        if variant == "fit_same":
            # the array handed to fit is THE SAME OBJECT that is transformed before the fit (old window), right after
            # it and once more after the pixel-size round trip (equal-valued diagrams of one history are interned)
            fd = fd + pts_in(nb_lo, np_lo, 1)
            hist.append({"op": "transform", "dgm": fd})
        hist.append({"op": "fit", "dgm": fd})
    hist.append({"op": "transform", "dgm": fd if variant == "fit_same" else pts_in(nb_lo, np_lo, rng.randint(1, 2))})
    hist.append({"op": "pixel_size", "val": 2 * ps})
    hist.append({"op": "pixel_size", "val": ps})
    last = fd if variant == "fit_same" else pts_in(nb_lo, np_lo, 1)
    hist.append({"op": "transform", "dgm": last})
    return {"cls": "history/%s/%s/%s" % (variant, kcls, wcls), "birth_range": [blo, blo + res[0] * ps],
            "pers_range": [plo, plo + res[1] * ps], "pixel_size": ps, "kernel": k, "weight": w, "skew": skew,
            "dgm": last, "history": hist, "container": "f64"}


NEG_KERNELS = ["uniform", "iso_scalar", "corr_mid", "axis", "uniform", "iso_matrix", "corr_top", "uniform", "iso_scalar"]


def _neg_case(rng, kind, kcls):
    """Pairs of NEGATIVE weight: below the diagonal under persistence with odd n, linear_ramp with low < 0,
    a signed user weight.  The spec is still the signed sum of weight x mass."""
    res = rng.choice([(2, 2), (2, 3), (3, 2)])
    ps = rng.choice([0.5, 0.25, 1.0])
    blo = _dy(rng, -1, 1)
    plo = -rng.randint(1, res[1]) * ps + rng.choice([0.0, ps / 2])       # the window reaches below persistence 0
    skew = rng.random() < 0.6
    base = _case(rng, kcls, "pers_nat", "inside", res, 1, True, skew)

    def pt(p):
        b = blo + rng.randint(0, res[0] * 8) * ps / 8
        return [b, (b + p) if skew else p]
    if kind == "pers_odd":
        w = {"type": "persistence", "n": float(rng.choice([1, 3]))}
        pts = [pt(-rng.randint(1, 8) * ps / 8)]
    elif kind == "ramp_neg":
        w = {"type": "linear_ramp", "low": -rng.choice([0.75, 0.5, 1.25]), "high": rng.choice([0.5, -0.125, 1.0]),
             "start": rng.choice([0.0, 0.25, -0.25]), "end": rng.choice([1.0, 0.75])}
        pts = [pt(w["start"] - rng.randint(1, 6) * ps / 8)]              # weight = low < 0
        if rng.random() < 0.5:
            pts.append(pt(w["start"] + 0.0625))                          # just inside the ramp, still negative
    else:
        w = {"type": "user_signed"}
        pts = [[blo + res[0] * ps, 0.0]]                                 # weight 0.5 p - b + 0.125
        b = pts[0][0]
        pts[0] = [b, (b - 0.25) if skew else -0.25]
    if rng.random() < 0.6:
        pts.insert(rng.randint(0, len(pts)), pt(rng.randint(1, 8) * ps / 8 + max(0.0, w.get("end", 0.0))))   # a positive one too
    return {"cls": "negweight/%s/%s" % (kind, kcls), "birth_range": [blo, blo + res[0] * ps],
            "pers_range": [plo, plo + res[1] * ps], "pixel_size": ps, "kernel": base["kernel"], "weight": w,
            "skew": skew, "dgm": pts, "container": "f64"}


def negweight_cases(rng, n):
    kinds = ["pers_odd", "ramp_neg", "user_signed"]
    return [_neg_case(rng, kinds[i % 3], NEG_KERNELS[i % len(NEG_KERNELS)]) for i in range(n)]


def _parallel_case(rng, i):
    """A collection through transform(..., n_jobs=1/2) - the joblib branch - mostly with skew=False."""
    kcls = ["uniform", "iso_scalar", "axis", "corr_mid", "iso_matrix", "uniform"][i % 6]
    wcls = ["pers_nat", "ramp", "user"][i % 3]
    res = rng.choice([(2, 2), (2, 3), (3, 2)])
    skew = (i % 3 == 2)
    base = _case(rng, kcls, wcls, "inside", res, 1, True, skew)
    dgms = [_case(rng, kcls, wcls, "inside", res, rng.randint(1, 2), True, skew) for _ in range(rng.randint(2, 3))]
    # re-centre every diagram on base's window (birth >= 0.25 so that a second skew conversion shows)
    out = []
    for g in dgms:
        pts = []
        for b, d in g["dgm"]:
            p = (d - b) if skew else d
            b2 = b - g["birth_range"][0] + base["birth_range"][0]
            p2 = p - g["pers_range"][0] + base["pers_range"][0]
            pts.append([b2, (b2 + p2) if skew else p2])
        out.append(pts)
    c = {k: base[k] for k in ("birth_range", "pers_range", "pixel_size", "kernel", "weight")}
    c.update(cls="parallel/n_jobs=%d/skew=%s/%s" % ([1, 2][i % 2], skew, kcls), skew=skew, dgm=out[-1], container="f64",
             history=[{"op": "transform_coll", "dgms": out, "n_jobs": [1, 2][i % 2]}])
    return c


def parallel_cases(rng, n):
    return [_parallel_case(rng, i) for i in range(n)]


def history_cases(rng, n):
    return [_history_case(rng, HIST_KERNELS[i % len(HIST_KERNELS)], ["pers_nat", "ramp", "user", "pers_nat"][i % 4],
                          ["setter", "fit", "setter", "fit_same"][(i + i // 8) % 4]) for i in range(n)]


# ---- magnitudes of the PARAMETERS: the same geometry measured in another unit ---------------------
# dyadic units keep every scaled quantity exact (the implementation's arithmetic is then the unit-scale one,
# bit for bit); decimal units are what a user would write (1e-4 = tenths of a millimetre in metres)
UNITS_SMALL_DY = [2.0 ** -13, 2.0 ** -15, 2.0 ** -17, 2.0 ** -20, 2.0 ** -24]
UNITS_SMALL_DEC = [1e-4, 3e-5, 1e-5, 1e-6]
UNITS_LARGE = [2.0 ** 10, 1e3, 2.0 ** 20]
UNIT_KERNELS = ["axis", "corr_mid", "uniform", "corr_lo", "axis", "corr_top", "corr_hi", "iso_matrix", "iso_scalar"]    # 9: coprime to the weight / unit cycles
UNIT_WEIGHTS = ["ramp", "user", "ramp", "pers_nat", "ramp"]    # 5: coprime to the kernel / unit cycles


def _rescale(c, s):
    """The case c with every LENGTH multiplied by s: window, pixel size, pairs, ramp start/end, box width/height;
    covariance entries by s*s.  Weights values (low/high, the user function, the exponent n) are left alone."""
    d = dict(c)
    d["birth_range"] = [x * s for x in c["birth_range"]]
    d["pers_range"] = [x * s for x in c["pers_range"]]
    d["pixel_size"] = c["pixel_size"] * s
    d["dgm"] = [[b * s, e * s] for b, e in c["dgm"]]
    k = dict(c["kernel"])
    if k["type"] == "gauss_scalar":
        k["s"] = k["s"] * s * s
    elif k["type"] == "gauss_matrix":
        for key in ("sxx", "sxy", "syy"):
            k[key] = k[key] * s * s
    else:
        k["width"], k["height"] = k["width"] * s, k["height"] * s
    d["kernel"] = k
    w = dict(c["weight"])
    if w["type"] == "linear_ramp":
        w["start"], w["end"] = w["start"] * s, w["end"] * s
    d["weight"] = w
    d["unit"] = s
    return d


def _unit_case(rng, kcls, wcls, unit):
    """A unit-scale case (dyadic coordinates, mixed placement) re-expressed in the unit `unit`: kernel variances /
    covariances of order unit**2 (1e-8 .. 1e-15, or 1e6 .. 1e12), box sides and ramp knots of order unit."""
    if wcls == "pers_nat" and unit < 1e-5:
        wcls = "ramp"                       # p ** n would push every pixel under the absolute tolerance
    if wcls in ("user", "pers_nat", "pers_real") and unit > 1:
        wcls = "ramp"                       # weights of order unit (persistence) or unit**2 (user) put the pixels far above 1:
                                            # outside the certificate's absolute 1e-9 (seen in the thorough tier at unit 2^20)
    res = rng.choice([(2, 2), (2, 3), (3, 2)])
    base = _case(rng, kcls, wcls, rng.choice(["inside", "mixed", "border"]), res, rng.randint(1, 2), True,
                 rng.random() < 0.6)
    if base["weight"]["type"] == "linear_ramp" and base["weight"]["low"] == 0.0:
        base["weight"]["low"] = 0.375       # keep the pairs below the ramp visible
    if base["weight"]["type"] == "persistence":
        base["weight"]["n"] = 1.0
    base["n_jobs"] = None
    base["container"] = "f64"
    c = _rescale(base, unit)
    if c["kernel"]["type"] == "gauss_matrix" and rng.random() < 0.5:
        c["kernel"]["sigma_as"] = "list"    # the covariance as a nested list, as in the documentation's examples
    c["cls"] = "unit/%s/%s/%s" % ("small" if unit < 1 else "large", kcls, c["weight"]["type"])
    return c


def unit_cases(rng, n):
    out = []
    for i in range(n):
        if i % 8 == 7:
            unit = rng.choice(UNITS_LARGE)
        elif i % 2 == 0:
            unit = rng.choice(UNITS_SMALL_DEC)
        else:
            unit = rng.choice(UNITS_SMALL_DY)
        out.append(_unit_case(rng, UNIT_KERNELS[i % len(UNIT_KERNELS)], UNIT_WEIGHTS[i % len(UNIT_WEIGHTS)], unit))
    return out


NEAR_EPS = [2.0 ** -18, 1e-6, 5e-6, 2.0 ** -21, 8e-6]


def _near_iso_case(rng, kind):
    """Gaussian kernels that are ALMOST isotropic: variances that differ by a relative 2e-7 .. 8e-6 and / or a
    correlation of that order.  They belong to the general path; treated as isotropic they are off by ~1e-7."""
    res = rng.choice([(2, 2), (2, 3), (3, 2)])
    base = _case(rng, "iso_matrix", rng.choice(["ramp", "user", "pers_nat"]), rng.choice(["inside", "mixed"]), res,
                 rng.randint(1, 2), True, rng.random() < 0.6)
    base["kernel"]["sxx"] = base["kernel"]["syy"] = v = rng.choice([0.25, 1.0, 0.0625, 0.5])
    if base["weight"]["type"] == "linear_ramp" and base["weight"]["low"] == 0.0:
        base["weight"]["low"] = 0.375
    eps = rng.choice(NEAR_EPS)
    k = base["kernel"]
    if kind in ("var", "both"):
        k[rng.choice(["sxx", "syy"])] = v * (1.0 + eps * rng.choice([1, -1]))
    if kind in ("cov", "both"):
        k["sxy"] = v * rng.choice(NEAR_EPS) * rng.choice([1, -1])
    base["n_jobs"] = None
    base["cls"] = "near_iso/%s/%s" % (kind, base["weight"]["type"])
    return base


def near_iso_cases(rng, n):
    return [_near_iso_case(rng, ["var", "cov", "var", "both"][i % 4]) for i in range(n)]


# ---- SIZE classes: diagrams / grids just above typical block sizes -------------------------------
# An implementation that accumulates the pairs (or the mesh corners) a block at a time is right on every small input and on
# every multiple of its block; what is left over shows only when the size is a block plus a remainder.
BLOCKS = [32, 48, 64, 100, 128, 256, 500, 512, 1000, 1024, 2048, 4096]
BULK_LIMIT_PTS, BULK_LIMIT_PIX = 8, 16      # above either, the case is judged by the independent predicate only
BULK_CONTAINERS = ["f64", "f64", "list_float", "f64_fortran", "f64_view"]


def _bulk_n(rng, block, mult=1):
    """mult * block + remainder, never a multiple of any listed block size (nor of 16)."""
    while True:
        n = block * mult + rng.randint(1, max(2, block // 3))
        if n % 16 and all(n % b for b in BLOCKS):
            return n


def _bulk_points(rng, br, pr, ps, res, n, skew):
    """n pairs with random-double coordinates: most in and around the window, a tenth on mesh nodes, a tenth far outside;
    persistence kept positive so that every weight is positive and the pixel sums are well conditioned."""
    wb, wp = br[1] - br[0], pr[1] - pr[0]
    pts = []
    for _ in range(n):
        u = rng.random()
        if u < 0.8:
            b = rng.uniform(br[0] - 0.3 * wb, br[1] + 0.3 * wb); p = rng.uniform(pr[0] - 0.3 * wp, pr[1] + 0.3 * wp)
        elif u < 0.9:
            b = br[0] + rng.randint(0, res[0]) * ps; p = pr[0] + rng.randint(0, res[1]) * ps
        else:
            b = rng.choice([br[0] - rng.uniform(0.5, 1.5) * wb, br[1] + rng.uniform(0.5, 1.5) * wb])
            p = pr[1] + rng.uniform(0.1, 1.5) * wp
        if p < 0.015625:
            p = 0.015625 + 0.125 * rng.random()
        pts.append([b, (p + b) if skew else p])
    return pts


def _bulk_case(rng, kcls, wcls, n, res=None):
    """A diagram of n pairs (n just above a block size) on a small grid."""
    res = res or rng.choice([(2, 2), (2, 3), (3, 2)])
    skew = rng.random() < 0.6
    base = _case(rng, kcls, wcls, "inside", res, 1, rng.random() < 0.5, skew)
    if base["weight"]["type"] == "linear_ramp" and base["weight"]["low"] == 0.0:
        base["weight"]["low"] = 0.375
    base["dgm"] = _bulk_points(rng, base["birth_range"], base["pers_range"], base["pixel_size"], res, n, skew)
    base["container"] = rng.choice(BULK_CONTAINERS)
    base["n_jobs"] = None
    base["cls"] = "bulk/%s/%s/n>%d" % (kcls, base["weight"]["type"], max([b for b in BLOCKS if b < n] or [0]))
    return base


def _bulk_history(rng, kcls, wcls, sizes, coll=False):
    """Diagrams of different sizes through ONE imager, the larger ones first, the first one (same object) once more at
    the end: whatever a call leaves behind in a work array shows in the next, shorter, one."""
    res = rng.choice([(2, 2), (2, 3), (3, 2)])
    c = _bulk_case(rng, kcls, wcls, sizes[0], res)
    dgms = [c["dgm"]] + [_bulk_points(rng, c["birth_range"], c["pers_range"], c["pixel_size"], res, m, c["skew"])
                         for m in sizes[1:]]
    c["container"] = "f64"
    if coll:
        c["history"] = [{"op": "transform_coll", "dgms": dgms + [dgms[0]], "n_jobs": coll if coll > 0 else None}]
    else:
        c["history"] = [{"op": "transform", "dgm": g} for g in dgms + [dgms[0]]]
    c["cls"] = "bulkhist/%s/%s/%s" % ("coll" if coll else "seq", kcls, c["weight"]["type"])
    return c


# (pixels, corners) just above 512 / 1024 / 2048 / 4096 in one of the two counts; long thin grids too
RES_BIG_QUICK = [(22, 23), (23, 22), (17, 31), (31, 33), (33, 31), (2, 257), (257, 3)]
RES_BIG_THOROUGH = RES_BIG_QUICK + [(45, 46), (64, 65), (65, 63), (3, 683), (129, 8)]


def _grid_case(rng, kcls, wcls, res, npts):
    """Few pairs on a grid whose pixel / corner count is just above a block size; every pixel is checked."""
    skew = rng.random() < 0.6
    ps = rng.choice([0.0625, 0.125, rng.uniform(0.05, 0.15)]) if max(res) < 100 else rng.choice([0.015625, rng.uniform(0.01, 0.02)])
    blo, plo = _dy(rng, -1, 1), _dy(rng, 0, 1)
    br, pr = [blo, blo + res[0] * ps], [plo, plo + res[1] * ps]
    base = _case(rng, kcls, wcls, "inside", (2, 2), 1, True, skew)
    if base["weight"]["type"] == "linear_ramp" and base["weight"]["low"] == 0.0:
        base["weight"]["low"] = 0.375
    base.update(birth_range=br, pers_range=pr, pixel_size=ps, n_jobs=None, container="f64",
                dgm=_bulk_points(rng, br, pr, ps, res, npts, skew), cls="biggrid/%s/%s/%dx%d" % (kcls, base["weight"]["type"], res[0], res[1]))
    return base


BULK_PLAN_QUICK = [            # (kernel class, block, multiple): the fast path AND the general path above 1024 / 2048 / 4096
    ("iso_scalar", 1024, 1), ("axis", 1024, 1), ("iso_matrix", 2048, 1), ("uniform", 2048, 1), ("iso_scalar", 4096, 1),
    ("axis", 4096, 1), ("corr_mid", 1024, 1), ("iso_matrix", 512, 1), ("uniform", 256, 1), ("corr_top", 512, 1),
    ("iso_scalar", 1024, 2), ("axis", 64, 1),
]
BULK_KERNELS = ["iso_scalar", "axis", "iso_matrix", "uniform", "corr_mid", "iso_scalar", "axis", "corr_lo", "iso_matrix",
                "uniform", "corr_hi", "corr_top"]
BULK_WEIGHTS = ["pers_nat", "ramp", "user", "pers_real", "pers_nat"]


def bulk_cases(rng, n, quick=True):
    out = []
    for i in range(n):
        if quick and i < len(BULK_PLAN_QUICK):
            kcls, block, mult = BULK_PLAN_QUICK[i]
        else:
            kcls, block = BULK_KERNELS[i % len(BULK_KERNELS)], BLOCKS[(i * 5 + i // 12) % len(BLOCKS)]
            mult = 1 if block >= 2048 else rng.choice([1, 1, 2, 3])
        out.append(_bulk_case(rng, kcls, BULK_WEIGHTS[i % len(BULK_WEIGHTS)], _bulk_n(rng, block, mult)))
    return out


def bulk_history_cases(rng, n):
    out = []
    for i in range(n):
        kcls = ["iso_scalar", "axis", "iso_matrix", "uniform", "corr_mid"][i % 5]
        block = [1024, 512, 2048, 256, 1024][i % 5] if i < 5 else rng.choice([128, 256, 512, 1024, 2048])
        sizes = [_bulk_n(rng, block, 1) + block // 3, _bulk_n(rng, block, 1), rng.randint(3, 9)]
        out.append(_bulk_history(rng, kcls, BULK_WEIGHTS[i % len(BULK_WEIGHTS)], sizes,
                                 coll=[False, False, -1, 2][i % 4]))
    return out


def grid_cases(rng, n, quick=True):
    pool = RES_BIG_QUICK if quick else RES_BIG_THOROUGH
    kc = ["axis", "iso_scalar", "uniform", "corr_mid", "iso_matrix", "axis", "corr_top", "uniform"]
    return [_grid_case(rng, kc[i % len(kc)], BULK_WEIGHTS[(i + 1) % len(BULK_WEIGHTS)], pool[(i * 3 + i // len(pool)) % len(pool)],
                       rng.randint(1, 3)) for i in range(n)]


def is_bulk(c):
    # (other modules, e.g. c11, call certifiable() on cases of their own shape: no "dgm" key means "not a bulk case of C04")
    if "dgm" not in c or "pixel_size" not in c or "birth_range" not in c or "pers_range" not in c:
        return False
    if len(c["dgm"]) > BULK_LIMIT_PTS:
        return True
    ps = c["pixel_size"]
    return round((c["birth_range"][1] - c["birth_range"][0]) / ps) * round((c["pers_range"][1] - c["pers_range"][0]) / ps) > BULK_LIMIT_PIX


def _spread(cases, offset):
    """core.py keeps every (len // 4)-th case as a sample in the evidence file: keep the bulky ones off those slots."""
    step = max(1, (len(cases) + offset) // 4)
    for i in range(len(cases)):
        if (i + offset) % step == 0 and is_bulk(cases[i]):
            for j in range(len(cases)):
                if (j + offset) % step and not is_bulk(cases[j]):
                    cases[i], cases[j] = cases[j], cases[i]
                    break
    return cases


def search_generate(rng, n):
    """Stream for the failing-input search: the container class first, then the general classes."""
    cases = (bulk_cases(rng, max(12, n // 40)) + bulk_history_cases(rng, max(4, n // 150)) + grid_cases(rng, max(7, n // 100)) +
             unit_cases(rng, max(16, n // 8)) + near_iso_cases(rng, max(8, n // 20)) +
             history_cases(rng, max(8, n // 10)) + negweight_cases(rng, max(9, n // 12)) +
             parallel_cases(rng, max(6, n // 20)) + container_cases(rng, reps=max(1, n // 60)))
    while len(cases) < n:
        cases.append(_case(rng, rng.choice(KCLS_COQ + KCLS_CORR), rng.choice(WCLS), rng.choice(PLACES),
                           rng.choice([(2, 2), (2, 3), (3, 2), (3, 4)]), rng.randint(1, 4),
                           dyadic=rng.random() < 0.5, skew=rng.random() < 0.6))
    return cases[:n]


def generate(rng, tier):
    cases = container_cases(rng, reps=1 if tier == "quick" else 6)
    cases += history_cases(rng, 8 if tier == "quick" else 96)
    cases += negweight_cases(rng, 9 if tier == "quick" else 108)
    cases += parallel_cases(rng, 6 if tier == "quick" else 60)
    cases += unit_cases(rng, 8 if tier == "quick" else 160)
    cases += near_iso_cases(rng, 4 if tier == "quick" else 48)
    cases += bulk_cases(rng, 12 if tier == "quick" else 72, quick=(tier == "quick"))
    cases += bulk_history_cases(rng, 4 if tier == "quick" else 20)
    cases += grid_cases(rng, 5 if tier == "quick" else 36, quick=(tier == "quick"))
    reps = 1 if tier == "quick" else 4
    for rep in range(reps):
        for kcls in KCLS_COQ + KCLS_CORR:
            for wi, wcls in enumerate(WCLS):
                if tier == "quick":
                    places = [PLACES[(wi + KCLS_COQ.index(kcls)) % 4] if kcls in KCLS_COQ else PLACES[(wi + KCLS_CORR.index(kcls)) % 4],
                              "mixed"]
                    if kcls in KCLS_CORR or wi % 2 == 1:
                        places = places[:1]
                else:
                    places = PLACES
                for place in places:
                    if tier == "quick":
                        res = rng.choice([(2, 2), (2, 3), (3, 2)])
                        npts = rng.randint(1, 2)
                    else:
                        res = rng.choice([(2, 2), (2, 3), (3, 2), (3, 4), (4, 3), (1, 3)])
                        npts = rng.randint(1, 4)
                    cases.append(_case(rng, kcls, wcls, place, res, npts, dyadic=rng.random() < 0.5,
                                       skew=rng.random() < 0.6))
    return _spread(cases, len(corpus()))


def corpus():
    return [
        # asymmetric diagram, non-square image: fixes the (birth, persistence) axis order
        {"birth_range": [0.0, 1.0], "pers_range": [0.0, 1.5], "pixel_size": 0.5,
         "kernel": {"type": "gauss_scalar", "s": 0.0625}, "weight": {"type": "persistence", "n": 1.0},
         "skew": True, "dgm": [[0.25, 1.5]]},
        # sigma is a variance: sd = 0.5 for sigma = 0.25
        {"birth_range": [0.0, 1.0], "pers_range": [0.0, 1.0], "pixel_size": 0.5,
         "kernel": {"type": "gauss_matrix", "sxx": 0.25, "sxy": 0.0, "syy": 0.25},
         "weight": {"type": "linear_ramp", "low": 0.0, "high": 1.0, "start": 0.0, "end": 1.0},
         "skew": False, "dgm": [[0.25, 0.75], [0.5, 0.25]]},
        # the C13 witness region: |r| >= 0.925 (negative pixels before the fix of images_kernels.py:173)
        {"birth_range": [0.0, 1.0], "pers_range": [0.0, 1.0], "pixel_size": 0.5,
         "kernel": {"type": "gauss_matrix", "sxx": 1.0, "sxy": 0.95, "syy": 1.0},
         "weight": {"type": "persistence", "n": 1.0}, "skew": False, "dgm": [[0.3351, 0.2785]]},
        {"birth_range": [0.0, 1.0], "pers_range": [0.0, 1.5], "pixel_size": 0.5,
         "kernel": {"type": "uniform", "width": 0.75, "height": 0.5}, "weight": {"type": "user"},
         "skew": True, "dgm": [[0.5, 1.25], [0.0, 0.5]]},
        # integer-dtype diagrams with non-integer ramp weights (0.25, 0.8125, 1.375): the weights must not
        # inherit the diagram's dtype
        {"birth_range": [0.0, 2.0], "pers_range": [0.0, 3.0], "pixel_size": 1.0,
         "kernel": {"type": "gauss_scalar", "s": 0.25},
         "weight": {"type": "linear_ramp", "low": 0.25, "high": 1.375, "start": 0.5, "end": 2.5},
         "skew": True, "dgm": [[0.0, 0.0], [1.0, 2.0], [1.0, 4.0]], "container": "i64"},
        {"birth_range": [0.0, 2.0], "pers_range": [0.0, 3.0], "pixel_size": 1.0,
         "kernel": {"type": "uniform", "width": 1.0, "height": 1.5},
         "weight": {"type": "linear_ramp", "low": 0.25, "high": 1.375, "start": 0.5, "end": 2.5},
         "skew": False, "dgm": [[0.0, 0.0], [1.0, 2.0], [2.0, 3.0]], "container": "list_int"},
    ]


# ---- implementation --------------------------------------------------------------------------
def make_imager(c):
    import numpy as np
    from persim import PersistenceImager
    from persim import images_kernels, images_weights
    k = c["kernel"]
    if k["type"] == "gauss_scalar":
        kernel, kp = images_kernels.gaussian, {"sigma": float(k["s"])}
    elif k["type"] == "gauss_matrix":
        kernel, kp = images_kernels.gaussian, {"sigma": np.array([[k["sxx"], k["sxy"]], [k["sxy"], k["syy"]]], dtype=float)}
        if k.get("sigma_as") == "list":
            kp = {"sigma": [[float(k["sxx"]), float(k["sxy"])], [float(k["sxy"]), float(k["syy"])]]}
    else:
        kernel, kp = images_kernels.uniform, {"width": float(k["width"]), "height": float(k["height"])}
    w = c["weight"]
    if w["type"] == "persistence":
        weight, wp = images_weights.persistence, {"n": w["n"]}
    elif w["type"] == "linear_ramp":
        weight, wp = images_weights.linear_ramp, {"low": w["low"], "high": w["high"], "start": w["start"], "end": w["end"]}
    elif w["type"] == "user_signed":
        weight, wp = user_weight_signed, {}
    else:
        weight, wp = user_weight, {}
    return PersistenceImager(birth_range=tuple(c["birth_range"]), pers_range=tuple(c["pers_range"]),
                             pixel_size=c["pixel_size"], weight=weight, weight_params=wp,
                             kernel=kernel, kernel_params=kp)


def make_input(pts, container):
    """The diagram in the container the case names (integer containers need integer-valued points)."""
    import numpy as np
    if container == "i64":
        return np.array([[int(b), int(d)] for b, d in pts], dtype=np.int64).reshape(-1, 2)
    if container == "list_int":
        return [[int(b), int(d)] for b, d in pts]
    if container == "list_float":
        return [[float(b), float(d)] for b, d in pts]
    if container == "f64_fortran":          # column-major memory
        return np.asfortranarray(np.array(pts, dtype=float).reshape(-1, 2))
    if container == "f64_view":             # two columns of a wider array with one spare row: a non-contiguous view
        wide = np.full((len(pts) + 1, 5), 1e6)
        wide[:-1, 1], wide[:-1, 3] = [b for b, _ in pts], [d for _, d in pts]
        return wide[:-1, 1::2]
    return np.array(pts, dtype=float).reshape(-1, 2)


def public_grid(im):
    """Pixel boundaries read from the PUBLIC attributes at this moment (not from the private mesh arrays)."""
    (blo, _), (plo, _), ps, res = im.birth_range, im.pers_range, im.pixel_size, im.resolution
    return ([float(blo + i * ps) for i in range(int(res[0]) + 1)],
            [float(plo + j * ps) for j in range(int(res[1]) + 1)])


def history_of(c):
    """A case is a history of operations on ONE imager; a plain case is the one-step history."""
    return c.get("history") or [{"op": "transform", "dgm": c["dgm"], "n_jobs": c.get("n_jobs")}]


def impl_run(cases):
    import copy
    import numpy as np
    from .. import history
    outs = []
    for c in cases:
        def call():
            im = make_imager(c)
            cont = c.get("container", "f64")
            steps = []
            memo = {}

            def the_input(pts):
                # equal-valued diagrams of one history are ONE object (fit and transform share their argument)
                return history.intern(memo, [pts, cont], lambda: make_input(pts, cont))
            for st in history_of(c):
                op = st["op"]
                if op == "transform":
                    d = the_input(st["dgm"])
                    d0 = copy.deepcopy(d)
                    nj = st.get("n_jobs", c.get("n_jobs"))
                    ret = (im.transform(d, skew=c["skew"]) if nj is None else
                           im.transform(d, skew=c["skew"], n_jobs=nj))
                    img = np.array(ret, dtype=float)
                    history.scribble(ret)      # the caller may edit what it got back; later calls must not depend on it
                    bp, pp = public_grid(im)
                    steps.append({"dgm": st["dgm"], "bp": bp, "pp": pp,
                                  "res": [int(x) for x in im.resolution], "shape": [int(x) for x in img.shape],
                                  "img": [[float(v) for v in row] for row in img] if img.ndim == 2 else None,
                                  "input_unchanged": bool(np.array_equal(np.asarray(d), np.asarray(d0)) and type(d) is type(d0)
                                                          and getattr(d, "dtype", None) == getattr(d0, "dtype", None))})
                elif op == "transform_coll":
                    # a collection through the public transform (joblib branch when n_jobs is not None):
                    # one step record per returned image, in order
                    ds = [make_input(g, cont) for g in st["dgms"]]
                    ds0 = copy.deepcopy(ds)
                    nj = st.get("n_jobs")
                    r = im.transform(ds, skew=c["skew"]) if nj is None else im.transform(ds, skew=c["skew"], n_jobs=nj)
                    if len(r) != len(ds):
                        raise ValueError("transform returned %d images for %d diagrams" % (len(r), len(ds)))
                    bp, pp = public_grid(im)
                    for g, d, d0, img in zip(st["dgms"], ds, ds0, [np.array(x, dtype=float) for x in r]):
                        steps.append({"dgm": g, "bp": bp, "pp": pp,
                                      "res": [int(x) for x in im.resolution], "shape": [int(x) for x in img.shape],
                                      "img": [[float(v) for v in row] for row in img] if img.ndim == 2 else None,
                                      "input_unchanged": bool(np.array_equal(np.asarray(d), np.asarray(d0)))})
                    history.scribble(r)
                elif op == "birth_range":
                    im.birth_range = tuple(st["val"])
                elif op == "pers_range":
                    im.pers_range = tuple(st["val"])
                elif op == "pixel_size":
                    im.pixel_size = st["val"]
                elif op == "fit":
                    im.fit(the_input(st["dgm"]), skew=c["skew"])
                else:
                    raise ValueError("unknown op %r" % op)
            o = dict(steps[-1])
            o["steps"] = steps
            return o
        outs.append(core.guarded(call))
    return outs


# ---- the spec, evaluated independently of the model ------------------------------------------
def _phi(x):
    return 0.5 * math.erfc(-x / math.sqrt(2.0))


def _phi_diff(a, b):
    """Phi(b) - Phi(a) without cancellation in the tails."""
    if a > 0 and b > 0:
        return _phi(-a) - _phi(-b)
    return _phi(b) - _phi(a)


def _gauss_mass(mu, sxx, sxy, syy, x0, x1, y0, y1):
    sx, sy = math.sqrt(sxx), math.sqrt(syy)
    if sxy == 0.0:
        return _phi_diff((x0 - mu[0]) / sx, (x1 - mu[0]) / sx) * _phi_diff((y0 - mu[1]) / sy, (y1 - mu[1]) / sy)
    from scipy.integrate import quad
    r = sxy / (sx * sy)
    sc = sy * math.sqrt(1.0 - r * r)

    def f(x):
        z = (x - mu[0]) / sx
        m = mu[1] + r * sy * z
        return math.exp(-0.5 * z * z) / (sx * math.sqrt(2 * math.pi)) * _phi_diff((y0 - m) / sc, (y1 - m) / sc)
    # breakpoints where the conditional mean crosses y0 / y1
    pts = []
    for y in (y0, y1):
        xb = mu[0] + (y - mu[1]) * sx / (r * sy)
        if x0 < xb < x1:
            pts.append(xb)
    if x0 < mu[0] < x1:
        pts.append(mu[0])
    v, err = quad(f, x0, x1, points=sorted(pts) or None, epsabs=1e-14, epsrel=1e-13, limit=400)
    return v


def _uniform_mass(mu, width, height, x0, x1, y0, y1):
    F = Fraction
    lo_x, lo_y = F(mu[0]) - F(width) / 2, F(mu[1]) - F(height) / 2
    ox = max(F(0), min(F(x1), lo_x + F(width)) - max(F(x0), lo_x))
    oy = max(F(0), min(F(y1), lo_y + F(height)) - max(F(y0), lo_y))
    return float(ox * oy / (F(width) * F(height)))


def _weight_ref(w, b, p):
    if w["type"] == "persistence":
        return p ** w["n"]
    if w["type"] == "linear_ramp":
        if p < w["start"]:
            return w["low"]
        if p > w["end"]:
            return w["high"]
        return w["low"] + (w["high"] - w["low"]) * (p - w["start"]) / (w["end"] - w["start"])
    if w["type"] == "user_signed":
        return 0.5 * p - b + 0.125
    return 0.25 + 0.5 * p + b * b


def reference_image(c, bp, pp, dgm=None):
    pts = [(b, d - b) if c["skew"] else (b, d) for b, d in (c["dgm"] if dgm is None else dgm)]
    k = c["kernel"]
    img = [[0.0] * (len(pp) - 1) for _ in range(len(bp) - 1)]
    for (b, p) in pts:
        wt = _weight_ref(c["weight"], b, p)
        for i in range(len(bp) - 1):
            for j in range(len(pp) - 1):
                if k["type"] == "gauss_scalar":
                    m = _gauss_mass((b, p), k["s"], 0.0, k["s"], bp[i], bp[i + 1], pp[j], pp[j + 1])
                elif k["type"] == "gauss_matrix":
                    m = _gauss_mass((b, p), k["sxx"], k["sxy"], k["syy"], bp[i], bp[i + 1], pp[j], pp[j + 1])
                else:
                    m = _uniform_mass((b, p), k["width"], k["height"], bp[i], bp[i + 1], pp[j], pp[j + 1])
                img[i][j] += wt * m
    return img


def predicate(c, o):
    if "error" in o:
        return False, "unexpected-error: %s" % o
    steps = o.get("steps") or [o]
    for n, st in enumerate(steps):
        tag = "" if len(steps) == 1 else " (image #%d of the history)" % (n + 1)
        bp, pp = st["bp"], st["pp"]
        if st["img"] is None or st["shape"] != [len(bp) - 1, len(pp) - 1] or st["shape"] != st["res"]:
            return False, "shape: image %s, grid %dx%d, resolution %s (axes are (birth, persistence))%s" % (
                st["shape"], len(bp) - 1, len(pp) - 1, st["res"], tag)
        if not st.get("input_unchanged", True):
            return False, "input-mutated: transform changed the caller's diagram array%s" % tag
        ref = reference_image(c, bp, pp, st.get("dgm"))
        for i, row in enumerate(ref):
            for j, r in enumerate(row):
                v = st["img"][i][j]
                if not (v == v) or abs(v - r) > TOL * (1.0 + abs(r)):
                    return False, "pixel: image[%d][%d] = %r but sum of weight * kernel mass = %r%s" % (i, j, v, r, tag)
    return True, ""


def nontrivial(c, o):
    if "error" in o or not o.get("img"):
        return False
    flat = [v for row in o["img"] for v in row]
    return max(abs(v) for v in flat) > 1e-9 and (max(flat) - min(flat)) > 1e-9


# ---- the model, run inside Coq -----------------------------------------------------------------
HEADER = """From Coq Require Import Reals List Bool Lra.
From Coquelicot Require Import Coquelicot.
From Interval Require Import Tactic.
From Persim Require Import Spec.ImageS Model.ImageM Model.KernelM Corr.ImageCorr.
Import ListNotations.
Open Scope R_scope.
"""
R = core.coq_R


def coq_weight(w):
    if w["type"] == "persistence":
        n = float(w["n"])
        if n == int(n) and 0 <= n <= 8:
            return "(persistence_nat %d)" % int(n)
        return "(persistence_real %s)" % R(n)
    if w["type"] == "linear_ramp":
        return "(linear_ramp %s %s %s %s)" % (R(w["low"]), R(w["high"]), R(w["start"]), R(w["end"]))
    if w["type"] == "user_signed":
        return "(fun b p : R => %s * p - b + %s)" % (R(0.5), R(0.125))
    return "(fun b p : R => %s + %s * p + b * b)" % (R(0.25), R(0.5))


def coq_kernel(k):
    if k["type"] == "gauss_scalar":
        return "(GaussScalar %s)" % R(k["s"])
    if k["type"] == "gauss_matrix":
        return "(GaussMatrix %s %s %s)" % (R(k["sxx"]), R(k["sxy"]), R(k["syy"]))
    return "(OtherKernel (KuI %s %s))" % (R(k["width"]), R(k["height"]))


def coq_call(c, bp, pp):
    return "transform_one PhiI KgI %s %s %s %s %s %s" % (
        "true" if c["skew"] else "false", coq_weight(c["weight"]), coq_kernel(c["kernel"]),
        core.coq_list([R(x) for x in bp]), core.coq_list([R(x) for x in pp]),
        core.coq_list(["(%s, %s)" % (R(b), R(d)) for b, d in c["dgm"]]))


def certifiable(c):
    k = c["kernel"]
    return not (k["type"] == "gauss_matrix" and k["sxy"] != 0.0) and not is_bulk(c)


def _stmt(c, o):
    if "error" in o or not o.get("img") or not certifiable(c):
        return None
    flat = [v for row in o["img"] for v in row]
    if any(v != v or abs(v) == float("inf") for v in flat):
        return None
    img = core.coq_list([core.coq_list([R(v) for v in row]) for row in o["img"]])
    return "img_close %s (%s) %s" % (R(Fraction(1, 10 ** 9)), coq_call(c, o["bp"], o["pp"]), img)


def coq_jobs(cases, outs):
    return []


def coq_judge(cases, outs, results):
    lemmas, idx, verdicts = [], [], [None] * len(cases)
    for i, (c, o) in enumerate(zip(cases, outs)):
        if not certifiable(c):
            verdicts[i] = ("skip:large diagram / grid: the Coq certificate is kept for small cases (independent predicate on every pixel)"
                           if is_bulk(c) else
                           "skip:correlated Gaussian is not certified inside Coq (independent predicate only)")
            continue
        st = _stmt(c, o)
        if st is None:
            verdicts[i] = "disagree:not-expressible (error, nan/inf or wrong shape): %s" % str(o)[:120]
            continue
        idx.append(i)
        lemmas.append((st, "image_case."))
    ok, wall = core.prove_lemmas(PID, HEADER, lemmas, chunk=1, timeout=COQ_TIMEOUT)
    for i, good in zip(idx, ok):
        verdicts[i] = "agree" if good else "disagree:certificate |model pixel - impl pixel| <= 1e-9 not provable"
    return verdicts


def shrink_candidates(c):
    if c.get("history"):
        h = c["history"]
        if len(h) == 1 and h[0]["op"] == "transform_coll":
            g = h[0]["dgms"]
            for i in range(len(g)):
                if len(g) > 1:
                    d = dict(c); d["history"] = [dict(h[0], dgms=g[:i] + g[i + 1:])]; d["dgm"] = d["history"][0]["dgms"][-1]; yield d
            return
        # drop one non-final operation at a time (the last transform stays)
        for i in range(len(h) - 1):
            d = dict(c); d["history"] = h[:i] + h[i + 1:]; yield d
        return
    if len(c["dgm"]) > 16:
        # a large diagram: drop halves, quarters, eighths first (single pairs only below 64 pairs)
        g = c["dgm"]
        for parts in (2, 4, 8):
            step = -(-len(g) // parts)
            for lo in range(0, len(g), step):
                d = dict(c); d["dgm"] = g[:lo] + g[lo + step:]
                if d["dgm"]:
                    yield d
    if 1 < len(c["dgm"]) <= 64:
        for i in range(len(c["dgm"])):
            d = dict(c); d["dgm"] = c["dgm"][:i] + c["dgm"][i + 1:]; yield d
    if c["weight"]["type"] != "persistence" or c["weight"].get("n") != 1.0:
        d = dict(c); d["weight"] = {"type": "persistence", "n": 1.0}; yield d
    u = c.get("unit", 1.0)
    for den in ((1,) if c.get("container") in ("i64", "list_int") else (4, 16)):
        d = dict(c); d["dgm"] = [[round(b / u * den) / den * u, round(e / u * den) / den * u] for b, e in c["dgm"]]
        if d["dgm"] != c["dgm"]:
            yield d
